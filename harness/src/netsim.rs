//! shared two-endpoint network simulation
