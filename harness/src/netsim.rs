//! Shared two-endpoint simulation of the connection layer (0.6 with DDNet token, 0.6 without token,
//! 0.7). The harness owns the clock, both unidirectional networks and the randomness.

use crate::util::Warnings;
use crate::{burn, guard, set_fuel, unlimited_fuel};
use libtw2_net::connection as c6;
use libtw2_net::connection7 as c7;
use libtw2_net::{Timeout, Timestamp};
use serde::{Deserialize, Serialize};
use std::collections::HashSet;

pub const CALL_FUEL: i64 = 50_000;
pub const CONNECT_PACKET: &[u8; 12] = b"\x10\x00\x00\x01TKEN\xff\xff\xff\xff";
pub const CONNECT_PACKET_NO_TOKEN: &[u8; 4] = b"\x10\x00\x00\x01";

// ---------------------------------------------------------------------------
// Callback owned by the harness

#[derive(Clone, Debug, Default)]
pub struct SimCb {
    pub now_us: u64,
    pub out: Vec<Vec<u8>>,
    /// scripted answers for secure_random (consumed first), then a deterministic stream
    pub script: Vec<[u8; 4]>,
    pub rnd_state: u64,
    pub time_calls: u64,
    pub random_calls: u64,
    /// injected fault: the send callback reports an error and nothing goes out
    pub fail_sends: bool,
    pub send_failures: u64,
}

impl SimCb {
    pub fn new(seed: u64) -> SimCb {
        SimCb {
            now_us: 1_000_000,
            out: Vec::new(),
            script: Vec::new(),
            rnd_state: seed,
            time_calls: 0,
            random_calls: 0,
            fail_sends: false,
            send_failures: 0,
        }
    }
    fn fill(&mut self, buffer: &mut [u8]) {
        burn();
        self.random_calls += 1;
        if !self.script.is_empty() {
            let v = self.script.remove(0);
            for (i, b) in buffer.iter_mut().enumerate() {
                *b = v[i % 4];
            }
            return;
        }
        for b in buffer.iter_mut() {
            // splitmix64
            self.rnd_state = self.rnd_state.wrapping_add(0x9E3779B97F4A7C15);
            let mut z = self.rnd_state;
            z = (z ^ (z >> 30)).wrapping_mul(0xBF58476D1CE4E5B9);
            z = (z ^ (z >> 27)).wrapping_mul(0x94D049BB133111EB);
            *b = (z ^ (z >> 31)) as u8;
        }
    }
}

macro_rules! impl_cb {
    ($m:ident) => {
        impl $m::Callback for SimCb {
            type Error = ();
            fn secure_random(&mut self, buffer: &mut [u8]) {
                self.fill(buffer)
            }
            fn send(&mut self, buffer: &[u8]) -> Result<(), ()> {
                burn();
                if self.fail_sends {
                    self.send_failures += 1;
                    return Err(());
                }
                self.out.push(buffer.to_vec());
                Ok(())
            }
            fn time(&mut self) -> Timestamp {
                burn();
                self.time_calls += 1;
                Timestamp::from_usecs_since_epoch(self.now_us)
            }
        }
    };
}
impl_cb!(c6);
impl_cb!(c7);

// ---------------------------------------------------------------------------
// Protocol abstraction

#[derive(Clone, Debug, PartialEq, Eq, Hash, Serialize, Deserialize)]
pub enum Ev {
    Connless(Vec<u8>),
    Chunk(Vec<u8>, bool),
    Ready,
    Disconnect(Vec<u8>),
}

#[derive(Clone, Copy, Debug, PartialEq, Eq)]
pub enum SendResult {
    Ok,
    TooLong,
}

pub trait Proto: 'static {
    type Conn;
    const NAME: &'static str;
    const IS7: bool;
    fn new() -> Self::Conn;
    fn connect(c: &mut Self::Conn, cb: &mut SimCb);
    fn disconnect(c: &mut Self::Conn, cb: &mut SimCb, reason: &[u8]);
    fn send(c: &mut Self::Conn, cb: &mut SimCb, data: &[u8], vital: bool) -> SendResult;
    fn send_connless(c: &mut Self::Conn, cb: &mut SimCb, data: &[u8]) -> SendResult;
    fn flush(c: &mut Self::Conn, cb: &mut SimCb);
    fn tick(c: &mut Self::Conn, cb: &mut SimCb);
    fn needs_tick(c: &Self::Conn) -> Timeout;
    fn feed(c: &mut Self::Conn, cb: &mut SimCb, data: &[u8]) -> (Vec<Ev>, Vec<String>);
    fn reset(c: &mut Self::Conn);
    fn clone_conn(c: &Self::Conn) -> Self::Conn;
    fn fingerprint(c: &Self::Conn) -> String;
    fn summary(c: &Self::Conn) -> (&'static str, usize, usize, bool);
}

macro_rules! impl_proto {
    ($name:ident, $m:ident, $label:expr, $is7:expr) => {
        pub struct $name;
        impl Proto for $name {
            type Conn = $m::Connection;
            const NAME: &'static str = $label;
            const IS7: bool = $is7;
            fn new() -> Self::Conn {
                $m::Connection::new()
            }
            fn connect(c: &mut Self::Conn, cb: &mut SimCb) {
                match c.connect(cb) {
                    Ok(()) => {}
                    Err(()) => {}
                }
            }
            fn disconnect(c: &mut Self::Conn, cb: &mut SimCb, reason: &[u8]) {
                match c.disconnect(cb, reason) {
                    Ok(()) => {}
                    Err(()) => {}
                }
            }
            fn send(c: &mut Self::Conn, cb: &mut SimCb, data: &[u8], vital: bool) -> SendResult {
                match c.send(cb, data, vital) {
                    Ok(()) => SendResult::Ok,
                    Err($m::Error::TooLongData) => SendResult::TooLong,
                    Err($m::Error::Callback(())) => SendResult::Ok, // the chunk is queued even if flushing the previous packet failed
                }
            }
            fn send_connless(c: &mut Self::Conn, cb: &mut SimCb, data: &[u8]) -> SendResult {
                match c.send_connless(cb, data) {
                    Ok(()) => SendResult::Ok,
                    Err($m::Error::TooLongData) => SendResult::TooLong,
                    Err($m::Error::Callback(())) => SendResult::TooLong, // nothing went out
                }
            }
            fn flush(c: &mut Self::Conn, cb: &mut SimCb) {
                match c.flush(cb) {
                    Ok(()) => {}
                    Err(()) => {}
                }
            }
            fn tick(c: &mut Self::Conn, cb: &mut SimCb) {
                match c.tick(cb) {
                    Ok(()) => {}
                    Err(()) => {}
                }
            }
            fn needs_tick(c: &Self::Conn) -> Timeout {
                c.needs_tick()
            }
            fn feed(c: &mut Self::Conn, cb: &mut SimCb, data: &[u8]) -> (Vec<Ev>, Vec<String>) {
                let mut buf = [0u8; 2048];
                let mut warn = Warnings::new();
                let mut evs = Vec::new();
                {
                    let (iter, res) = c.feed(cb, &mut warn, data, &mut buf[..]);
                    match res {
                        Ok(()) => {}
                        Err(()) => {}
                    }
                    for e in iter {
                        burn();
                        evs.push(match e {
                            $m::ReceiveChunk::Connless(d) => Ev::Connless(d.to_vec()),
                            $m::ReceiveChunk::Connected(d, v) => Ev::Chunk(d.to_vec(), v),
                            $m::ReceiveChunk::Ready => Ev::Ready,
                            $m::ReceiveChunk::Disconnect(r) => Ev::Disconnect(r.to_vec()),
                        });
                    }
                }
                (evs, warn.0)
            }
            fn reset(c: &mut Self::Conn) {
                c.reset()
            }
            fn clone_conn(c: &Self::Conn) -> Self::Conn {
                c.verif_clone()
            }
            fn fingerprint(c: &Self::Conn) -> String {
                c.verif_fingerprint()
            }
            fn summary(c: &Self::Conn) -> (&'static str, usize, usize, bool) {
                c.verif_summary()
            }
        }
    };
}
impl_proto!(P6, c6, "0.6", false);
impl_proto!(P7, c7, "0.7", true);

// ---------------------------------------------------------------------------
// Operations

#[derive(Clone, Debug, PartialEq, Eq, Hash, Serialize, Deserialize)]
pub enum Op {
    Connect,
    Send { side: u8, vital: bool, len: u16, fill: u8 },
    Flush { side: u8 },
    Tick { side: u8 },
    Advance { dt: u8 },
    Deliver { dir: u8, k: u16 },
    Drop { dir: u8, k: u16 },
    Dup { dir: u8, k: u16 },
    /// rewrite an in-flight datagram into its other wire representation (payload compressed / not)
    Recode { dir: u8, k: u16 },
    DeliverAll { dir: u8 },
    /// n small vital chunks, each flushed, delivered in order, then acknowledged
    Burst { side: u8, n: u16 },
    Disconnect { side: u8, reason_len: u8 },
    SendConnless { side: u8, len: u16 },
    /// both endpoints back to unconnected (if possible), network cleared: a new session
    Reset,
    /// fault injection: the send callback of `side` fails from now on / works again
    FailSends { side: u8, on: bool },
}

pub const DT_US: [u64; 10] = [
    0, 1_000, 499_000, 500_000, 501_000, 999_000, 1_000_000, 1_001_000, 5_000_000, 100,
];

#[derive(Clone, Debug)]
pub struct Flight {
    pub data: Vec<u8>,
    /// vital chunks the sender had submitted when this was put on the wire
    pub sender_vital_at_send: u64,
    /// vital chunks the receiver side had submitted when this was put on the wire
    pub receiver_vital_at_send: u64,
    pub serial: u64,
    pub touched: bool,
}

#[derive(Clone, Copy, Debug, PartialEq, Eq)]
pub enum Mode6 {
    Token,
    NoToken,
}

#[derive(Default, Clone, Debug)]
pub struct Stats {
    pub ops_applied: u64,
    pub ops_skipped: u64,
    pub vital_delivered: u64,
    pub nonvital_delivered: u64,
    pub ready: u64,
    pub drops: u64,
    pub dups: u64,
    pub recoded: u64,
    pub reorders: u64,
    pub faults_on_vital: u64,
    pub handshake_lost: u64,
    pub resend_datagrams: u64,
    pub wrapped: bool,
    pub max_in_flight: usize,
    pub too_long: u64,
    pub disconnects: u64,
    pub sessions: u64,
    pub datagrams: u64,
    pub connless_delivered: u64,
    pub max_unacked: usize,
}

pub struct Failure {
    pub oracle: &'static str,
    pub msg: String,
}

pub type StepResult = Result<(), Failure>;

fn fail<T>(oracle: &'static str, msg: String) -> Result<T, Failure> {
    Err(Failure { oracle, msg })
}

/// One observed datagram handed to the send callback.
#[derive(Clone, Debug)]
pub struct SentDatagram {
    pub side: usize,
    pub data: Vec<u8>,
}

pub struct Sim<P: Proto> {
    pub ends: [P::Conn; 2],
    pub cb: [SimCb; 2],
    pub now_us: u64,
    pub net: [Vec<Flight>; 2],
    pub strip_token: bool,
    pub submitted_vital: [Vec<Vec<u8>>; 2],
    pub submitted_nonvital: [HashSet<Vec<u8>>; 2],
    pub submitted_connless: [HashSet<Vec<u8>>; 2],
    /// vital chunks from side s delivered to the application on side 1-s
    pub delivered_vital: [usize; 2],
    pub ready_seen: u32,
    pub acceptor_sent: bool,
    pub connect_called: bool,
    pub serial: u64,
    pub send_serial: u64,
    pub stats: Stats,
    /// every datagram handed to the send callback since the last `take_sent`
    pub sent_log: Vec<SentDatagram>,
    pub log_sent: bool,
    /// largest chunk length generated by Send ops (lengths are clamped to this)
    pub max_len: usize,
    /// skip sends while this many vital chunks are unacknowledged (assumption of C01)
    pub max_unacked: usize,
    /// skip queueing when this many chunks are queued without a flush
    pub max_queued: usize,
    pub session_vital_base: [usize; 2],
    pub events: [Vec<Ev>; 2],
    pub warnings: Vec<String>,
}

impl<P: Proto> Sim<P> {
    pub fn new(seed: u64, strip_token: bool) -> Sim<P> {
        Sim {
            ends: [P::new(), P::new()],
            cb: [SimCb::new(seed ^ 0xA), SimCb::new(seed ^ 0xB)],
            now_us: 1_000_000,
            net: [Vec::new(), Vec::new()],
            strip_token,
            submitted_vital: [Vec::new(), Vec::new()],
            submitted_nonvital: [HashSet::new(), HashSet::new()],
            submitted_connless: [HashSet::new(), HashSet::new()],
            delivered_vital: [0, 0],
            ready_seen: 0,
            acceptor_sent: false,
            connect_called: false,
            serial: 0,
            send_serial: 0,
            stats: Stats::default(),
            sent_log: Vec::new(),
            log_sent: false,
            max_len: 1023,
            max_unacked: 500,
            max_queued: 200,
            session_vital_base: [0, 0],
            events: [Vec::new(), Vec::new()],
            warnings: Vec::new(),
        }
    }

    pub fn state(&self, side: usize) -> &'static str {
        P::summary(&self.ends[side]).0
    }
    pub fn online(&self, side: usize) -> bool {
        self.state(side) == "Online"
    }

    /// Run one library call on `side` under fuel and panic capture, then collect what it sent.
    pub fn call<R>(
        &mut self,
        side: usize,
        what: &str,
        f: impl FnOnce(&mut P::Conn, &mut SimCb) -> R,
    ) -> Result<R, Failure> {
        self.cb[side].now_us = self.now_us;
        set_fuel(CALL_FUEL);
        let r = {
            let (conn, cb) = (&mut self.ends[side], &mut self.cb[side]);
            guard(|| f(conn, cb))
        };
        unlimited_fuel();
        let r = match r {
            Ok(r) => r,
            Err(p) => {
                let oracle = if p.fuel { "termination" } else { "panic" };
                return fail(oracle, format!("{} {} on side {}: {}", P::NAME, what, side, p));
            }
        };
        self.collect(side)?;
        Ok(r)
    }

    fn collect(&mut self, side: usize) -> StepResult {
        let out = std::mem::take(&mut self.cb[side].out);
        for mut d in out {
            self.stats.datagrams += 1;
            if self.log_sent {
                self.sent_log.push(SentDatagram {
                    side,
                    data: d.clone(),
                });
            }
            if side == 1 {
                self.acceptor_sent = true;
            }
            if self.strip_token && side == 0 && d == CONNECT_PACKET {
                d = CONNECT_PACKET_NO_TOKEN.to_vec();
            }
            self.serial += 1;
            let f = Flight {
                data: d,
                sender_vital_at_send: self.submitted_vital[side].len() as u64,
                receiver_vital_at_send: self.submitted_vital[1 - side].len() as u64,
                serial: self.serial,
                touched: false,
            };
            self.net[side].push(f);
            self.stats.max_in_flight = self.stats.max_in_flight.max(self.net[side].len());
        }
        Ok(())
    }

    /// Enforce "no datagram is delayed across 1024 sequence numbers" (with margin).
    fn expire(&mut self) {
        for dir in 0..2 {
            let sv = self.submitted_vital[dir].len() as u64;
            let rv = self.submitted_vital[1 - dir].len() as u64;
            self.net[dir]
                .retain(|f| sv - f.sender_vital_at_send < 400 && rv - f.receiver_vital_at_send < 400);
        }
    }

    fn make_payload(&mut self, side: usize, vital: bool, len: usize, fill: u8) -> Vec<u8> {
        self.send_serial += 1;
        let mut tag = vec![0xC0 | side as u8 | if vital { 2 } else { 0 }];
        tag.extend_from_slice(&(self.send_serial as u32).to_be_bytes());
        tag.extend_from_slice(&[fill, fill ^ 0x55, 0x7e]);
        let mut p: Vec<u8> = Vec::with_capacity(len);
        for i in 0..len {
            p.push(if i < tag.len() { tag[i] } else { fill.wrapping_add((i as u8).wrapping_mul(if fill & 1 == 0 { 0 } else { 1 })) });
        }
        p
    }

    pub fn do_send(&mut self, side: usize, vital: bool, len: usize, fill: u8) -> Result<bool, Failure> {
        if !self.online(side) {
            return Ok(false);
        }
        let (_, unacked, queued, _) = P::summary(&self.ends[side]);
        if (vital && unacked >= self.max_unacked) || queued >= self.max_queued {
            return Ok(false);
        }
        let len = len.min(self.max_len);
        let payload = self.make_payload(side, vital, len, fill);
        let r = self.call(side, "send", |c, cb| P::send(c, cb, &payload, vital))?;
        match r {
            SendResult::Ok => {
                if vital {
                    self.submitted_vital[side].push(payload);
                    if self.submitted_vital[side].len() - self.session_vital_base[side] > 1024 {
                        self.stats.wrapped = true;
                    }
                } else {
                    self.submitted_nonvital[side].insert(payload);
                }
                let (_, unacked, _, _) = P::summary(&self.ends[side]);
                self.stats.max_unacked = self.stats.max_unacked.max(unacked);
            }
            SendResult::TooLong => self.stats.too_long += 1,
        }
        Ok(true)
    }

    pub fn deliver(&mut self, dir: usize, k: usize) -> StepResult {
        if k >= self.net[dir].len() {
            return Ok(());
        }
        if k != 0 {
            self.stats.reorders += 1;
            self.note_fault(dir, k);
        }
        let f = self.net[dir].remove(k);
        self.feed(1 - dir, &f.data)
    }

    fn datagram_carries_vital_or_handshake(&self, dir: usize, k: usize) -> (bool, bool) {
        let d = &self.net[dir][k].data;
        classify::<P>(d)
    }

    fn note_fault(&mut self, dir: usize, k: usize) {
        let (vital, handshake) = self.datagram_carries_vital_or_handshake(dir, k);
        if vital {
            self.stats.faults_on_vital += 1;
        }
        if handshake {
            self.stats.handshake_lost += 1;
        }
    }

    pub fn feed(&mut self, side: usize, data: &[u8]) -> StepResult {
        let data = data.to_vec();
        let (evs, warns) = self.call(side, "feed", |c, cb| P::feed(c, cb, &data))?;
        self.warnings.extend(warns);
        self.process_events(side, evs)
    }

    fn process_events(&mut self, side: usize, evs: Vec<Ev>) -> StepResult {
        let from = 1 - side;
        for e in evs {
            match &e {
                Ev::Chunk(data, true) => {
                    let idx = self.delivered_vital[from];
                    match self.submitted_vital[from].get(idx) {
                        Some(exp) if exp == data => {
                            self.delivered_vital[from] += 1;
                            self.stats.vital_delivered += 1;
                        }
                        Some(exp) => {
                            // classify for the message
                            let pos = self.submitted_vital[from].iter().position(|s| s == data);
                            return fail(
                                "vital_prefix",
                                format!(
                                    "{}: side {} received a vital chunk that is not the next submitted one: expected #{} ({} bytes, {:02x?}..), got {} bytes {:02x?}.. which is {}",
                                    P::NAME,
                                    side,
                                    idx,
                                    exp.len(),
                                    &exp[..exp.len().min(9)],
                                    data.len(),
                                    &data[..data.len().min(9)],
                                    match pos {
                                        Some(p) if p < idx => format!("submitted chunk #{} (duplicate delivery)", p),
                                        Some(p) => format!("submitted chunk #{} (skipped {} chunks)", p, p - idx),
                                        None => "not a submitted chunk at all (altered)".to_string(),
                                    }
                                ),
                            );
                        }
                        None => {
                            return fail(
                                "vital_prefix",
                                format!(
                                    "{}: side {} received vital chunk #{} but only {} were submitted: {} bytes {:02x?}..",
                                    P::NAME,
                                    side,
                                    idx,
                                    self.submitted_vital[from].len(),
                                    data.len(),
                                    &data[..data.len().min(9)]
                                ),
                            );
                        }
                    }
                }
                Ev::Chunk(data, false) => {
                    if !self.submitted_nonvital[from].contains(data) {
                        return fail(
                            "nonvital_member",
                            format!(
                                "{}: side {} received a non-vital chunk that was never sent: {} bytes {:02x?}..",
                                P::NAME,
                                side,
                                data.len(),
                                &data[..data.len().min(9)]
                            ),
                        );
                    }
                    self.stats.nonvital_delivered += 1;
                }
                Ev::Ready => {
                    self.ready_seen += 1;
                    self.stats.ready += 1;
                    if side != 0 || !self.connect_called {
                        return fail("ready", format!("{}: Ready reported on side {} which did not connect", P::NAME, side));
                    }
                    if self.ready_seen > 1 {
                        return fail("ready", format!("{}: the connecting side was told Ready {} times", P::NAME, self.ready_seen));
                    }
                    if !self.acceptor_sent {
                        return fail("ready", format!("{}: Ready before the accepting side sent anything", P::NAME));
                    }
                }
                Ev::Connless(d) => {
                    self.stats.connless_delivered += 1;
                    let _ = d;
                }
                Ev::Disconnect(_) => {
                    self.stats.disconnects += 1;
                }
            }
            self.events[side].push(e);
        }
        Ok(())
    }

    pub fn step(&mut self, op: &Op) -> StepResult {
        self.expire();
        let applied = self.step_inner(op)?;
        if applied {
            self.stats.ops_applied += 1;
        } else {
            self.stats.ops_skipped += 1;
        }
        Ok(())
    }

    fn step_inner(&mut self, op: &Op) -> Result<bool, Failure> {
        match *op {
            Op::Connect => {
                if self.state(0) != "Unconnected" || self.state(1) != "Unconnected" {
                    return Ok(false);
                }
                self.connect_called = true;
                self.stats.sessions += 1;
                self.call(0, "connect", |c, cb| P::connect(c, cb))?;
                Ok(true)
            }
            Op::Send { side, vital, len, fill } => self.do_send(side as usize & 1, vital, len as usize, fill),
            Op::Flush { side } => {
                let side = side as usize & 1;
                if !self.online(side) {
                    return Ok(false);
                }
                self.call(side, "flush", |c, cb| P::flush(c, cb))?;
                Ok(true)
            }
            Op::Tick { side } => {
                let side = side as usize & 1;
                let before = self.stats.datagrams;
                let had_unacked = P::summary(&self.ends[side]).1 > 0;
                self.call(side, "tick", |c, cb| P::tick(c, cb))?;
                if had_unacked && self.stats.datagrams > before {
                    self.stats.resend_datagrams += self.stats.datagrams - before;
                }
                Ok(true)
            }
            Op::Advance { dt } => {
                self.now_us += DT_US[dt as usize % DT_US.len()];
                Ok(true)
            }
            Op::Deliver { dir, k } => {
                let dir = dir as usize & 1;
                if self.net[dir].is_empty() {
                    return Ok(false);
                }
                let k = crate::pick(k, self.net[dir].len());
                self.deliver(dir, k)?;
                Ok(true)
            }
            Op::Drop { dir, k } => {
                let dir = dir as usize & 1;
                if self.net[dir].is_empty() {
                    return Ok(false);
                }
                let k = crate::pick(k, self.net[dir].len());
                self.note_fault(dir, k);
                self.stats.drops += 1;
                self.net[dir].remove(k);
                Ok(true)
            }
            Op::Dup { dir, k } => {
                let dir = dir as usize & 1;
                if self.net[dir].is_empty() || self.net[dir].len() > 600 {
                    return Ok(false);
                }
                let k = crate::pick(k, self.net[dir].len());
                self.note_fault(dir, k);
                self.stats.dups += 1;
                let f = self.net[dir][k].clone();
                self.net[dir].push(f);
                Ok(true)
            }
            Op::Recode { dir, k } => {
                // the network does not do this, but a peer may: same packet, other wire representation
                let dir = dir as usize & 1;
                if self.net[dir].is_empty() {
                    return Ok(false);
                }
                let k = crate::pick(k, self.net[dir].len());
                match crate::c06_reader_total::recode(&self.net[dir][k].data, P::IS7) {
                    Some(alt) => {
                        self.net[dir][k].data = alt;
                        self.stats.recoded += 1;
                        Ok(true)
                    }
                    None => Ok(false),
                }
            }
            Op::DeliverAll { dir } => {
                let dir = dir as usize & 1;
                let mut n = 0;
                while !self.net[dir].is_empty() && n < 2000 {
                    self.deliver(dir, 0)?;
                    n += 1;
                }
                Ok(n > 0)
            }
            Op::Burst { side, n } => {
                let side = side as usize & 1;
                if !self.online(side) || !self.online(1 - side) {
                    return Ok(false);
                }
                let n = (n as usize).min(300);
                for i in 0..n {
                    if !self.do_send(side, true, 8 + (i % 3), i as u8)? {
                        break;
                    }
                    if !self.online(side) {
                        break;
                    }
                    self.call(side, "flush", |c, cb| P::flush(c, cb))?;
                    while !self.net[side].is_empty() {
                        self.deliver(side, 0)?;
                    }
                }
                // acknowledgement travels back on a non-vital chunk
                if self.online(1 - side) {
                    self.do_send(1 - side, false, 9, 0xAC)?;
                    if self.online(1 - side) {
                        self.call(1 - side, "flush", |c, cb| P::flush(c, cb))?;
                    }
                    while !self.net[1 - side].is_empty() {
                        self.deliver(1 - side, 0)?;
                    }
                }
                Ok(true)
            }
            Op::Disconnect { side, reason_len } => {
                let side = side as usize & 1;
                if self.state(side) == "Disconnected" || self.state(side) == "Unconnected" {
                    return Ok(false);
                }
                let reason: Vec<u8> = (0..reason_len.min(127)).map(|i| b'a' + (i % 26)).collect();
                self.call(side, "disconnect", |c, cb| P::disconnect(c, cb, &reason))?;
                Ok(true)
            }
            Op::SendConnless { side, len } => {
                let side = side as usize & 1;
                if !self.online(side) {
                    return Ok(false);
                }
                let len = (len as usize).min(1500);
                let payload = self.make_payload(side, false, len, 0x11);
                let r = self.call(side, "send_connless", |c, cb| P::send_connless(c, cb, &payload))?;
                if r == SendResult::Ok {
                    self.submitted_connless[side].insert(payload);
                }
                Ok(true)
            }
            Op::FailSends { side, on } => {
                self.cb[side as usize & 1].fail_sends = on;
                Ok(true)
            }
            Op::Reset => {
                let ok = |s: &str| s == "Disconnected" || s == "Unconnected";
                if !(ok(self.state(0)) && ok(self.state(1))) || !self.connect_called {
                    return Ok(false);
                }
                for side in 0..2 {
                    if self.state(side) == "Disconnected" {
                        let conn = &mut self.ends[side];
                        if let Err(p) = guard(|| P::reset(conn)) {
                            return fail("panic", format!("{} reset: {}", P::NAME, p));
                        }
                    }
                    self.net[side].clear();
                    // a new session: what was submitted but not delivered before is gone
                    self.delivered_vital[side] = self.submitted_vital[side].len();
                    self.session_vital_base[side] = self.submitted_vital[side].len();
                }
                self.ready_seen = 0;
                self.acceptor_sent = false;
                self.connect_called = false;
                Ok(true)
            }
        }
    }

    /// Is everything delivered, acknowledged and flushed (the goal of the fair suffix)?
    pub fn quiescent(&self) -> bool {
        for s in 0..2 {
            let (_, unacked, queued, rr) = P::summary(&self.ends[s]);
            if unacked != 0 || queued != 0 || rr {
                return false;
            }
            if self.delivered_vital[s] != self.submitted_vital[s].len() {
                return false;
            }
            if !self.net[s].is_empty() {
                return false;
            }
        }
        if self.connect_called && self.ready_seen == 0 {
            return false;
        }
        true
    }

    /// Session still alive on both sides (liveness claims only make sense then)?
    pub fn alive(&self) -> bool {
        let dead = |s: &str| s == "Disconnected" || s == "Unconnected";
        self.connect_called && !dead(self.state(0)) && !dead(self.state(1))
    }

    /// The fair scheduler of C02: each round delivers every in-flight datagram once (FIFO), then each
    /// side ticks if its reported deadline has passed, otherwise the clock jumps to the earliest
    /// deadline. Returns the number of rounds used, or None if not quiescent after `max_rounds`.
    pub fn fair_suffix(&mut self, max_rounds: usize) -> Result<Option<usize>, Failure> {
        // the environment stops misbehaving: sends work again
        self.cb[0].fail_sends = false;
        self.cb[1].fail_sends = false;
        for round in 0..max_rounds {
            if self.quiescent() {
                return Ok(Some(round));
            }
            for dir in 0..2 {
                let batch: Vec<Flight> = std::mem::take(&mut self.net[dir]);
                for f in batch {
                    self.feed(1 - dir, &f.data)?;
                }
            }
            let mut ticked = false;
            for side in 0..2 {
                if let Some(t) = P::needs_tick(&self.ends[side]).to_opt() {
                    if t.as_usecs_since_epoch() <= self.now_us {
                        self.call(side, "tick", |c, cb| P::tick(c, cb))?;
                        ticked = true;
                    }
                }
            }
            if !ticked && self.net[0].is_empty() && self.net[1].is_empty() {
                match self.earliest_deadline() {
                    Some(t) if t > self.now_us => self.now_us = t,
                    Some(_) => {}
                    None => {
                        return Ok(if self.quiescent() { Some(round + 1) } else { None });
                    }
                }
            }
        }
        Ok(if self.quiescent() { Some(max_rounds) } else { None })
    }

    /// Independent copy of the whole simulation (uses the clone hook).
    pub fn snapshot(&self) -> Sim<P> {
        Sim {
            ends: [P::clone_conn(&self.ends[0]), P::clone_conn(&self.ends[1])],
            cb: self.cb.clone(),
            now_us: self.now_us,
            net: self.net.clone(),
            strip_token: self.strip_token,
            submitted_vital: self.submitted_vital.clone(),
            submitted_nonvital: self.submitted_nonvital.clone(),
            submitted_connless: self.submitted_connless.clone(),
            delivered_vital: self.delivered_vital,
            ready_seen: self.ready_seen,
            acceptor_sent: self.acceptor_sent,
            connect_called: self.connect_called,
            serial: self.serial,
            send_serial: self.send_serial,
            stats: self.stats.clone(),
            sent_log: Vec::new(),
            log_sent: self.log_sent,
            max_len: self.max_len,
            max_unacked: self.max_unacked,
            max_queued: self.max_queued,
            session_vital_base: self.session_vital_base,
            events: [Vec::new(), Vec::new()],
            warnings: Vec::new(),
        }
    }

    /// Earliest active deadline over both sides.
    pub fn earliest_deadline(&self) -> Option<u64> {
        (0..2)
            .filter_map(|s| P::needs_tick(&self.ends[s]).to_opt())
            .map(|t| t.as_usecs_since_epoch())
            .min()
    }
}

/// (carries a vital chunk, is a handshake control message) for a datagram written by the library.
pub fn classify<P: Proto>(d: &[u8]) -> (bool, bool) {
    let mut buf = [0u8; 2048];
    let mut w = Warnings::new();
    if P::IS7 {
        use libtw2_net::protocol7::*;
        match Packet::read(&mut w, d, &mut buf[..]) {
            Ok(Packet::Connected(ConnectedPacket { type_: ConnectedPacketType::Chunks(_, n, data), .. })) => {
                (ChunksIter::new(data, n).any(|c| c.vital.is_some()), false)
            }
            Ok(Packet::Connected(ConnectedPacket { type_: ConnectedPacketType::Control(c), .. })) => {
                (false, !matches!(c, ControlPacket::KeepAlive | ControlPacket::Close(_)))
            }
            _ => (false, false),
        }
    } else {
        use libtw2_net::protocol::*;
        match Packet::read(&mut w, d, None, &mut buf[..]) {
            Ok(Packet::Connected(ConnectedPacket { type_: ConnectedPacketType::Chunks(_, n, data), .. })) => {
                (ChunksIter::new(data, n).any(|c| c.vital.is_some()), false)
            }
            Ok(Packet::Connected(ConnectedPacket { type_: ConnectedPacketType::Control(c), .. })) => {
                (false, !matches!(c, ControlPacket::KeepAlive | ControlPacket::Close(_)))
            }
            _ => (false, false),
        }
    }
}

// ---------------------------------------------------------------------------
// Strategies

use proptest::prelude::*;

pub fn len_strategy(max: usize) -> BoxedStrategy<u16> {
    let max = max as u16;
    prop_oneof![
        4 => 8u16..40,
        2 => 0u16..=max,
        2 => prop_oneof![Just(0u16), Just(1), Just(7), Just(8), Just(15), Just(16), Just(17), Just(63), Just(64), Just(255), Just(256)],
        2 => (0u16..6).prop_map(move |d| max - d),
        1 => 300u16..700,
    ]
    .boxed()
}

pub fn op_strategy(max_len: usize) -> BoxedStrategy<Op> {
    let side = 0u8..2;
    prop_oneof![
        1 => Just(Op::Connect),
        10 => (0u8..2, prop::bool::weighted(0.7), len_strategy(max_len), any::<u8>())
            .prop_map(|(side, vital, len, fill)| Op::Send { side, vital, len, fill }),
        5 => side.clone().prop_map(|side| Op::Flush { side }),
        5 => side.clone().prop_map(|side| Op::Tick { side }),
        4 => (0u8..10).prop_map(|dt| Op::Advance { dt }),
        8 => (0u8..2, prop_oneof![3 => Just(0u16), 1 => any::<u16>()]).prop_map(|(dir, k)| Op::Deliver { dir, k }),
        2 => (0u8..2, any::<u16>()).prop_map(|(dir, k)| Op::Drop { dir, k }),
        2 => (0u8..2, any::<u16>()).prop_map(|(dir, k)| Op::Dup { dir, k }),
        2 => (0u8..2, prop_oneof![2 => Just(0u16), 1 => any::<u16>()]).prop_map(|(dir, k)| Op::Recode { dir, k }),
        3 => side.clone().prop_map(|dir| Op::DeliverAll { dir }),
        1 => (0u8..2, prop_oneof![3 => 1u16..40, 1 => 200u16..300]).prop_map(|(side, n)| Op::Burst { side, n }),
        1 => (0u8..2, prop::bool::weighted(0.35)).prop_map(|(side, on)| Op::FailSends { side, on }),
    ]
    .boxed()
}

/// A history: a handshake prelude (usually) followed by generated ops.
pub fn history_strategy(max_len: usize, max_ops: usize, with_session_ops: bool) -> BoxedStrategy<Vec<Op>> {
    let ops = if with_session_ops {
        prop_oneof![
            60 => op_strategy(max_len),
            1 => (0u8..2, 0u8..=127).prop_map(|(side, reason_len)| Op::Disconnect { side, reason_len }),
            1 => Just(Op::Reset),
            1 => (0u8..2, 0u16..1391).prop_map(|(side, len)| Op::SendConnless { side, len }),
        ]
        .boxed()
    } else {
        op_strategy(max_len)
    };
    (prop::bool::weighted(0.85), proptest::collection::vec(ops, 0..max_ops))
        .prop_map(|(prelude, mut v)| {
            if prelude {
                let mut p = handshake_prelude();
                p.append(&mut v);
                p
            } else {
                v.insert(0, Op::Connect);
                v
            }
        })
        .boxed()
}

/// Histories that push one direction through the 1024 sequence wrap: bursts of acknowledged vital
/// chunks interleaved with ordinary (faulty) traffic.
pub fn wrap_history_strategy(max_len: usize) -> BoxedStrategy<Vec<Op>> {
    let block = (0u8..2, 250u16..300, proptest::collection::vec(op_strategy(max_len), 0..12)).prop_map(|(side, n, mut ops)| {
        let mut v = vec![Op::Burst { side, n }];
        v.append(&mut ops);
        // settle so that the next burst is not refused by the unacked limit
        for _ in 0..2 {
            v.push(Op::DeliverAll { dir: 0 });
            v.push(Op::DeliverAll { dir: 1 });
            v.push(Op::Advance { dt: 7 });
            v.push(Op::Tick { side: 0 });
            v.push(Op::Tick { side: 1 });
        }
        v.push(Op::DeliverAll { dir: 0 });
        v.push(Op::DeliverAll { dir: 1 });
        v
    });
    (0u8..2, proptest::collection::vec(block, 5..8), proptest::collection::vec(op_strategy(max_len), 0..40))
        .prop_map(|(first, blocks, mut tail)| {
            let mut v = handshake_prelude();
            // the acceptor goes online with the prelude's chunk; make sure both can burst
            v.push(Op::Send { side: 1, vital: true, len: 9, fill: 2 });
            v.push(Op::Flush { side: 1 });
            v.push(Op::DeliverAll { dir: 1 });
            for (i, mut b) in blocks.into_iter().enumerate() {
                if i < 5 {
                    // keep the first five bursts on one side so that it certainly wraps
                    if let Op::Burst { side, .. } = &mut b[0] {
                        *side = first;
                    }
                }
                v.append(&mut b);
            }
            v.append(&mut tail);
            v
        })
        .boxed()
}

/// Ops that complete a handshake on a well-behaved network and bring both sides online
/// (the acceptor goes online with the first chunk packet it receives).
pub fn handshake_prelude() -> Vec<Op> {
    let mut v = vec![Op::Connect];
    for _ in 0..3 {
        v.push(Op::DeliverAll { dir: 0 });
        v.push(Op::DeliverAll { dir: 1 });
    }
    v.push(Op::Send { side: 0, vital: true, len: 12, fill: 1 });
    v.push(Op::Flush { side: 0 });
    v.push(Op::DeliverAll { dir: 0 });
    v
}

#[derive(Clone, Copy, Debug, PartialEq, Eq, Hash, Serialize, Deserialize)]
pub enum Variant {
    V6Token,
    V6NoToken,
    V7,
}

pub const VARIANTS: [Variant; 3] = [Variant::V6Token, Variant::V6NoToken, Variant::V7];

impl Variant {
    pub fn name(self) -> &'static str {
        match self {
            Variant::V6Token => "v6token",
            Variant::V6NoToken => "v6notoken",
            Variant::V7 => "v7",
        }
    }
}
