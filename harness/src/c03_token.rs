//! C03 - datagrams without the agreed token are inert.
//!
//! Generator: a history brings an endpoint E into a state with a fixed token; then one foreign
//! datagram D (every packet kind written with a wrong token, a real peer datagram re-written with a
//! wrong token, mutations of those, random bytes); then a suffix of ordinary ops.
//! Oracle: non-interference. Feeding D yields no event, no outgoing datagram and leaves the complete
//! state fingerprint unchanged; the run with D and the run without D are indistinguishable through
//! the suffix (events, datagrams, deadlines). Acceptor tokens are never a reserved value even when
//! secure_random is scripted adversarially.

use crate::netsim::*;
use crate::util::{hex, Warnings};
use crate::{pick, Ctx, Outcome, PResult};
use arrayvec::ArrayVec;
use proptest::prelude::*;
use serde::{Deserialize, Serialize};

#[derive(Clone, Debug, Hash, Serialize, Deserialize)]
pub enum TokenChoice {
    Random([u8; 4]),
    FlipBit(u8),
    AllOnes,
    AllZero,
    NoToken,
}

#[derive(Clone, Debug, Hash, Serialize, Deserialize)]
pub enum AckChoice {
    Abs(u16),
    /// the newest sequence number E has sent (would acknowledge everything)
    Newest,
    NewestMinus(u8),
}

#[derive(Clone, Debug, Hash, Serialize, Deserialize)]
pub enum SeqChoice {
    /// the sequence number E expects next
    Next,
    Abs(u16),
}

#[derive(Clone, Debug, Hash, Serialize, Deserialize)]
pub enum Kind {
    KeepAlive,
    Connect,
    /// 0.6 ConnectAccept / 0.7 Token response
    ConnectAcceptOrToken,
    Accept,
    Close(u8),
    Chunks {
        request_resend: bool,
        chunks: Vec<(Option<SeqChoice>, u8)>,
        compressible: bool,
    },
}

#[derive(Clone, Debug, Hash, Serialize, Deserialize)]
pub enum Mutation {
    Truncate(u16),
    Xor { pos: u16, xor: u8 },
    Extend(Vec<u8>),
    /// the other wire representation (payload compressed / decompressed), same content
    Recode,
}

#[derive(Clone, Debug, Hash, Serialize, Deserialize)]
pub enum Foreign {
    Written { kind: Kind, token: TokenChoice, ack: AckChoice, mutation: Option<Mutation> },
    Replayed { idx: u16, token: TokenChoice, mutation: Option<Mutation> },
    Random(Vec<u8>),
}

#[derive(Clone, Debug, Hash, Serialize, Deserialize)]
pub struct Case {
    pub prefix: Vec<Op>,
    pub target: u8,
    pub foreign: Vec<Foreign>,
    pub suffix: Vec<Op>,
    pub script: Vec<[u8; 4]>,
}

fn token_choice() -> BoxedStrategy<TokenChoice> {
    prop_oneof![
        3 => any::<[u8; 4]>().prop_map(TokenChoice::Random),
        3 => (0u8..32).prop_map(TokenChoice::FlipBit),
        1 => Just(TokenChoice::AllOnes),
        1 => Just(TokenChoice::AllZero),
        1 => Just(TokenChoice::NoToken),
    ]
    .boxed()
}

fn kind_strategy() -> BoxedStrategy<Kind> {
    let chunk = (proptest::option::weighted(0.7, prop_oneof![3 => Just(SeqChoice::Next), 1 => (0u16..1024).prop_map(SeqChoice::Abs)]), 0u8..40);
    prop_oneof![
        1 => Just(Kind::KeepAlive),
        1 => Just(Kind::Connect),
        1 => Just(Kind::ConnectAcceptOrToken),
        1 => Just(Kind::Accept),
        2 => (0u8..=127).prop_map(Kind::Close),
        6 => (any::<bool>(), proptest::collection::vec(chunk, 0..5), any::<bool>())
            .prop_map(|(request_resend, chunks, compressible)| Kind::Chunks { request_resend, chunks, compressible }),
    ]
    .boxed()
}

fn mutation_strategy() -> BoxedStrategy<Option<Mutation>> {
    proptest::option::weighted(
        0.3,
        prop_oneof![
            any::<u16>().prop_map(Mutation::Truncate),
            (any::<u16>(), 1u8..=255).prop_map(|(pos, xor)| Mutation::Xor { pos, xor }),
            proptest::collection::vec(any::<u8>(), 1..8).prop_map(Mutation::Extend),
            Just(Mutation::Recode),
        ],
    )
    .boxed()
}

fn foreign_strategy() -> BoxedStrategy<Foreign> {
    let ack = prop_oneof![
        2 => (0u16..1024).prop_map(AckChoice::Abs),
        3 => Just(AckChoice::Newest),
        2 => (0u8..20).prop_map(AckChoice::NewestMinus),
    ];
    prop_oneof![
        6 => (kind_strategy(), token_choice(), ack, mutation_strategy())
            .prop_map(|(kind, token, ack, mutation)| Foreign::Written { kind, token, ack, mutation }),
        3 => (any::<u16>(), token_choice(), mutation_strategy()).prop_map(|(idx, token, mutation)| Foreign::Replayed { idx, token, mutation }),
        1 => proptest::collection::vec(any::<u8>(), 0..60).prop_map(Foreign::Random),
    ]
    .boxed()
}

/// Prefixes that stop the handshake at every stage, or continue into an online history.
fn prefix_strategy(max_ops: usize) -> BoxedStrategy<Vec<Op>> {
    let partial = (0usize..8).prop_map(|n| {
        // Connect then n alternating single deliveries: reaches every half-connected state
        let mut v = vec![Op::Connect];
        for i in 0..n {
            v.push(Op::Deliver { dir: (i % 2) as u8, k: 0 });
        }
        v
    });
    prop_oneof![
        2 => partial,
        5 => history_strategy(1000, max_ops, false),
    ]
    .boxed()
}

fn case_strategy(max_ops: usize) -> impl Strategy<Value = Case> {
    (
        prefix_strategy(max_ops),
        0u8..2,
        proptest::collection::vec(foreign_strategy(), 1..4),
        proptest::collection::vec(op_strategy(1000), 0..20),
        proptest::collection::vec(prop_oneof![2 => Just([0xffu8; 4]), 2 => Just([0u8; 4]), 1 => any::<[u8; 4]>()], 0..5),
    )
        .prop_map(|(prefix, target, foreign, suffix, script)| Case { prefix, target, foreign, suffix, script })
}

fn parse_hex_after(fp: &str, key: &str) -> Option<[u8; 4]> {
    let i = fp.find(key)? + key.len();
    let h = fp.get(i..i + 8)?;
    let v = u32::from_str_radix(h, 16).ok()?;
    Some(v.to_be_bytes())
}

fn parse_num_after(fp: &str, key: &str) -> Option<u16> {
    let i = fp.find(key)? + key.len();
    let rest = &fp[i..];
    let end = rest.find(|c: char| !c.is_ascii_digit())?;
    rest[..end].parse().ok()
}

/// (agreed token, ack (next expected - 1), newest sequence sent)
fn endpoint_view<P: Proto>(conn: &P::Conn) -> (Option<[u8; 4]>, u16, u16) {
    let fp = P::fingerprint(conn);
    let token = if P::IS7 { parse_hex_after(&fp, "own_token: ") } else { parse_hex_after(&fp, "token: Some(") };
    let ack = parse_num_after(&fp, "ack: Sequence { seq: ").unwrap_or(0);
    let seq = parse_num_after(&fp, "sequence: Sequence { seq: ").unwrap_or(0);
    (token, ack, seq)
}

fn apply_token(choice: &TokenChoice, agreed: [u8; 4]) -> Option<[u8; 4]> {
    let t = match choice {
        TokenChoice::Random(t) => *t,
        TokenChoice::FlipBit(b) => {
            let mut t = agreed;
            t[(*b / 8) as usize % 4] ^= 1 << (b % 8);
            t
        }
        TokenChoice::AllOnes => [0xff; 4],
        TokenChoice::AllZero => [0; 4],
        TokenChoice::NoToken => return None,
    };
    if t == agreed {
        let mut t = t;
        t[0] ^= 0x80;
        return Some(t);
    }
    Some(t)
}

fn mutate(mut d: Vec<u8>, m: &Option<Mutation>, is7: bool) -> Vec<u8> {
    match m {
        None => {}
        Some(Mutation::Truncate(k)) => {
            let n = pick(*k, d.len() + 1);
            d.truncate(n);
        }
        Some(Mutation::Xor { pos, xor }) => {
            if !d.is_empty() {
                let p = pick(*pos, d.len());
                d[p] ^= xor;
            }
        }
        Some(Mutation::Extend(e)) => d.extend_from_slice(e),
        Some(Mutation::Recode) => {
            if let Some(alt) = crate::c06_reader_total::recode(&d, is7) {
                d = alt;
            }
        }
    }
    d
}

fn chunk_payload(chunks: &[(Option<SeqChoice>, u8)], next_seq: u16, compressible: bool, is7: bool) -> (u8, Vec<u8>) {
    let mut buf: ArrayVec<[u8; 2048]> = ArrayVec::new();
    let mut n = 0u8;
    for (i, (vital, len)) in chunks.iter().enumerate() {
        let data: Vec<u8> = (0..*len).map(|j| if compressible { 0 } else { (j.wrapping_mul(37) ^ (i as u8) ^ 0x5b) }).collect();
        let vital = vital.as_ref().map(|s| {
            (
                match s {
                    SeqChoice::Next => (next_seq + i as u16) % 1024,
                    SeqChoice::Abs(a) => *a % 1024,
                },
                false,
            )
        });
        let r = if is7 {
            libtw2_net::protocol7::write_chunk(&data, vital, &mut buf).map(|_| ())
        } else {
            libtw2_net::protocol::write_chunk(&data, vital, &mut buf).map(|_| ())
        };
        if r.is_ok() {
            n += 1;
        }
    }
    (n, buf.to_vec())
}

/// Build the foreign datagram for endpoint E. Returns None if nothing sensible can be built.
fn build_foreign<P: Proto>(f: &Foreign, agreed: [u8; 4], e_ack: u16, e_seq: u16, peer_history: &[Vec<u8>]) -> Option<Vec<u8>> {
    let mut out = [0u8; 2048];
    match f {
        Foreign::Random(b) => Some(b.clone()),
        Foreign::Written { kind, token, ack, mutation } => {
            let ack = match ack {
                AckChoice::Abs(a) => *a % 1024,
                AckChoice::Newest => e_seq,
                AckChoice::NewestMinus(d) => (e_seq + 1024 - *d as u16) % 1024,
            };
            let tok = apply_token(token, agreed);
            let next_seq = (e_ack + 1) % 1024;
            let reason: Vec<u8>;
            let payload: (u8, Vec<u8>);
            let d = if P::IS7 {
                use libtw2_net::protocol7::*;
                let tok = Token(tok.unwrap_or([0xff; 4]));
                let tok = if tok.0 == agreed { Token([agreed[0] ^ 1, agreed[1], agreed[2], agreed[3]]) } else { tok };
                let type_ = match kind {
                    Kind::KeepAlive => ConnectedPacketType::Control(ControlPacket::KeepAlive),
                    Kind::Connect => ConnectedPacketType::Control(ControlPacket::Connect(Token([1, 2, 3, 4]))),
                    Kind::ConnectAcceptOrToken => ConnectedPacketType::Control(ControlPacket::Token(Token([9, 8, 7, 6]))),
                    Kind::Accept => ConnectedPacketType::Control(ControlPacket::Accept),
                    Kind::Close(n) => {
                        reason = (0..*n).map(|i| b'A' + i % 26).collect();
                        ConnectedPacketType::Control(ControlPacket::Close(&reason))
                    }
                    Kind::Chunks { request_resend, chunks, compressible } => {
                        payload = chunk_payload(chunks, next_seq, *compressible, true);
                        ConnectedPacketType::Chunks(*request_resend, payload.0, &payload.1)
                    }
                };
                Packet::Connected(ConnectedPacket { ack, token: tok, type_ }).write(&mut out[..]).ok()?.to_vec()
            } else {
                use libtw2_net::protocol::*;
                let tok = tok.map(Token);
                let type_ = match kind {
                    Kind::KeepAlive => ConnectedPacketType::Control(ControlPacket::KeepAlive),
                    Kind::Connect => ConnectedPacketType::Control(ControlPacket::Connect),
                    Kind::ConnectAcceptOrToken => ConnectedPacketType::Control(ControlPacket::ConnectAccept),
                    Kind::Accept => ConnectedPacketType::Control(ControlPacket::Accept),
                    Kind::Close(n) => {
                        reason = (0..*n).map(|i| b'A' + i % 26).collect();
                        ConnectedPacketType::Control(ControlPacket::Close(&reason))
                    }
                    Kind::Chunks { request_resend, chunks, compressible } => {
                        payload = chunk_payload(chunks, next_seq, *compressible, false);
                        ConnectedPacketType::Chunks(*request_resend, payload.0, &payload.1)
                    }
                };
                Packet::Connected(ConnectedPacket { ack, token: tok, type_ }).write(&mut out[..]).ok()?.to_vec()
            };
            Some(mutate(d, mutation, P::IS7))
        }
        Foreign::Replayed { idx, token, mutation } => {
            if peer_history.is_empty() {
                return None;
            }
            let orig = &peer_history[pick(*idx, peer_history.len())];
            let tok = apply_token(token, agreed);
            let mut scratch = [0u8; 2048];
            let mut w = Warnings::new();
            let d = if P::IS7 {
                use libtw2_net::protocol7::*;
                match Packet::read(&mut w, orig, &mut scratch[..]).ok()? {
                    Packet::Connected(mut c) => {
                        let t = tok.unwrap_or([0xff; 4]);
                        c.token = Token(if t == agreed { [t[0] ^ 1, t[1], t[2], t[3]] } else { t });
                        if let ConnectedPacketType::Control(ControlPacket::Token(_)) = c.type_ {
                            // writer pads token requests; keep as is
                        }
                        Packet::Connected(c).write(&mut out[..]).ok()?.to_vec()
                    }
                    Packet::Connless(_) => return None,
                }
            } else {
                use libtw2_net::protocol::*;
                match Packet::read(&mut w, orig, Some(true), &mut scratch[..]).ok()? {
                    Packet::Connected(mut c) => {
                        c.token = tok.map(Token);
                        Packet::Connected(c).write(&mut out[..]).ok()?.to_vec()
                    }
                    Packet::Connless(_) => return None,
                }
            };
            Some(mutate(d, mutation, P::IS7))
        }
    }
}

#[derive(PartialEq)]
enum Class {
    /// carries exactly the agreed token: not foreign
    NotForeign,
    Connless,
    /// well-formed connection-oriented packet with another token (or none)
    WellFormed(&'static str),
    /// the documented exception: 0.7 token request with the all-ones token
    TokenRequest,
    Garbage,
}

fn classify_foreign<P: Proto>(d: &[u8], agreed: [u8; 4]) -> Class {
    let mut scratch = [0u8; 2048];
    let mut w = Warnings::new();
    if P::IS7 {
        use libtw2_net::protocol7::*;
        match Packet::read(&mut w, d, &mut scratch[..]) {
            Ok(Packet::Connless(_)) => Class::Connless,
            Ok(Packet::Connected(c)) => {
                if c.token.0 == agreed {
                    return Class::NotForeign;
                }
                match c.type_ {
                    ConnectedPacketType::Control(ControlPacket::Token(_)) if c.token == TOKEN_NONE => Class::TokenRequest,
                    ConnectedPacketType::Control(ControlPacket::KeepAlive) => Class::WellFormed("keepalive"),
                    ConnectedPacketType::Control(ControlPacket::Connect(_)) => Class::WellFormed("connect"),
                    ConnectedPacketType::Control(ControlPacket::Accept) => Class::WellFormed("accept"),
                    ConnectedPacketType::Control(ControlPacket::Close(_)) => Class::WellFormed("close"),
                    ConnectedPacketType::Control(ControlPacket::Token(_)) => Class::WellFormed("token"),
                    ConnectedPacketType::Chunks(..) => Class::WellFormed("chunks"),
                }
            }
            Err(_) => Class::Garbage,
        }
    } else {
        use libtw2_net::protocol::*;
        // told the connection's token mode (a token is expected)
        match Packet::read(&mut w, d, Some(true), &mut scratch[..]) {
            Ok(Packet::Connless(_)) => Class::Connless,
            Ok(Packet::Connected(c)) => {
                if c.token.map(|t| t.0) == Some(agreed) {
                    return Class::NotForeign;
                }
                match c.type_ {
                    ConnectedPacketType::Control(ControlPacket::KeepAlive) => Class::WellFormed("keepalive"),
                    ConnectedPacketType::Control(ControlPacket::Connect) => Class::WellFormed("connect"),
                    ConnectedPacketType::Control(ControlPacket::ConnectAccept) => Class::WellFormed("connectaccept"),
                    ConnectedPacketType::Control(ControlPacket::Accept) => Class::WellFormed("accept"),
                    ConnectedPacketType::Control(ControlPacket::Close(_)) => Class::WellFormed("close"),
                    ConnectedPacketType::Chunks(..) => Class::WellFormed("chunks"),
                }
            }
            Err(_) => Class::Garbage,
        }
    }
}

fn run_case<P: Proto>(c: &Case) -> PResult {
    let mut sim: Sim<P> = Sim::new(0xC03, false);
    sim.max_len = 1000;
    sim.log_sent = true;
    sim.cb[1].script = c.script.clone();
    sim.cb[0].script = c.script.iter().rev().cloned().collect();
    let mut history: [Vec<Vec<u8>>; 2] = [Vec::new(), Vec::new()];
    let mut out = Outcome::default();
    for op in &c.prefix {
        if sim.step(op).is_err() {
            return Ok(out.class("aborted_by_other_oracle"));
        }
        for dg in std::mem::take(&mut sim.sent_log) {
            history[dg.side].push(dg.data);
        }
    }
    // reserved tokens: whatever the acceptor fixed as its token must not be a reserved value
    {
        let (tok, _, _) = endpoint_view::<P>(&sim.ends[1]);
        if let Some(t) = tok {
            let reserved = t == [0xff; 4] || (!P::IS7 && t == [0; 4]);
            if reserved {
                return Err(format!("{}: the accepting side handed out the reserved token {} (secure_random script {:?})", P::NAME, hex(&t), c.script));
            }
            out = out.class("acceptor_token_checked");
            if c.script.iter().any(|s| *s == [0xff; 4] || *s == [0; 4]) && sim.cb[1].random_calls > 1 {
                out = out.class("reserved_value_offered_by_rng");
            }
        }
    }
    let e = c.target as usize & 1;
    let (agreed, e_ack, e_seq) = endpoint_view::<P>(&sim.ends[e]);
    let Some(agreed) = agreed else {
        return Ok(out.class("target_has_no_token_yet"));
    };
    let (state, unacked, queued, _) = P::summary(&sim.ends[e]);
    let mut twin = sim.snapshot();
    let mut any_wellformed = false;
    let mut fed = 0;
    for f in &c.foreign {
        let Some(d) = build_foreign::<P>(f, agreed, e_ack, e_seq, &history[1 - e]) else {
            out = out.class("foreign_not_buildable");
            continue;
        };
        let class = classify_foreign::<P>(&d, agreed);
        match class {
            Class::NotForeign => {
                out = out.class("skipped_not_foreign");
                continue;
            }
            Class::Connless => {
                out = out.class("skipped_connless");
                continue;
            }
            _ => {}
        }
        let before = P::fingerprint(&twin.ends[e]);
        let sent_before = twin.stats.datagrams;
        let ev_before = twin.events[e].len();
        let net_before = twin.net[e].len();
        if let Err(f) = twin.feed(e, &d) {
            if f.oracle == "panic" || f.oracle == "termination" {
                return Ok(out.class("aborted_by_other_oracle"));
            }
            // model failures (e.g. an unsent chunk delivered) are exactly what C03 forbids
            return Err(format!("{}: foreign datagram [{}] fed to side {} in state {}: [{}] {}", P::NAME, hex(&d), e, state, f.oracle, f.msg));
        }
        fed += 1;
        let after = P::fingerprint(&twin.ends[e]);
        let exception = class == Class::TokenRequest && state == "PendingConnect";
        if exception {
            out = out.class("documented_exception_token_request");
            if parse_hex_after(&after, "own_token: ") != Some(agreed) {
                return Err(format!("0.7: unauthenticated token request changed the acceptor's own token in PendingConnect ({} -> {})", before, after));
            }
            // the reply goes to the requester; drop it so that the twin comparison continues
            twin.net[e].truncate(net_before);
            twin.serial = sim.serial;
            twin.sent_log.clear();
            twin.stats.datagrams = sent_before;
            continue;
        }
        if twin.events[e].len() != ev_before {
            return Err(format!(
                "{}: datagram [{}] without the agreed token {} produced application events {:?} on side {} (state {})",
                P::NAME, hex(&d), hex(&agreed), &twin.events[e][ev_before..], e, state
            ));
        }
        if twin.stats.datagrams != sent_before {
            return Err(format!(
                "{}: datagram [{}] without the agreed token {} triggered {} outgoing datagram(s) on side {} (state {})",
                P::NAME, hex(&d), hex(&agreed), twin.stats.datagrams - sent_before, e, state
            ));
        }
        if before != after {
            return Err(format!(
                "{}: datagram [{}] without the agreed token {} changed the state of side {}:\n before: {}\n after:  {}",
                P::NAME, hex(&d), hex(&agreed), e, trunc(&before), trunc(&after)
            ));
        }
        if let Class::WellFormed(k) = class {
            any_wellformed = true;
            out = out.class(match k {
                "keepalive" => "wellformed_keepalive",
                "connect" => "wellformed_connect",
                "connectaccept" => "wellformed_connectaccept",
                "accept" => "wellformed_accept",
                "close" => "wellformed_close",
                "token" => "wellformed_token",
                _ => "wellformed_chunks",
            });
        } else {
            out = out.class("garbage_or_mutated");
        }
    }
    twin.sent_log.clear();
    sim.sent_log.clear();
    // twin run through the suffix: identical observable behaviour
    if fed > 0 {
        for (i, op) in c.suffix.iter().enumerate() {
            let ea = sim.events.iter().map(|v| v.len()).collect::<Vec<_>>();
            let eb = twin.events.iter().map(|v| v.len()).collect::<Vec<_>>();
            let ra = sim.step(op);
            let rb = twin.step(op);
            if ra.is_err() || rb.is_err() {
                if ra.is_err() != rb.is_err() {
                    return Err(format!("{}: suffix op #{} {:?} fails only in one of the twin runs", P::NAME, i, op));
                }
                out = out.class("aborted_by_other_oracle");
                break;
            }
            let sa: Vec<_> = std::mem::take(&mut sim.sent_log).into_iter().map(|d| (d.side, d.data)).collect();
            let sb: Vec<_> = std::mem::take(&mut twin.sent_log).into_iter().map(|d| (d.side, d.data)).collect();
            if sa != sb {
                return Err(format!("{}: after the foreign datagram(s) the endpoint behaves differently: suffix op #{} {:?} sends {:?} vs {:?} without them", P::NAME, i, op, sb.iter().map(|(s, d)| (s, hex(d))).collect::<Vec<_>>(), sa.iter().map(|(s, d)| (s, hex(d))).collect::<Vec<_>>()));
            }
            for s in 0..2 {
                if sim.events[s][ea[s]..] != twin.events[s][eb[s]..] {
                    return Err(format!("{}: after the foreign datagram(s) suffix op #{} {:?} yields different events on side {}", P::NAME, i, op, s));
                }
                if P::needs_tick(&sim.ends[s]) != P::needs_tick(&twin.ends[s]) {
                    return Err(format!("{}: after the foreign datagram(s) suffix op #{} {:?}: different deadline on side {}", P::NAME, i, op, s));
                }
            }
        }
        for s in 0..2 {
            if P::fingerprint(&sim.ends[s]) != P::fingerprint(&twin.ends[s]) {
                return Err(format!("{}: twin runs end in different states on side {}", P::NAME, s));
            }
        }
    }
    out.nontrivial = any_wellformed && (unacked > 0 || queued > 0);
    Ok(out
        .class(match state {
            "Online" => "state_online",
            "Pending" => "state_pending",
            "PendingConnect" => "state_pendingconnect",
            "Connecting" => "state_connecting",
            "Token" => "state_token",
            _ => "state_other",
        })
        .class_if(e == 0, "target_connector")
        .class_if(e == 1, "target_acceptor")
        .class_if(unacked > 0, "target_had_unacked")
        .class_if(queued > 0, "target_had_queued"))
}

fn trunc(s: &str) -> String {
    if s.len() > 600 {
        format!("{}...", &s[..600])
    } else {
        s.to_string()
    }
}

pub fn run(ctx: &Ctx) {
    ctx.set_rule(
        "case = (prefix history incl. handshakes stopped at every stage, target side, 1..3 foreign datagrams, suffix ops, secure_random script); \
         foreign datagram = every packet kind written by the library writer with a wrong token (random / one-bit flip of the agreed one / all-ones / \
         all-zero / none), or a datagram the peer really sent re-written with a wrong token, optionally truncated / byte-flipped / extended, or random \
         bytes; datagrams that decode (library reader) to the agreed token or to a connectionless packet are skipped and counted; non-trivial = a \
         foreign datagram that parses as a well-formed connection-oriented packet was fed while the target had unacknowledged or queued chunks; \
         distinct by hash of the case",
    );
    ctx.assume("complete endpoint state = Debug rendering of the connection state + send timer (verif_fingerprint hook); twin runs share clock and randomness");
    ctx.assume("0.6 without token has no agreed token: not in scope of the statement; 0.7 connectionless packets with a wrong token are not asserted");
    let max_ops = ctx.sz(80, 300) as usize;
    ctx.prop("foreign/v6token", ctx.n(6000, 800_000), || case_strategy(max_ops), |c: &Case| run_case::<P6>(c));
    ctx.prop("foreign/v7", ctx.n(6000, 800_000), || case_strategy(max_ops), |c: &Case| run_case::<P7>(c));
}
