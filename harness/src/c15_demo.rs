//! C15 - a recorded demo plays back what was recorded.
//!
//! Raw level: generated header + chunk sequences are written with `libtw2_demo::Writer` into an
//! in-memory buffer and read back with `libtw2_demo::Reader`; the oracle is the input itself
//! (messages zero-padded to a multiple of four), the header fields and an empty warning sink.
//! Typed level: a world of ddnet snap objects evolves over ticks, is written with
//! `ddnet::DemoWriter` (key frames + deltas) and read back with `ddnet::DemoReader`; the oracle is
//! the per-tick object set of the model world. Non-increasing ticks must be refused with
//! `TooLowTickNumber` and the recording must still read back completely.

use crate::util::{hex, Warnings};
use crate::{ensure, ensure_eq, guard_s, pick, Ctx, Outcome, PResult};
use arrayvec::ArrayVec;
use libtw2_common::digest::Sha256;
use libtw2_demo::ddnet::{Chunk, DemoReader, DemoWriter};
use libtw2_demo::{DemoKind, RawChunk, Reader, Writer};
use libtw2_gamenet_ddnet::msg::game as gmsg;
use libtw2_gamenet_ddnet::msg::Game;
use libtw2_gamenet_ddnet::snap_obj::{self, SnapObj, TypeId};
use libtw2_gamenet_ddnet::Protocol;
use libtw2_huffman::instances::TEEWORLDS as HUFFMAN;
use libtw2_packer::{with_packer, IntUnpacker, Unpacker};
use proptest::prelude::*;
use serde::{Deserialize, Serialize};
use serde_json::json;
use std::cell::RefCell;
use std::collections::BTreeMap;
use std::io::{self, Cursor, Seek, SeekFrom, Write};
use std::rc::Rc;
use std::sync::atomic::{AtomicU64, Ordering};
use std::sync::OnceLock;

/// Largest payload the format can carry uncompressed (demo/src/format.rs MAX_SNAPSHOT_SIZE).
const MAXP: usize = 65536;
/// Largest compressed size the 16-bit size field can carry.
const MAXC: usize = 65535;

const KEY_EQUAL_TICK: &str = "equal-tick-panics";
const KEY_DUP_LEAK: &str = "failed-snap-leaks-items";
const KEY_UUID_IDS: &str = "uuid-type-id-reuse-panics";

// ---------------------------------------------------------------------------
// In-memory file shared between the harness and the writer

#[derive(Clone)]
struct Shared(Rc<RefCell<Cursor<Vec<u8>>>>);

impl Shared {
    fn new() -> Shared {
        Shared(Rc::new(RefCell::new(Cursor::new(Vec::new()))))
    }
    fn len(&self) -> usize {
        self.0.borrow().get_ref().len()
    }
    fn bytes(&self) -> Vec<u8> {
        self.0.borrow().get_ref().clone()
    }
}

impl Write for Shared {
    fn write(&mut self, buf: &[u8]) -> io::Result<usize> {
        self.0.borrow_mut().write(buf)
    }
    fn flush(&mut self) -> io::Result<()> {
        Ok(())
    }
}

impl Seek for Shared {
    fn seek(&mut self, pos: SeekFrom) -> io::Result<u64> {
        self.0.borrow_mut().seek(pos)
    }
}

// ---------------------------------------------------------------------------
// Independent helpers (doc/int.md, doc/demo.md)

fn varint(v: i32, out: &mut Vec<u8>) {
    let sign = v < 0;
    let mut bits: u32 = if sign { !(v as u32) } else { v as u32 };
    let mut b = (bits & 0x3f) as u8 | if sign { 0x40 } else { 0 };
    bits >>= 6;
    while bits != 0 {
        out.push(b | 0x80);
        b = (bits & 0x7f) as u8;
        bits >>= 7;
    }
    out.push(b);
}

/// What a message turns into before Huffman compression: 4-byte little-endian groups (the last
/// one zero-padded) as variable-length integers.
fn pack_message(msg: &[u8]) -> Vec<u8> {
    let mut out = Vec::with_capacity(msg.len() + msg.len() / 4 + 4);
    for g in msg.chunks(4) {
        let mut w = [0u8; 4];
        w[..g.len()].copy_from_slice(g);
        varint(i32::from_le_bytes(w), &mut out);
    }
    out
}

fn pad4(msg: &[u8]) -> Vec<u8> {
    let mut v = msg.to_vec();
    while v.len() % 4 != 0 {
        v.push(0);
    }
    v
}

/// Predicted size of the chunk data on disk (generator aim + classification only).
fn predicted_clen(data: &[u8], is_msg: bool) -> usize {
    if is_msg {
        let p = pack_message(data);
        if p.len() > MAXP {
            return usize::MAX;
        }
        HUFFMAN.compressed_len(&p)
    } else {
        HUFFMAN.compressed_len(data)
    }
}

fn fits(data: &[u8], is_msg: bool) -> bool {
    data.len() <= MAXP && predicted_clen(data, is_msg) <= MAXC
}

// ---------------------------------------------------------------------------
// Case types

#[derive(Clone, Debug, Hash, Serialize, Deserialize)]
pub struct HeaderSpec {
    pub net_version: Vec<u8>,
    pub map_name: Vec<u8>,
    pub timestamp: Vec<u8>,
    pub sha256: Option<[u8; 32]>,
    pub crc: u32,
    pub server: bool,
    pub length: i32,
    pub map_len: u16,
    pub map_seed: u32,
}

#[derive(Clone, Copy, Debug, Hash, Serialize, Deserialize, PartialEq)]
pub enum Fit {
    /// take `len` bytes of the stream
    None,
    /// grow the payload until its compressed size is exactly this
    Compressed(u16),
    /// as long as the format can carry
    Max,
}

#[derive(Clone, Debug, Hash, Serialize, Deserialize)]
pub struct PayloadSpec {
    pub head: Vec<u8>,
    pub fill: u8,
    pub seed: u32,
    pub len: u32,
    pub fit: Fit,
}

#[derive(Clone, Debug, Hash, Serialize, Deserialize)]
pub enum RChunk {
    Tick { gap: u32, keyframe: bool },
    Snapshot(PayloadSpec),
    Delta(PayloadSpec),
    Message(PayloadSpec),
}

#[derive(Clone, Debug, Hash, Serialize, Deserialize)]
pub struct RawCase {
    pub header: HeaderSpec,
    pub start_tick: i32,
    pub chunks: Vec<RChunk>,
    pub via_chunk_api: bool,
}

// ---------------------------------------------------------------------------
// Payload expansion

struct Stream<'a> {
    head: &'a [u8],
    fill: u8,
    state: u32,
    pos: usize,
}

const ALPHA: &[u8] = b"etaoin shrdlu\x00\x01\x02ETA0123";

impl<'a> Stream<'a> {
    fn new(spec: &'a PayloadSpec) -> Stream<'a> {
        Stream {
            head: &spec.head,
            fill: spec.fill % 6,
            state: if spec.seed == 0 { 0x9E37_79B9 } else { spec.seed },
            pos: 0,
        }
    }
    fn rnd(&mut self) -> u32 {
        let mut x = self.state;
        x ^= x << 13;
        x ^= x >> 17;
        x ^= x << 5;
        self.state = x;
        x
    }
    fn next(&mut self) -> u8 {
        let p = self.pos;
        self.pos += 1;
        if p < self.head.len() {
            return self.head[p];
        }
        match self.fill {
            0 => 0,
            1 => 0xff,
            2 => (self.rnd() >> 11) as u8,
            3 => {
                let r = self.rnd() >> 9;
                ALPHA[r as usize % ALPHA.len()]
            }
            4 => {
                if self.head.is_empty() {
                    0
                } else {
                    self.head[p % self.head.len()]
                }
            }
            _ => {
                if p % 4 == 0 {
                    (self.rnd() >> 13) as u8 & 0x3f
                } else {
                    0
                }
            }
        }
    }
    fn take(&mut self, n: usize) -> Vec<u8> {
        (0..n).map(|_| self.next()).collect()
    }
}

/// Returns the payload and whether it had to be cut to stay inside what the writer accepts.
fn expand(spec: &PayloadSpec, is_msg: bool) -> (Vec<u8>, bool) {
    let clen = |b: &[u8]| predicted_clen(b, is_msg);
    let mut s = Stream::new(spec);
    match spec.fit {
        Fit::None => {
            let n = (spec.len as usize).min(MAXP);
            let mut v = s.take(n);
            let mut trimmed = false;
            while !fits(&v, is_msg) {
                let n = v.len() * 7 / 8;
                v.truncate(n);
                trimmed = true;
            }
            (v, trimmed)
        }
        Fit::Compressed(t) => {
            const NMAX: usize = 16384;
            let t = (t as usize).clamp(1, 1500);
            let full = s.take(NMAX);
            // smallest prefix whose compressed size reaches t (exact for snapshots, a good
            // starting point for messages whose size is not monotone in the prefix)
            let (mut lo, mut hi) = (0usize, NMAX);
            while lo < hi {
                let mid = (lo + hi) / 2;
                if clen(&full[..mid]) >= t {
                    hi = mid;
                } else {
                    lo = mid + 1;
                }
            }
            let start = lo.saturating_sub(8) & !3;
            let mut v = full[..start].to_vec();
            let mut i = start;
            let mut steps = 0;
            while clen(&v) < t && steps < 256 {
                let b = if i < NMAX { full[i] } else { 0 };
                i += 1;
                steps += 1;
                v.push(b);
                if clen(&v) > t {
                    *v.last_mut().unwrap() = 0;
                    if clen(&v) > t {
                        v.pop();
                        break;
                    }
                }
            }
            if is_msg {
                // vary the length modulo four without changing the size on disk
                let want = spec.len as usize % 4;
                let c = clen(&v);
                let mut extra = 0;
                while v.len() % 4 != want && extra < 4 {
                    v.push(0);
                    extra += 1;
                    if clen(&v) != c {
                        v.pop();
                        break;
                    }
                }
            }
            let ok = fits(&v, is_msg);
            if !ok {
                v.clear();
            }
            (v, !ok)
        }
        Fit::Max => {
            let full = s.take(MAXP);
            let (mut lo, mut hi) = (0usize, MAXP);
            while lo < hi {
                let mid = (lo + hi + 1) / 2;
                if fits(&full[..mid], is_msg) {
                    lo = mid;
                } else {
                    hi = mid - 1;
                }
            }
            let mut v = full[..lo].to_vec();
            let mut extra = 0;
            while v.len() < MAXP && extra < 32 && clen(&v) < MAXC {
                v.push(0);
                extra += 1;
                if !fits(&v, is_msg) {
                    v.pop();
                    break;
                }
            }
            (v, false)
        }
    }
}

fn map_bytes(len: u16, seed: u32) -> Vec<u8> {
    let spec = PayloadSpec {
        head: Vec::new(),
        fill: 2,
        seed,
        len: len as u32,
        fit: Fit::None,
    };
    Stream::new(&spec).take(len as usize)
}

// ---------------------------------------------------------------------------
// Raw level: write, read back, compare

#[derive(Clone, PartialEq)]
enum RawOp {
    Tick(i32, bool),
    Snapshot(Vec<u8>),
    Delta(Vec<u8>),
    Message(Vec<u8>),
    Unknown,
}

impl std::fmt::Debug for RawOp {
    fn fmt(&self, f: &mut std::fmt::Formatter) -> std::fmt::Result {
        fn short(b: &[u8]) -> String {
            if b.len() <= 40 {
                hex(b)
            } else {
                format!("{}..{}", hex(&b[..24]), hex(&b[b.len() - 8..]))
            }
        }
        match self {
            RawOp::Tick(t, k) => write!(f, "Tick({}, keyframe={})", t, k),
            RawOp::Snapshot(b) => write!(f, "Snapshot(len {}, {})", b.len(), short(b)),
            RawOp::Delta(b) => write!(f, "SnapshotDelta(len {}, {})", b.len(), short(b)),
            RawOp::Message(b) => write!(f, "Message(len {}, {})", b.len(), short(b)),
            RawOp::Unknown => write!(f, "Unknown"),
        }
    }
}

struct NormHeader {
    net_version: Vec<u8>,
    map_name: Vec<u8>,
    timestamp: Vec<u8>,
    sha256: Option<[u8; 32]>,
    crc: u32,
    server: bool,
    length: i32,
    map: Vec<u8>,
}

fn norm_str(v: &[u8], cap: usize) -> Vec<u8> {
    v.iter().take(cap - 1).map(|&b| if b == 0 { 1 } else { b }).collect()
}

fn norm_header(h: &HeaderSpec) -> NormHeader {
    NormHeader {
        net_version: norm_str(&h.net_version, 64),
        map_name: norm_str(&h.map_name, 64),
        timestamp: norm_str(&h.timestamp, 20),
        sha256: h.sha256,
        crc: h.crc,
        server: h.server,
        length: h.length.max(0),
        map: map_bytes(h.map_len.min(8192), h.map_seed),
    }
}

fn kind(server: bool) -> DemoKind {
    if server {
        DemoKind::Server
    } else {
        DemoKind::Client
    }
}

macro_rules! check_header {
    ($r:expr, $h:expr) => {{
        let (r, h) = (&$r, &$h);
        ensure_eq!(hex(r.net_version()), hex(&h.net_version), "header net_version");
        ensure_eq!(hex(r.map_name()), hex(&h.map_name), "header map_name");
        ensure_eq!(hex(r.timestamp()), hex(&h.timestamp), "header timestamp");
        ensure_eq!(r.map_size() as usize, h.map.len(), "header map_size");
        ensure!(r.map_data() == &h.map[..], "header map data differs ({} bytes written)", h.map.len());
        ensure_eq!(r.map_crc(), h.crc, "header map_crc");
        ensure_eq!(r.length(), h.length, "header length");
        ensure!(
            matches!((r.kind(), h.server), (DemoKind::Server, true) | (DemoKind::Client, false)),
            "header kind: read {:?}, wrote server={}",
            r.kind(),
            h.server
        );
        ensure_eq!(r.map_sha256().map(|s| hex(&s.0)), h.sha256.map(|s| hex(&s)), "header map_sha256");
        ensure!(r.timeline_markers().is_empty(), "header timeline markers {:?} although none were written", r.timeline_markers());
    }};
}

/// Writes the demo; returns the file and the number of bytes each op appended.
fn write_raw(h: &NormHeader, ops: &[RawOp], via_chunk_api: bool) -> Result<(Vec<u8>, Vec<usize>), String> {
    let shared = Shared::new();
    let file = shared.clone();
    let mut w = guard_s("Writer::new", || {
        Writer::new(
            file,
            &h.net_version,
            &h.map_name,
            h.sha256.map(Sha256),
            h.crc,
            kind(h.server),
            h.length,
            &h.timestamp,
            &h.map,
        )
    })?
    .map_err(|e| format!("Writer::new failed: {:?}", e))?;
    let mut sizes = Vec::with_capacity(ops.len());
    let mut scratch: Box<ArrayVec<[u8; MAXP]>> = Box::new(ArrayVec::new());
    for (i, op) in ops.iter().enumerate() {
        let before = shared.len();
        let what = format!("writing chunk #{} {:?}", i, op);
        let r = guard_s(&what, || match op {
            RawOp::Tick(t, k) => {
                if via_chunk_api {
                    w.write_chunk(RawChunk::Tick { tick: *t, keyframe: *k })
                } else {
                    w.write_tick(*k, *t)
                }
            }
            RawOp::Snapshot(d) => {
                if via_chunk_api {
                    scratch.clear();
                    scratch.try_extend_from_slice(d).expect("payload <= 64 KiB");
                    w.write_chunk(RawChunk::Snapshot(&scratch))
                } else {
                    w.write_snapshot(d)
                }
            }
            RawOp::Delta(d) => {
                if via_chunk_api {
                    scratch.clear();
                    scratch.try_extend_from_slice(d).expect("payload <= 64 KiB");
                    w.write_chunk(RawChunk::SnapshotDelta(&scratch))
                } else {
                    w.write_snapshot_delta(d)
                }
            }
            RawOp::Message(d) => {
                if via_chunk_api {
                    w.write_chunk(RawChunk::Message(d))
                } else {
                    w.write_message(d)
                }
            }
            RawOp::Unknown => unreachable!(),
        })?;
        if let Err(e) = r {
            return Err(format!("{}: writer returned {:?}", what, e));
        }
        sizes.push(shared.len() - before);
    }
    drop(w);
    Ok((shared.bytes(), sizes))
}

fn owned(c: RawChunk) -> RawOp {
    match c {
        RawChunk::Tick { tick, keyframe } => RawOp::Tick(tick, keyframe),
        RawChunk::Snapshot(d) => RawOp::Snapshot(d.to_vec()),
        RawChunk::SnapshotDelta(d) => RawOp::Delta(d.to_vec()),
        RawChunk::Message(d) => RawOp::Message(d.to_vec()),
        RawChunk::Unknown => RawOp::Unknown,
    }
}

/// Reads the file back and demands header, chunk sequence and silence.
fn verify_raw(file: &[u8], h: &NormHeader, ops: &[RawOp]) -> Result<(), String> {
    verify_raw_on(Cursor::new(file.to_vec()), h, ops)?;
    // the reader accepts any `Read + Seek`: the same bytes through a store that returns short reads
    verify_raw_on(Dribble::new(file), h, ops).map_err(|e| format!("{} [backing store returning short reads]", e))
}

/// A `Read + Seek` store that hands out at most a few bytes per `read` call (allowed by `io::Read`).
pub struct Dribble {
    inner: Cursor<Vec<u8>>,
    max: usize,
    calls: usize,
}

impl Dribble {
    pub fn new(file: &[u8]) -> Dribble {
        Dribble { inner: Cursor::new(file.to_vec()), max: 1 + file.len() % 13, calls: 0 }
    }
}

impl std::io::Read for Dribble {
    fn read(&mut self, buf: &mut [u8]) -> std::io::Result<usize> {
        self.calls += 1;
        // vary the piece size deterministically: max, 1, max-1, ...
        let lim = match self.calls % 3 {
            0 => self.max,
            1 => 1,
            _ => self.max.saturating_sub(1).max(1),
        };
        let n = buf.len().min(lim);
        std::io::Read::read(&mut self.inner, &mut buf[..n])
    }
}

impl std::io::Seek for Dribble {
    fn seek(&mut self, pos: std::io::SeekFrom) -> std::io::Result<u64> {
        std::io::Seek::seek(&mut self.inner, pos)
    }
}

fn verify_raw_on<T: std::io::Read + std::io::Seek>(store: T, h: &NormHeader, ops: &[RawOp]) -> Result<(), String> {
    let mut warn = Warnings::new();
    let mut r = guard_s("Reader::new", || Reader::new(store, &mut warn))?
        .map_err(|e| format!("Reader::new failed on the written demo: {:?}", e))?;
    ensure!(warn.is_empty(), "warnings while reading the header: {:?}", warn.0);
    check_header!(r, h);
    for (i, op) in ops.iter().enumerate() {
        let expect = match op {
            RawOp::Message(m) => RawOp::Message(pad4(m)),
            o => o.clone(),
        };
        let got = guard_s(&format!("read_chunk #{}", i), || r.read_chunk(&mut warn).map(|c| c.map(owned)))?;
        match got {
            Err(e) => return Err(format!("chunk #{}: reader failed with {:?}, written {:?}", i, e, op)),
            Ok(None) => return Err(format!("chunk #{}: reader reports end of demo, written {:?} ({} chunks in total)", i, op, ops.len())),
            Ok(Some(g)) => {
                ensure!(g == expect, "chunk #{}: read {:?}, expected {:?}", i, g, expect);
            }
        }
        ensure!(warn.is_empty(), "chunk #{} ({:?}): warnings {:?}", i, op, warn.0);
    }
    let end = guard_s("read_chunk at the end", || r.read_chunk(&mut warn).map(|c| c.map(owned)))?;
    match end {
        Ok(None) => {}
        Ok(Some(g)) => return Err(format!("reader returned an extra chunk {:?} after the {} written ones", g, ops.len())),
        Err(e) => return Err(format!("reader failed with {:?} at the end of the demo", e)),
    }
    ensure!(warn.is_empty(), "warnings at the end of the demo: {:?}", warn.0);
    Ok(())
}

#[derive(Default)]
struct RawStats {
    sizes: Vec<usize>,
    trimmed: u32,
    ticks_skipped: u32,
}

fn build_raw_ops(c: &RawCase, stats: &mut RawStats) -> Vec<RawOp> {
    let mut ops = Vec::new();
    let mut prev: Option<i32> = None;
    for ch in &c.chunks {
        match ch {
            RChunk::Tick { gap, keyframe } => {
                let t = match prev {
                    None => Some(c.start_tick),
                    Some(p) => {
                        let n = p as i64 + (*gap).max(1) as i64;
                        if n <= i32::MAX as i64 {
                            Some(n as i32)
                        } else {
                            None
                        }
                    }
                };
                match t {
                    Some(t) => {
                        prev = Some(t);
                        ops.push(RawOp::Tick(t, *keyframe));
                    }
                    None => stats.ticks_skipped += 1,
                }
            }
            RChunk::Snapshot(p) => {
                let (d, tr) = expand(p, false);
                stats.trimmed += tr as u32;
                ops.push(RawOp::Snapshot(d));
            }
            RChunk::Delta(p) => {
                let (d, tr) = expand(p, false);
                stats.trimmed += tr as u32;
                ops.push(RawOp::Delta(d));
            }
            RChunk::Message(p) => {
                let (d, tr) = expand(p, true);
                stats.trimmed += tr as u32;
                ops.push(RawOp::Message(d));
            }
        }
    }
    ops
}

fn check_raw(c: &RawCase) -> PResult {
    let h = norm_header(&c.header);
    let mut stats = RawStats::default();
    let ops = build_raw_ops(c, &mut stats);
    let (file, sizes) = write_raw(&h, &ops, c.via_chunk_api)?;
    verify_raw(&file, &h, &ops)?;
    stats.sizes = sizes;

    // classification (from the bytes the writer really appended)
    let mut on_boundary = false;
    let (mut s29, mut s30, mut s255, mut s256, mut big, mut maxc, mut maxu) = (false, false, false, false, false, false, false);
    let (mut inline_tick, mut abs_tick, mut keyframe, mut neg_tick) = (false, false, false, false);
    let (mut empty, mut m1, mut m2, mut m3) = (false, false, false, false);
    let (mut g31, mut g32) = (false, false);
    let mut prev_tick: Option<i32> = None;
    for (op, &sz) in ops.iter().zip(&stats.sizes) {
        match op {
            RawOp::Tick(t, k) => {
                if sz == 1 {
                    inline_tick = true;
                } else {
                    abs_tick = true;
                }
                keyframe |= *k;
                neg_tick |= *t < 0;
                if let Some(p) = prev_tick {
                    let gap = *t as i64 - p as i64;
                    g31 |= gap == 31;
                    g32 |= gap == 32;
                }
                prev_tick = Some(*t);
            }
            RawOp::Snapshot(d) | RawOp::Delta(d) | RawOp::Message(d) => {
                let is_msg = matches!(op, RawOp::Message(_));
                let cl = predicted_clen(d, is_msg);
                s29 |= cl == 29;
                s30 |= cl == 30;
                s255 |= cl == 255;
                s256 |= cl == 256;
                big |= cl > 32768;
                maxc |= cl == MAXC;
                maxu |= d.len() == MAXP;
                empty |= d.is_empty();
                if is_msg {
                    m1 |= d.len() % 4 == 1;
                    m2 |= d.len() % 4 == 2;
                    m3 |= d.len() % 4 == 3;
                }
            }
            RawOp::Unknown => {}
        }
    }
    on_boundary |= s29 || s30 || s255 || s256;
    Ok(Outcome::nt(on_boundary)
        .class_if(s29, "size_29")
        .class_if(s30, "size_30")
        .class_if(s255, "size_255")
        .class_if(s256, "size_256")
        .class_if(big, "size_over_32k")
        .class_if(maxc, "size_65535")
        .class_if(maxu, "payload_65536")
        .class_if(empty, "empty_payload")
        .class_if(m1, "msg_len_mod4_1")
        .class_if(m2, "msg_len_mod4_2")
        .class_if(m3, "msg_len_mod4_3")
        .class_if(inline_tick, "tick_inline")
        .class_if(abs_tick, "tick_absolute")
        .class_if(keyframe, "tick_keyframe")
        .class_if(neg_tick, "tick_negative")
        .class_if(g31, "tick_gap_31")
        .class_if(g32, "tick_gap_32")
        .class_if(stats.ticks_skipped > 0, "tick_past_i32_max_skipped")
        .class_if(stats.trimmed > 0, "payload_cut_to_writer_limit")
        .class_if(c.via_chunk_api, "via_write_chunk")
        .class_if(h.sha256.is_some(), "header_sha256")
        .class_if(h.net_version.len() == 63 || h.map_name.len() == 63 || h.timestamp.len() == 19, "header_string_at_capacity")
        .class_if(ops.is_empty(), "no_chunks"))
}

// ---------------------------------------------------------------------------
// Raw level strategies

fn hstr(cap: usize) -> BoxedStrategy<Vec<u8>> {
    prop_oneof![
        2 => Just(cap - 1),
        1 => Just(0usize),
        1 => Just(cap - 2),
        3 => 0..cap,
    ]
    .prop_flat_map(|n| proptest::collection::vec(1u8..=255, n))
    .boxed()
}

fn header_strategy(max_map: u16) -> BoxedStrategy<HeaderSpec> {
    (
        hstr(64),
        hstr(64),
        hstr(20),
        proptest::option::weighted(0.5, any::<[u8; 32]>()),
        any::<u32>(),
        any::<bool>(),
        prop_oneof![2 => Just(0i32), 2 => 0i32..100_000, 1 => Just(i32::MAX), 1 => 0i32..=i32::MAX],
        prop_oneof![2 => Just(0u16), 3 => 0u16..64, 2 => 0u16..=max_map],
        any::<u32>(),
    )
        .prop_map(|(net_version, map_name, timestamp, sha256, crc, server, length, map_len, map_seed)| HeaderSpec {
            net_version,
            map_name,
            timestamp,
            sha256,
            crc,
            server,
            length,
            map_len,
            map_seed,
        })
        .boxed()
}

fn payload_strategy() -> BoxedStrategy<PayloadSpec> {
    let len_fit = prop_oneof![
        3 => (0u32..8).prop_map(|l| (l, Fit::None)),
        3 => (0u32..80).prop_map(|l| (l, Fit::None)),
        2 => (0u32..1500).prop_map(|l| (l, Fit::None)),
        1 => (0u32..50_000).prop_map(|l| (l, Fit::None)),
        1 => (65_530u32..=65_536).prop_map(|l| (l, Fit::None)),
        8 => (0u32..4, proptest::sample::select(vec![29u16, 30, 255, 256, 28, 31, 254, 257]))
            .prop_map(|(l, t)| (l, Fit::Compressed(t))),
        1 => (0u32..4, 1u16..400).prop_map(|(l, t)| (l, Fit::Compressed(t))),
        1 => (0u32..4).prop_map(|l| (l, Fit::Max)),
    ];
    (proptest::collection::vec(any::<u8>(), 0..12), 0u8..6, any::<u32>(), len_fit)
        .prop_map(|(head, fill, seed, (len, fit))| PayloadSpec { head, fill, seed, len, fit })
        .boxed()
}

fn rchunk_strategy() -> BoxedStrategy<RChunk> {
    let gap = prop_oneof![
        5 => proptest::sample::select(vec![1u32, 2, 30, 31, 32, 33, 1000, 1 << 20]),
        2 => 1u32..70,
        1 => proptest::sample::select(vec![i32::MAX as u32, 1u32 << 31, u32::MAX]),
    ];
    prop_oneof![
        5 => (gap, proptest::bool::weighted(0.25)).prop_map(|(gap, keyframe)| RChunk::Tick { gap, keyframe }),
        2 => payload_strategy().prop_map(RChunk::Snapshot),
        2 => payload_strategy().prop_map(RChunk::Delta),
        3 => payload_strategy().prop_map(RChunk::Message),
    ]
    .boxed()
}

fn start_tick_strategy() -> BoxedStrategy<i32> {
    prop_oneof![
        3 => Just(0i32),
        2 => 0i32..100_000,
        1 => (0i32..70).prop_map(|d| i32::MAX - d),
        1 => proptest::sample::select(vec![-1i32, i32::MIN, -1000, i32::MIN + 31]),
    ]
    .boxed()
}

fn raw_strategy() -> impl Strategy<Value = RawCase> {
    (
        header_strategy(4096),
        start_tick_strategy(),
        proptest::collection::vec(rchunk_strategy(), 0..14),
        any::<bool>(),
    )
        .prop_map(|(header, start_tick, chunks, via_chunk_api)| RawCase {
            header,
            start_tick,
            chunks,
            via_chunk_api,
        })
}

// ---------------------------------------------------------------------------
// Raw level deterministic sweeps: every compressed size 1..=300 per chunk kind, every tick gap
// 1..=70 with/without key frame from several starting ticks, every header string length.

fn plain_header() -> HeaderSpec {
    HeaderSpec {
        net_version: b"0.6 626fce9a778df4d4".to_vec(),
        map_name: b"dm1".to_vec(),
        timestamp: b"2026-09-23_00-00-00".to_vec(),
        sha256: None,
        crc: 0xf2159e6e,
        server: false,
        length: 0,
        map_len: 0,
        map_seed: 0,
    }
}

const SIZE_SWEEP: u64 = 300 * 3 * 2;

fn size_sweep_case(idx: u64) -> (RawCase, usize) {
    let kind = idx % 3;
    let fill = if (idx / 3) % 2 == 0 { 2 } else { 3 };
    let t = (idx / 6 + 1) as u16;
    let p = PayloadSpec {
        head: vec![],
        fill,
        seed: 0x1234_5678 ^ idx as u32,
        len: (idx % 4) as u32,
        fit: Fit::Compressed(t),
    };
    let data = match kind {
        0 => RChunk::Snapshot(p),
        1 => RChunk::Delta(p),
        _ => RChunk::Message(p),
    };
    (
        RawCase {
            header: plain_header(),
            start_tick: 7,
            chunks: vec![
                RChunk::Tick { gap: 1, keyframe: true },
                data,
                RChunk::Tick { gap: 1, keyframe: false },
                RChunk::Message(PayloadSpec { head: vec![1, 2, 3, 4, 5], fill: 0, seed: 0, len: 5, fit: Fit::None }),
            ],
            via_chunk_api: idx % 2 == 1,
        },
        t as usize,
    )
}

fn check_size_sweep(idx: u64) -> Result<bool, String> {
    let (c, t) = size_sweep_case(idx);
    let h = norm_header(&c.header);
    let mut st = RawStats::default();
    let ops = build_raw_ops(&c, &mut st);
    let (file, _) = write_raw(&h, &ops, c.via_chunk_api)?;
    verify_raw(&file, &h, &ops)?;
    let hit = match &ops[1] {
        RawOp::Message(d) => predicted_clen(d, true) == t,
        RawOp::Snapshot(d) | RawOp::Delta(d) => predicted_clen(d, false) == t,
        _ => false,
    };
    Ok(hit)
}

const TICK_STARTS: [i32; 6] = [0, 1, 12345, -40, i32::MIN, i32::MAX - 70];
const TICK_SWEEP: u64 = 70 * 2 * 2 * 6;

fn tick_sweep_case(idx: u64) -> RawCase {
    let gap = (idx % 70 + 1) as u32;
    let kf = (idx / 70) % 2 == 1;
    let first_kf = (idx / 140) % 2 == 1;
    let start = TICK_STARTS[(idx / 280) as usize % 6];
    let note = PayloadSpec { head: vec![9, 8, 7], fill: 0, seed: 0, len: 3, fit: Fit::None };
    RawCase {
        header: plain_header(),
        start_tick: start,
        chunks: vec![
            RChunk::Tick { gap: 1, keyframe: first_kf },
            RChunk::Snapshot(note.clone()),
            RChunk::Tick { gap, keyframe: kf },
            RChunk::Delta(note.clone()),
            RChunk::Tick { gap: 1, keyframe: false },
            RChunk::Message(note),
        ],
        via_chunk_api: idx % 2 == 0,
    }
}

const HEADER_SWEEP: u64 = 64 * 2;

fn header_sweep_case(idx: u64) -> RawCase {
    let n = (idx % 64) as usize;
    let mut h = plain_header();
    h.net_version = (0..n).map(|i| b'a' + (i % 26) as u8).collect();
    h.map_name = (0..63 - n).map(|i| 0x80 + (i as u8 % 0x7f)).collect();
    h.timestamp = (0..n % 20).map(|i| b'0' + (i % 10) as u8).collect();
    h.sha256 = if idx >= 64 { Some([idx as u8; 32]) } else { None };
    h.server = idx % 2 == 1;
    h.length = (idx as i32) * 1000;
    h.crc = 0xdead_0000 | idx as u32;
    h.map_len = (idx * 37 % 1500) as u16;
    h.map_seed = idx as u32 + 1;
    RawCase {
        header: h,
        start_tick: 0,
        chunks: vec![RChunk::Tick { gap: 1, keyframe: true }],
        via_chunk_api: false,
    }
}

fn check_plain_case(c: &RawCase) -> Result<bool, String> {
    let h = norm_header(&c.header);
    let mut st = RawStats::default();
    let ops = build_raw_ops(c, &mut st);
    let (file, _) = write_raw(&h, &ops, c.via_chunk_api)?;
    verify_raw(&file, &h, &ops)?;
    Ok(true)
}

// ---------------------------------------------------------------------------
// Typed level: object types, messages

/// (type id, number of words) of every ddnet snap object type that the harness can build by
/// decoding words. `DdnetSpectatorInfo` has a boolean member (C14 finding: its `encode()` is not
/// its wire form) and is left out.
fn type_table() -> &'static Vec<(TypeId, usize)> {
    static T: OnceLock<Vec<(TypeId, usize)>> = OnceLock::new();
    T.get_or_init(|| {
        let mut cands: Vec<TypeId> = (1u16..=20).map(TypeId::Ordinal).collect();
        for u in [
            snap_obj::MY_OWN_OBJECT,
            snap_obj::DDNET_CHARACTER,
            snap_obj::DDNET_PLAYER,
            snap_obj::GAME_INFO_EX,
            snap_obj::DDRACE_PROJECTILE,
            snap_obj::DDNET_LASER,
            snap_obj::DDNET_PROJECTILE,
            snap_obj::DDNET_PICKUP,
            snap_obj::SPECTATOR_COUNT,
            snap_obj::BIRTHDAY,
            snap_obj::FINISH,
            snap_obj::MY_OWN_EVENT,
            snap_obj::SPEC_CHAR,
            snap_obj::SWITCH_STATE,
            snap_obj::ENTITY_EX,
            snap_obj::MAP_SOUND_WORLD,
        ] {
            cands.push(TypeId::Uuid(u));
        }
        let mut out = Vec::new();
        for t in cands {
            for n in 0..=64usize {
                let zeros = vec![0i32; n];
                let mut w = Warnings::new();
                if SnapObj::decode_obj(&mut w, t, &mut IntUnpacker::new(&zeros)).is_ok() {
                    if w.is_empty() {
                        out.push((t, n));
                    }
                    break;
                }
            }
        }
        out
    })
}

fn decode_words(t: TypeId, words: &[i32]) -> Option<SnapObj> {
    let mut w = Warnings::new();
    let r = SnapObj::decode_obj(&mut w, t, &mut IntUnpacker::new(words)).ok();
    if w.is_empty() {
        r
    } else {
        None
    }
}

/// Turns arbitrary generated words into words that the type's decoder accepts (field by field:
/// the generated value if in range, else a reduced one, else 0).
fn fit_words(t: TypeId, n: usize, raw: &[i32]) -> Vec<i32> {
    let mut words = vec![0i32; n];
    for i in 0..n {
        let v = raw.get(i).copied().unwrap_or(0);
        for cand in [v, v & 0x7f, v & 7, v & 3, v & 1] {
            if cand == 0 {
                break;
            }
            words[i] = cand;
            if decode_words(t, &words).is_some() {
                break;
            }
            words[i] = 0;
        }
    }
    words
}

#[derive(Clone, Copy)]
enum F {
    I(i32, i32),
    S,
}
#[derive(Clone, Copy)]
enum MId {
    O(i32),
    U(uuid::Uuid),
}
const ANY: F = F::I(i32::MIN, i32::MAX);

static MSGS: &[(MId, &[F])] = &[
    (MId::O(gmsg::SV_MOTD), &[F::S]),
    (MId::O(gmsg::SV_BROADCAST), &[F::S]),
    (MId::O(gmsg::SV_CHAT), &[F::I(-2, 3), F::I(-1, 127), F::S]),
    (MId::O(gmsg::SV_KILL_MSG), &[F::I(0, 127), F::I(0, 127), F::I(-3, 5), ANY]),
    (MId::O(gmsg::SV_READY_TO_ENTER), &[]),
    (MId::O(gmsg::SV_VOTE_SET), &[F::I(0, i32::MAX), F::S, F::S]),
    (MId::O(gmsg::SV_VOTE_STATUS), &[F::I(0, 128); 4]),
    (MId::O(gmsg::CL_SAY), &[F::I(0, 1), F::S]),
    (MId::O(gmsg::CL_KILL), &[]),
    (MId::O(gmsg::CL_CALL_VOTE), &[F::S, F::S, F::S]),
    (MId::U(gmsg::SV_MY_OWN_MESSAGE), &[ANY]),
    (MId::U(gmsg::CL_SHOW_DISTANCE), &[ANY, ANY]),
    (MId::U(gmsg::SV_RACE_FINISH), &[F::I(0, 127), ANY, ANY, F::I(0, 1), F::I(0, 1)]),
    (MId::U(gmsg::SV_DDRACE_TIME), &[ANY, ANY, F::I(0, 1)]),
    (MId::U(gmsg::SV_TEAMS_STATE), &[F::I(0, 128); 128]),
];

#[derive(Clone, Debug, Hash, Serialize, Deserialize)]
pub struct MsgSpec {
    pub kind: u16,
    pub ints: Vec<i32>,
    pub strs: Vec<Vec<u8>>,
}

fn into_range(v: i32, lo: i32, hi: i32) -> i32 {
    if lo <= v && v <= hi {
        v
    } else {
        let span = hi as i64 - lo as i64 + 1;
        (lo as i64 + (v as i64 - lo as i64).rem_euclid(span)) as i32
    }
}

fn msg_bytes(m: &MsgSpec) -> Vec<u8> {
    let (id, fields) = MSGS[pick(m.kind, MSGS.len())];
    let mut out = Vec::new();
    match id {
        MId::O(n) => varint(n << 1, &mut out),
        MId::U(u) => {
            varint(0, &mut out);
            out.extend_from_slice(u.as_bytes());
        }
    }
    let (mut ii, mut si) = (0, 0);
    for f in fields {
        match *f {
            F::I(lo, hi) => {
                let v = m.ints.get(ii).copied().unwrap_or(0);
                ii += 1;
                varint(into_range(v, lo, hi), &mut out);
            }
            F::S => {
                let s = m.strs.get(si).map(|s| &s[..]).unwrap_or(b"");
                si += 1;
                out.extend(s.iter().map(|&b| if b < 0x20 { b + 0x20 } else { b }));
                out.push(0);
            }
        }
    }
    out
}

fn encode_game(g: &Game) -> Result<Vec<u8>, String> {
    let mut buf: Vec<u8> = Vec::with_capacity(8192);
    let n = with_packer(&mut buf, |p| g.encode(p).map(|s| s.len())).map_err(|_| "harness: message does not fit 8 KiB".to_string())?;
    ensure_eq!(n, buf.len(), "harness: packer length");
    Ok(buf)
}

#[derive(Clone, Debug, Hash, Serialize, Deserialize)]
pub struct ObjSpec {
    pub ty: u16,
    pub id: u16,
    pub words: Vec<i32>,
}

#[derive(Clone, Debug, Hash, Serialize, Deserialize)]
pub enum Change {
    Add(ObjSpec),
    Modify { which: u16, word: u8, value: i32 },
    Remove { which: u16 },
    Clear,
}

#[derive(Clone, Debug, Hash, Serialize, Deserialize)]
pub enum TOp {
    /// advance the tick by `gap`, apply the changes to the world, write the world
    Snap { gap: u16, changes: Vec<Change> },
    Msg(MsgSpec),
    /// write_snap with `last tick - back`: must be refused
    BadTick { back: u16 },
    /// write_snap with a valid tick but the same (type, id) twice: refused by the snapshot builder
    DupSnap { gap: u16 },
}

#[derive(Clone, Debug, Hash, Serialize, Deserialize)]
pub struct TypedCase {
    pub header: HeaderSpec,
    pub start_tick: i32,
    pub ops: Vec<TOp>,
}

type Item = (TypeId, u16, Vec<i32>);

#[derive(Clone, PartialEq)]
enum TExp {
    Tick(i32),
    Snap(Vec<Item>),
    Msg(Vec<u8>),
    Invalid,
}

impl std::fmt::Debug for TExp {
    fn fmt(&self, f: &mut std::fmt::Formatter) -> std::fmt::Result {
        match self {
            TExp::Tick(t) => write!(f, "Tick({})", t),
            TExp::Snap(items) => {
                write!(f, "Snapshot{{")?;
                for (t, id, w) in items {
                    write!(f, " ({:?},{}):{:?}", t, id, w)?;
                }
                write!(f, " }}")
            }
            TExp::Msg(b) => write!(f, "Message({})", hex(b)),
            TExp::Invalid => write!(f, "Invalid"),
        }
    }
}

type World = BTreeMap<(u16, u16), Vec<i32>>;

fn world_items(world: &World) -> Vec<Item> {
    let tt = type_table();
    let mut v: Vec<Item> = world.iter().map(|(&(ty, id), w)| (tt[ty as usize].0, id, w.clone())).collect();
    v.sort();
    v
}

fn world_objs(world: &World, reverse: bool) -> Result<Vec<(SnapObj, u16)>, String> {
    let tt = type_table();
    let mut v = Vec::with_capacity(world.len());
    for (&(ty, id), w) in world {
        let o = decode_words(tt[ty as usize].0, w).ok_or_else(|| format!("harness: words {:?} of type {:?} do not decode", w, tt[ty as usize].0))?;
        v.push((o, id));
    }
    if reverse {
        v.reverse();
    }
    Ok(v)
}

/// Index of a UUID object type of two words (used instead of UUID types of other sizes while the
/// finding KEY_UUID_IDS is open, so that a reused extended type id never changes the item size).
fn two_word_uuid_type(sel: usize) -> Option<usize> {
    let tt = type_table();
    let c: Vec<usize> = (0..tt.len()).filter(|&i| matches!(tt[i].0, TypeId::Uuid(_)) && tt[i].1 == 2).collect();
    if c.is_empty() {
        None
    } else {
        Some(c[sel % c.len()])
    }
}

fn apply_changes(world: &mut World, changes: &[Change], cfg: &TypedCfg, flags: &mut TFlags) {
    let tt = type_table();
    for ch in changes {
        match ch {
            Change::Add(o) => {
                if world.len() >= 64 {
                    continue;
                }
                let mut ty = pick(o.ty, tt.len());
                if cfg.same_size_uuid && matches!(tt[ty].0, TypeId::Uuid(_)) && tt[ty].1 != 2 {
                    flags.excluded_uuid += 1;
                    match two_word_uuid_type(ty) {
                        Some(t) => ty = t,
                        None => continue,
                    }
                }
                let (t, n) = tt[ty];
                let words = fit_words(t, n, &o.words);
                flags.uuid_obj |= matches!(t, TypeId::Uuid(_));
                if world.insert((ty as u16, o.id), words).is_some() {
                    flags.changed = true;
                }
            }
            Change::Modify { which, word, value } => {
                if world.is_empty() {
                    continue;
                }
                let key = *world.keys().nth(pick(*which, world.len())).unwrap();
                let (t, n) = tt[key.0 as usize];
                if n == 0 {
                    continue;
                }
                let mut raw = world[&key].clone();
                raw[*word as usize % n] = *value;
                let words = fit_words(t, n, &raw);
                if words != world[&key] {
                    flags.changed = true;
                }
                world.insert(key, words);
            }
            Change::Remove { which } => {
                if world.is_empty() {
                    continue;
                }
                let key = *world.keys().nth(pick(*which, world.len())).unwrap();
                world.remove(&key);
                flags.vanished = true;
            }
            Change::Clear => {
                flags.vanished |= !world.is_empty();
                world.clear();
            }
        }
    }
}

#[derive(Default)]
struct TFlags {
    uuid_obj: bool,
    changed: bool,
    vanished: bool,
    refused_lower: bool,
    refused_equal: bool,
    snap_after_refusal: bool,
    dup_refused: bool,
    snap_after_dup: bool,
    empty_snap: bool,
    msg_rejected_by_decoder: bool,
    msg_unaligned: bool,
    msgs: u32,
    snaps: u32,
    excluded_equal: u32,
    excluded_dup: u32,
    excluded_uuid: u32,
}

struct TypedCfg {
    skip_equal: bool,
    skip_dup: bool,
    same_size_uuid: bool,
}

fn is_too_low(e: &libtw2_demo::ddnet::WriteError) -> bool {
    matches!(e, libtw2_demo::ddnet::WriteError::TooLowTickNumber)
}

fn write_typed(c: &TypedCase, h: &NormHeader, cfg: &TypedCfg, flags: &mut TFlags) -> Result<(Vec<u8>, Vec<TExp>), String> {
    let shared = Shared::new();
    let file = shared.clone();
    let mut w: DemoWriter<Protocol> = guard_s("DemoWriter::new", || {
        DemoWriter::new(
            file,
            &h.net_version,
            &h.map_name,
            h.sha256.map(Sha256),
            h.crc,
            kind(h.server),
            h.length,
            &h.timestamp,
            &h.map,
        )
    })?
    .map_err(|e| format!("DemoWriter::new failed: {:?}", e))?;
    let mut world = World::new();
    let mut last: Option<i32> = None;
    let mut expect: Vec<TExp> = Vec::new();
    let mut pending_refusal = false;
    let mut pending_dup = false;
    let next_tick = |last: Option<i32>, gap: u16| -> Option<i32> {
        match last {
            None => Some(c.start_tick.max(0)),
            Some(l) => l.checked_add(gap.max(1) as i32),
        }
    };
    for (i, op) in c.ops.iter().enumerate() {
        match op {
            TOp::Snap { gap, changes } => {
                let Some(tick) = next_tick(last, *gap) else { continue };
                apply_changes(&mut world, changes, cfg, flags);
                let objs = world_objs(&world, tick % 2 == 1)?;
                let r = guard_s(&format!("op #{}: write_snap(tick {}, {} objects)", i, tick, objs.len()), || {
                    w.write_snap(tick, objs.iter().map(|(o, id)| (o, *id)))
                })?;
                if let Err(e) = r {
                    return Err(format!("op #{}: write_snap(tick {} after {:?}, {} objects) failed: {:?}", i, tick, last, objs.len(), e));
                }
                last = Some(tick);
                expect.push(TExp::Tick(tick));
                expect.push(TExp::Snap(world_items(&world)));
                flags.snaps += 1;
                flags.empty_snap |= world.is_empty();
                flags.snap_after_refusal |= pending_refusal;
                flags.snap_after_dup |= pending_dup;
                pending_refusal = false;
                pending_dup = false;
            }
            TOp::Msg(m) => {
                let bytes = msg_bytes(m);
                let mut mw = Warnings::new();
                let game = match Game::decode(&mut mw, &mut Unpacker::new(&bytes)) {
                    Ok(g) if mw.is_empty() => g,
                    _ => {
                        flags.msg_rejected_by_decoder = true;
                        continue;
                    }
                };
                let canon = encode_game(&game)?;
                let r = guard_s(&format!("op #{}: write_msg({:?})", i, game), || w.write_msg(&game))?;
                if let Err(e) = r {
                    return Err(format!("op #{}: write_msg({:?}) failed: {:?}", i, game, e));
                }
                flags.msg_unaligned |= canon.len() % 4 != 0;
                flags.msgs += 1;
                expect.push(TExp::Msg(canon));
            }
            TOp::BadTick { back } => {
                let Some(l) = last else { continue };
                if *back == 0 && cfg.skip_equal {
                    flags.excluded_equal += 1;
                    continue;
                }
                let tick = (l as i64 - *back as i64).max(i32::MIN as i64) as i32;
                let objs = world_objs(&world, false)?;
                let r = guard_s(&format!("op #{}: write_snap(tick {}) after tick {}", i, tick, l), || {
                    w.write_snap(tick, objs.iter().map(|(o, id)| (o, *id)))
                })?;
                match r {
                    Err(ref e) if is_too_low(e) => {}
                    Err(e) => return Err(format!("op #{}: write_snap(tick {}) after tick {} failed with {:?} instead of TooLowTickNumber", i, tick, l, e)),
                    Ok(()) => return Err(format!("op #{}: write_snap(tick {}) after tick {} was accepted although the tick does not increase", i, tick, l)),
                }
                if *back == 0 {
                    flags.refused_equal = true;
                } else {
                    flags.refused_lower = true;
                }
                pending_refusal = true;
            }
            TOp::DupSnap { gap } => {
                if cfg.skip_dup {
                    flags.excluded_dup += 1;
                    continue;
                }
                let Some(tick) = next_tick(last, *gap) else { continue };
                let mut objs = world_objs(&world, false)?;
                if objs.is_empty() {
                    let (t, n) = type_table()[0];
                    let o = decode_words(t, &vec![0; n]).ok_or("harness: zero object")?;
                    objs.push((o, 0));
                }
                let dup = objs[objs.len() / 2];
                objs.push(dup);
                let r = guard_s(&format!("op #{}: write_snap(tick {}) with a duplicate (type, id)", i, tick), || {
                    w.write_snap(tick, objs.iter().map(|(o, id)| (o, *id)))
                })?;
                match r {
                    Err(libtw2_demo::ddnet::WriteError::SnapBuilder(_)) => {}
                    Err(e) => return Err(format!("op #{}: write_snap with a duplicate (type, id) failed with {:?}", i, e)),
                    Ok(()) => return Err(format!("op #{}: write_snap accepted the same (type, id) twice", i)),
                }
                flags.dup_refused = true;
                pending_dup = true;
            }
        }
    }
    drop(w);
    Ok((shared.bytes(), expect))
}

fn read_typed(file: &[u8], h: &NormHeader, expect: &[TExp]) -> Result<(), String> {
    read_typed_on(Cursor::new(file.to_vec()), h, expect)?;
    read_typed_on(Dribble::new(file), h, expect).map_err(|e| format!("{} [backing store returning short reads]", e))
}

fn read_typed_on<T: std::io::Read + std::io::Seek>(store: T, h: &NormHeader, expect: &[TExp]) -> Result<(), String> {
    let mut warn = Warnings::new();
    let mut r: DemoReader<Protocol> = guard_s("DemoReader::new", || DemoReader::new(store, &mut warn))?
        .map_err(|e| format!("DemoReader::new failed on the written demo: {:?}", e))?;
    ensure!(warn.is_empty(), "warnings while reading the header: {:?}", warn.0);
    check_header!(r, h);
    for i in 0..=expect.len() {
        let got = guard_s(&format!("next_chunk #{}", i), || -> Result<Option<TExp>, String> {
            match r.next_chunk(&mut warn) {
                Err(e) => Err(format!("{:?}", e)),
                Ok(None) => Ok(None),
                Ok(Some(Chunk::Tick(t))) => Ok(Some(TExp::Tick(t))),
                Ok(Some(Chunk::Invalid)) => Ok(Some(TExp::Invalid)),
                Ok(Some(Chunk::Message(g))) => Ok(Some(TExp::Msg(encode_game(&g)?))),
                Ok(Some(Chunk::Snapshot(it))) => {
                    let mut v: Vec<Item> = it.map(|(o, id)| (o.obj_type_id(), *id, o.encode().to_vec())).collect();
                    v.sort();
                    Ok(Some(TExp::Snap(v)))
                }
            }
        })?;
        let want = expect.get(i);
        match (got, want) {
            (Err(e), _) => return Err(format!("chunk #{}: reader failed with {}, expected {:?}", i, e, want)),
            (Ok(None), None) => {}
            (Ok(None), Some(x)) => return Err(format!("chunk #{}: reader reports end of demo, expected {:?}", i, x)),
            (Ok(Some(g)), None) => return Err(format!("reader returned an extra chunk {:?} after the {} expected ones", g, expect.len())),
            (Ok(Some(g)), Some(x)) => {
                if g != *x {
                    if let (TExp::Snap(a), TExp::Snap(b)) = (&g, x) {
                        let extra: Vec<&Item> = a.iter().filter(|i| !b.contains(i)).collect();
                        let missing: Vec<&Item> = b.iter().filter(|i| !a.contains(i)).collect();
                        return Err(format!(
                            "chunk #{}: object set differs: reported but not written {:?}; written but not reported {:?} ({} written, {} reported)",
                            i,
                            extra,
                            missing,
                            b.len(),
                            a.len()
                        ));
                    }
                    return Err(format!("chunk #{}: read {:?}, expected {:?}", i, g, x));
                }
            }
        }
        ensure!(warn.is_empty(), "chunk #{} ({:?}): warnings {:?}", i, want, warn.0);
    }
    Ok(())
}

/// Raw view of a typed demo: (key-frame snapshots, delta snapshots, delta seen after a key frame).
fn raw_view(file: &[u8]) -> Result<(u32, u32, bool), String> {
    let mut warn = Warnings::new();
    let mut r = Reader::new(Cursor::new(file.to_vec()), &mut warn).map_err(|e| format!("Reader::new on a typed demo: {:?}", e))?;
    let (mut full, mut delta, mut delta_after_full) = (0, 0, false);
    for _ in 0..1_000_000 {
        match r.read_chunk(&mut warn) {
            Err(e) => return Err(format!("raw reader failed on a typed demo: {:?}", e)),
            Ok(None) => break,
            Ok(Some(RawChunk::Snapshot(_))) => full += 1,
            Ok(Some(RawChunk::SnapshotDelta(_))) => {
                delta += 1;
                delta_after_full |= full > 0;
            }
            Ok(Some(_)) => {}
        }
    }
    ensure!(warn.is_empty(), "raw reader warned on a typed demo: {:?}", warn.0);
    Ok((full, delta, delta_after_full))
}

fn check_typed(c: &TypedCase, cfg: &TypedCfg, excluded: &AtomicU64) -> PResult {
    let h = norm_header(&c.header);
    let mut f = TFlags::default();
    let (file, expect) = write_typed(c, &h, cfg, &mut f)?;
    excluded.fetch_add((f.excluded_equal + f.excluded_dup + f.excluded_uuid) as u64, Ordering::Relaxed);
    read_typed(&file, &h, &expect)?;
    let (full, delta, delta_after_full) = raw_view(&file)?;
    ensure_eq!(full + delta, f.snaps, "number of snapshot chunks in the file vs. accepted write_snap calls");
    Ok(Outcome::nt(delta_after_full && f.msg_unaligned)
        .class_if(delta_after_full, "delta_after_keyframe")
        .class_if(full >= 2, "second_keyframe_interval")
        .class_if(full >= 2 && delta >= 2 && (f.changed || f.vanished), "world_changes_across_keyframes")
        .class_if(f.uuid_obj, "uuid_object_type")
        .class_if(f.changed, "object_changed")
        .class_if(f.vanished, "object_vanished")
        .class_if(f.empty_snap, "empty_world_snap")
        .class_if(f.msgs > 0, "has_message")
        .class_if(f.msg_unaligned, "message_len_not_multiple_of_4")
        .class_if(f.refused_lower, "lower_tick_refused")
        .class_if(f.refused_equal, "equal_tick_refused")
        .class_if(f.snap_after_refusal, "snap_after_tick_refusal")
        .class_if(f.dup_refused, "duplicate_key_refused")
        .class_if(f.snap_after_dup, "snap_after_duplicate_refusal")
        .class_if(f.msg_rejected_by_decoder, "harness_msg_spec_rejected")
        .class_if(f.excluded_equal > 0, "excluded_known_equal_tick")
        .class_if(f.excluded_dup > 0, "excluded_known_dup_leak")
        .class_if(f.excluded_uuid > 0, "excluded_known_uuid_type_size"))
}

// ---------------------------------------------------------------------------
// Typed level strategies

fn word_strategy() -> BoxedStrategy<i32> {
    prop_oneof![
        4 => -3i32..=10,
        2 => 0i32..=256,
        2 => any::<i32>(),
        1 => (0u32..31, any::<bool>(), -1i32..=1).prop_map(|(s, neg, d)| {
            let b = ((1i64 << s) + d as i64) as i32;
            if neg { b.wrapping_neg() } else { b }
        }),
        1 => proptest::sample::select(vec![i32::MIN, i32::MAX, -1, 0]),
    ]
    .boxed()
}

fn id_strategy() -> BoxedStrategy<u16> {
    prop_oneof![4 => 0u16..6, 2 => 0u16..64, 1 => any::<u16>(), 1 => Just(u16::MAX)].boxed()
}

fn change_strategy() -> BoxedStrategy<Change> {
    prop_oneof![
        5 => (any::<u16>(), id_strategy(), proptest::collection::vec(word_strategy(), 0..23))
            .prop_map(|(ty, id, words)| Change::Add(ObjSpec { ty, id, words })),
        4 => (any::<u16>(), 0u8..22, word_strategy()).prop_map(|(which, word, value)| Change::Modify { which, word, value }),
        2 => any::<u16>().prop_map(|which| Change::Remove { which }),
        1 => Just(Change::Clear),
    ]
    .boxed()
}

fn text_strategy() -> BoxedStrategy<Vec<u8>> {
    prop_oneof![
        3 => proptest::collection::vec(0x20u8..=0x7e, 0..12),
        2 => proptest::collection::vec(0x20u8..=0xff, 0..40),
        1 => proptest::collection::vec(0x20u8..=0xff, 200..300),
    ]
    .boxed()
}

fn msg_strategy() -> BoxedStrategy<MsgSpec> {
    (any::<u16>(), proptest::collection::vec(word_strategy(), 0..6), proptest::collection::vec(text_strategy(), 0..3))
        .prop_map(|(kind, ints, strs)| MsgSpec { kind, ints, strs })
        .boxed()
}

fn snap_gap_strategy() -> BoxedStrategy<u16> {
    prop_oneof![
        6 => Just(1u16),
        2 => 2u16..6,
        1 => 30u16..35,
        2 => 60u16..130,
        2 => 249u16..=252,
        1 => Just(1000u16),
    ]
    .boxed()
}

fn top_strategy() -> BoxedStrategy<TOp> {
    prop_oneof![
        12 => (snap_gap_strategy(), proptest::collection::vec(change_strategy(), 0..5)).prop_map(|(gap, changes)| TOp::Snap { gap, changes }),
        5 => msg_strategy().prop_map(TOp::Msg),
        2 => prop_oneof![2 => Just(0u16), 2 => 1u16..4, 1 => any::<u16>()].prop_map(|back| TOp::BadTick { back }),
        1 => snap_gap_strategy().prop_map(|gap| TOp::DupSnap { gap }),
    ]
    .boxed()
}

fn typed_strategy() -> impl Strategy<Value = TypedCase> {
    (
        header_strategy(256),
        prop_oneof![3 => Just(0i32), 2 => 0i32..100_000, 1 => (0i32..2000).prop_map(|d| i32::MAX - d)],
        prop_oneof![3 => proptest::collection::vec(top_strategy(), 1..30), 1 => proptest::collection::vec(top_strategy(), 30..90)],
    )
        .prop_map(|(header, start_tick, ops)| TypedCase { header, start_tick, ops })
}

// ---------------------------------------------------------------------------
// Probes

fn tiny_typed(ops: Vec<TOp>) -> TypedCase {
    TypedCase {
        header: plain_header(),
        start_tick: 5,
        ops,
    }
}

fn add(ty: u16, id: u16, words: Vec<i32>) -> Change {
    Change::Add(ObjSpec { ty, id, words })
}

fn run_probe(case: &TypedCase) -> Result<(), String> {
    let cfg = TypedCfg { skip_equal: false, skip_dup: false, same_size_uuid: false };
    check_typed(case, &cfg, &AtomicU64::new(0)).map(|_| ())
}

// ---------------------------------------------------------------------------

pub fn run(ctx: &Ctx) {
    ctx.set_rule(
        "raw: generated header (strings of every length up to capacity-1, optional sha256, map 0..4 KiB) + 0..13 chunks (ticks with gaps \
         around the inline limit 31/32 from starts incl. negative and near i32::MAX, key-frame flags; snapshot/delta/message payloads from \
         6 byte patterns, empty, up to 64 KiB, or grown until the compressed size is exactly 28..31/254..257 or the maximum) written via \
         write_chunk or the specific methods, read back (non-trivial = a payload whose compressed size is 29, 30, 255 or 256; distinct by case hash); \
         sweeps: every compressed size 1..=300 x 3 chunk kinds x 2 patterns, every tick gap 1..=70 x keyframe x 6 starts, every header string length; \
         typed: 1..89 ops over a world of <= 64 ddnet objects of 36 types (words fitted to each type's decoder), gaps crossing the 250-tick key-frame \
         interval, 15 game message kinds, refused ticks (equal / lower) and refused duplicate keys followed by further snaps \
         (non-trivial = a delta snapshot after a key frame and a message whose length is not a multiple of four)",
    );
    ctx.assume("Huffman::compressed_len (C07) predicts the size on disk; it is used only to aim payloads at size boundaries, to stay inside what the writer accepts (compressed <= 65535) and to label classes");
    ctx.assume("typed objects are obtained through SnapObj::decode_obj and compared through SnapObj::encode (C14 covers that pair); DdnetSpectatorInfo (boolean member) is left out");
    ctx.assume("header: strings without NUL, length >= 0 (the reader asserts both); typed ticks >= 0");
    ctx.extra("typed_object_types", json!(type_table().len()));
    ctx.extra("typed_message_kinds", json!(MSGS.len()));

    // --- known / suspected findings: canonical probes
    ctx.probe(KEY_EQUAL_TICK, || {
        run_probe(&tiny_typed(vec![
            TOp::Snap { gap: 1, changes: vec![add(0, 1, vec![1, 2, 3])] },
            TOp::BadTick { back: 0 },
            TOp::Snap { gap: 1, changes: vec![] },
        ]))
    });
    ctx.probe(KEY_DUP_LEAK, || {
        run_probe(&tiny_typed(vec![
            TOp::Snap { gap: 1, changes: vec![add(0, 1, vec![1, 2, 3])] },
            TOp::DupSnap { gap: 1 },
            TOp::Snap { gap: 1, changes: vec![Change::Clear] },
        ]))
    });

    ctx.probe(KEY_UUID_IDS, || {
        // an object of one UUID type is replaced by an object of another UUID type (different size)
        let tt = type_table();
        let a = (0..tt.len()).find(|&i| matches!(tt[i].0, TypeId::Uuid(_)) && tt[i].1 == 1).ok_or("harness: no 1-word uuid type")?;
        let b = two_word_uuid_type(0).ok_or("harness: no 2-word uuid type")?;
        let ty = |i: usize| (((i as u32) << 16) / tt.len() as u32 + 1) as u16;
        if pick(ty(a), tt.len()) != a || pick(ty(b), tt.len()) != b {
            return Err("harness: type index mapping".into());
        }
        run_probe(&tiny_typed(vec![
            TOp::Snap { gap: 1, changes: vec![add(ty(a), 0, vec![7])] },
            TOp::Snap { gap: 1, changes: vec![Change::Clear, add(ty(b), 0, vec![1, 2])] },
            TOp::Snap { gap: 1, changes: vec![] },
        ]))
    });

    // --- raw level
    ctx.sweep(
        "raw_size_sweep",
        SIZE_SWEEP,
        false,
        check_size_sweep,
        |i| serde_json::to_value(size_sweep_case(i).0).unwrap_or(json!(null)),
    );
    ctx.sweep(
        "raw_tick_sweep",
        TICK_SWEEP,
        false,
        |i| check_plain_case(&tick_sweep_case(i)),
        |i| serde_json::to_value(tick_sweep_case(i)).unwrap_or(json!(null)),
    );
    ctx.sweep(
        "raw_header_sweep",
        HEADER_SWEEP,
        false,
        |i| check_plain_case(&header_sweep_case(i)),
        |i| serde_json::to_value(header_sweep_case(i)).unwrap_or(json!(null)),
    );
    ctx.prop("raw_roundtrip", ctx.n(10_000, 200_000), raw_strategy, check_raw);

    // --- typed level
    let cfg = TypedCfg {
        skip_equal: ctx.known_open(KEY_EQUAL_TICK),
        skip_dup: ctx.known_open(KEY_DUP_LEAK),
        same_size_uuid: ctx.known_open(KEY_UUID_IDS),
    };
    let excluded = AtomicU64::new(0);
    ctx.prop("typed_roundtrip", ctx.n(4000, 40_000), typed_strategy, |c: &TypedCase| check_typed(c, &cfg, &excluded));
    ctx.add_excluded_known(excluded.load(Ordering::Relaxed));
}
