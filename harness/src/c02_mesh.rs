//! C02, one layer up: progress through the multi-peer endpoint (`Net`, anchored in net/src/net.rs).
//!
//! Generator: a mesh of `Net<u8>` endpoints - 1..2 connecting endpoints, 1..3 accepting ones, every
//! connector connected to every acceptor, so every endpoint serves several peers at once. An
//! adversarial prefix (sends in both directions, flushes, ticks of single endpoints, clock advances,
//! deliver / drop / duplicate of in-flight datagrams) is followed by the fair suffix run by the
//! harness: every datagram delivered once, every endpoint ticked (the whole `Net::tick` iterator
//! drained, as the in-repo event loop does) whenever its `Net::needs_tick` deadline has passed.
//! Oracle: after at most FAIR_ROUNDS rounds every connector has seen Ready for every acceptor and
//! every vital chunk accepted by `Net::send` has been handed to the receiving application, in order
//! and unchanged; whenever something is still owed, some endpoint reports a finite deadline; every call
//! returns within its callback fuel.

use crate::netsim::{SimCb, CALL_FUEL};
use crate::util::Warnings;
use crate::{burn, guard, pick, set_fuel, unlimited_fuel, Ctx, Outcome, PResult};
use libtw2_net::connection as c6;
use libtw2_net::net::{Callback, Chunk, ChunkOrEvent, Net, PeerId};
use libtw2_net::Timestamp;
use proptest::prelude::*;
use serde::{Deserialize, Serialize};
use std::collections::BTreeMap;

pub const FAIR_ROUNDS: usize = 60;
const MAX_OUTSTANDING: usize = 120;

struct Cb {
    now_us: u64,
    out: Vec<(u8, Vec<u8>)>,
    rnd: SimCb,
}

impl Callback<u8> for Cb {
    type Error = ();
    fn secure_random(&mut self, buffer: &mut [u8]) {
        c6::Callback::secure_random(&mut self.rnd, buffer)
    }
    fn send(&mut self, addr: u8, data: &[u8]) -> Result<(), ()> {
        burn();
        self.out.push((addr, data.to_vec()));
        Ok(())
    }
    fn time(&mut self) -> Timestamp {
        burn();
        Timestamp::from_usecs_since_epoch(self.now_us)
    }
}

#[derive(Clone, Debug, PartialEq, Eq, Hash, Serialize, Deserialize)]
pub enum Op {
    /// endpoint `from` submits a chunk to its `to`-th peer
    Send { from: u8, to: u8, vital: bool, len: u16 },
    Flush { from: u8, to: u8 },
    Tick { node: u8 },
    Advance { dt: u8 },
    Deliver { k: u16 },
    Drop { k: u16 },
    Dup { k: u16 },
    DeliverAll,
}

#[derive(Clone, Debug, Hash, Serialize, Deserialize)]
pub struct Case {
    pub connectors: u8,
    pub acceptors: u8,
    pub ops: Vec<Op>,
}

const DT_US: [u64; 6] = [1_000, 100_000, 499_000, 500_000, 1_000_000, 2_500_000];

struct Node {
    net: Net<u8>,
    cb: Cb,
    /// peer id by remote address
    pids: BTreeMap<u8, PeerId>,
    /// remote addresses this endpoint may submit chunks to (connection known to be online)
    can_send: BTreeMap<u8, bool>,
}

#[derive(Default)]
struct Pair {
    submitted_vital: Vec<Vec<u8>>,
    submitted_nonvital: Vec<Vec<u8>>,
    delivered_vital: usize,
    dead: bool,
}

struct Mesh {
    nodes: Vec<Node>,
    connectors: usize,
    now_us: u64,
    flight: Vec<(u8, u8, Vec<u8>)>,
    /// (from, to) -> model
    pairs: BTreeMap<(u8, u8), Pair>,
    ready: BTreeMap<(u8, u8), bool>,
    serial: u32,
    faults_on_vital_or_handshake: u32,
    ticks_multi_peer: u32,
    sends: u32,
}

fn payload(serial: u32, len: usize) -> Vec<u8> {
    let tag = serial.to_be_bytes();
    (0..len).map(|i| if i < 4 { tag[i] } else { (i as u8).wrapping_mul(7) ^ tag[3] }).collect()
}

impl Mesh {
    fn new(connectors: usize, acceptors: usize) -> Result<Mesh, String> {
        let n = connectors + acceptors;
        let mut m = Mesh {
            nodes: (0..n)
                .map(|i| Node {
                    net: if i < connectors { Net::client() } else { Net::server() },
                    cb: Cb { now_us: 1_000_000, out: Vec::new(), rnd: SimCb::new(0xE5_0000 + i as u64) },
                    pids: BTreeMap::new(),
                    can_send: BTreeMap::new(),
                })
                .collect(),
            connectors,
            now_us: 1_000_000,
            flight: Vec::new(),
            pairs: BTreeMap::new(),
            ready: BTreeMap::new(),
            serial: 0,
            faults_on_vital_or_handshake: 0,
            ticks_multi_peer: 0,
            sends: 0,
        };
        for c in 0..connectors {
            for a in connectors..n {
                let (c8, a8) = (c as u8, a as u8);
                let pid = m.call(c, "connect", |net, cb| net.connect(cb, a8).0)?;
                m.nodes[c].pids.insert(a8, pid);
                m.ready.insert((c8, a8), false);
                m.pairs.insert((c8, a8), Pair::default());
                m.pairs.insert((a8, c8), Pair::default());
            }
        }
        Ok(m)
    }

    fn call<R>(&mut self, node: usize, what: &str, f: impl FnOnce(&mut Net<u8>, &mut Cb) -> R) -> Result<R, String> {
        let now = self.now_us;
        let nd = &mut self.nodes[node];
        nd.cb.now_us = now;
        set_fuel(CALL_FUEL);
        let (net, cb) = (&mut nd.net, &mut nd.cb);
        let r = guard(|| f(net, cb));
        unlimited_fuel();
        let r = r.map_err(|p| format!("[termination] endpoint {} Net::{}: {}", node, what, p))?;
        for (to, d) in std::mem::take(&mut self.nodes[node].cb.out) {
            if (to as usize) < self.nodes.len() {
                self.flight.push((node as u8, to, d));
            } else {
                return Err(format!("endpoint {} sent a datagram to address {} which it never talked to", node, to));
            }
        }
        Ok(r)
    }

    fn peers_of(&self, node: usize) -> Vec<u8> {
        let n = self.nodes.len();
        if node < self.connectors {
            (self.connectors..n).map(|x| x as u8).collect()
        } else {
            (0..self.connectors).map(|x| x as u8).collect()
        }
    }

    fn feed(&mut self, from: u8, to: u8, data: &[u8]) -> Result<(), String> {
        #[derive(Debug)]
        enum Ev {
            Chunk(u32, bool, Vec<u8>),
            Connect(u32),
            Ready(u32),
            Disconnect(u32),
            Connless,
        }
        let data_v = data.to_vec();
        let evs: Vec<Ev> = self.call(to as usize, "feed", |net, cb| {
            let mut buf = [0u8; 2048];
            let mut w = Warnings::new();
            let (iter, _res) = net.feed(cb, &mut w, from, &data_v, &mut buf[..]);
            let mut v = Vec::new();
            for e in iter {
                burn();
                v.push(match e {
                    ChunkOrEvent::Chunk(Chunk { pid, vital, data }) => Ev::Chunk(pid.0, vital, data.to_vec()),
                    ChunkOrEvent::Connless(_) => Ev::Connless,
                    ChunkOrEvent::Connect(p) => Ev::Connect(p.0),
                    ChunkOrEvent::Ready(p) => Ev::Ready(p.0),
                    ChunkOrEvent::Disconnect(p, _) => Ev::Disconnect(p.0),
                });
            }
            v
        })?;
        for e in evs {
            match e {
                Ev::Connect(p) => {
                    // like the in-repo callers: decide while handling the event
                    let pid = PeerId(p);
                    self.nodes[to as usize].pids.insert(from, pid);
                    self.call(to as usize, "accept", |net, cb| {
                        let _ = net.accept(cb, pid);
                    })?;
                }
                Ev::Ready(p) => {
                    if self.nodes[to as usize].pids.get(&from).map(|x| x.0) != Some(p) {
                        return Err(format!("endpoint {}: Ready for peer id {} while feeding a datagram of address {}", to, p, from));
                    }
                    self.ready.insert((to, from), true);
                    self.nodes[to as usize].can_send.insert(from, true);
                }
                Ev::Chunk(p, vital, d) => {
                    if self.nodes[to as usize].pids.get(&from).map(|x| x.0) != Some(p) {
                        return Err(format!("endpoint {}: chunk attributed to peer id {} while feeding a datagram of address {}", to, p, from));
                    }
                    // the acceptor's connection is online once it has heard chunks from the peer
                    self.nodes[to as usize].can_send.insert(from, true);
                    let pair = self.pairs.get_mut(&(from, to)).expect("pair");
                    if vital {
                        match pair.submitted_vital.get(pair.delivered_vital) {
                            Some(want) if *want == d => pair.delivered_vital += 1,
                            _ => {
                                return Err(format!(
                                    "[vital_prefix] endpoint {} was handed a vital chunk of {} bytes from {} that is not the next submitted one (#{} of {})",
                                    to,
                                    d.len(),
                                    from,
                                    pair.delivered_vital,
                                    pair.submitted_vital.len()
                                ))
                            }
                        }
                    } else if !pair.submitted_nonvital.contains(&d) {
                        return Err(format!("[nonvital_member] endpoint {} was handed a non-vital chunk of {} bytes from {} that was never submitted", to, d.len(), from));
                    }
                }
                Ev::Disconnect(_) => {
                    // no endpoint disconnects in this section; should a connection give up anyway,
                    // its pair is taken out of the liveness goal (and counted)
                    for k in [(from, to), (to, from)] {
                        if let Some(p) = self.pairs.get_mut(&k) {
                            p.dead = true;
                        }
                    }
                    self.nodes[to as usize].can_send.insert(from, false);
                    self.nodes[to as usize].pids.remove(&from);
                }
                Ev::Connless => {}
            }
        }
        Ok(())
    }

    fn is_fault_relevant(d: &[u8]) -> bool {
        let (vital, handshake) = crate::netsim::classify::<crate::netsim::P6>(d);
        vital || handshake
    }

    fn tick(&mut self, node: usize) -> Result<(), String> {
        if self.nodes[node].pids.len() >= 2 {
            self.ticks_multi_peer += 1;
        }
        self.call(node, "tick", |net, cb| {
            for _e in net.tick(cb) {
                burn();
            }
        })
    }

    fn step(&mut self, op: &Op) -> Result<(), String> {
        match op {
            Op::Send { from, to, vital, len } => {
                let from = *from as usize % self.nodes.len();
                let peers = self.peers_of(from);
                let to = peers[*to as usize % peers.len()];
                let key = (from as u8, to);
                let ok = self.nodes[from].can_send.get(&to).copied().unwrap_or(false) && !self.pairs[&key].dead;
                let outstanding = self.pairs[&key].submitted_vital.len() - self.pairs[&key].delivered_vital;
                if ok && outstanding < MAX_OUTSTANDING {
                    let pid = self.nodes[from].pids[&to];
                    self.serial += 1;
                    let data = payload(self.serial, (*len as usize).max(4));
                    let vital = *vital;
                    let d2 = data.clone();
                    let accepted = self.call(from, "send", |net, cb| net.send(cb, Chunk { pid, vital, data: &d2 }).is_ok())?;
                    if accepted {
                        self.sends += 1;
                        let pair = self.pairs.get_mut(&key).unwrap();
                        if vital {
                            pair.submitted_vital.push(data);
                        } else {
                            pair.submitted_nonvital.push(data);
                        }
                    }
                }
            }
            Op::Flush { from, to } => {
                let from = *from as usize % self.nodes.len();
                let peers = self.peers_of(from);
                let to = peers[*to as usize % peers.len()];
                if self.nodes[from].can_send.get(&to).copied().unwrap_or(false) {
                    let pid = self.nodes[from].pids[&to];
                    self.call(from, "flush", |net, cb| {
                        let _ = net.flush(cb, pid);
                    })?;
                }
            }
            Op::Tick { node } => {
                let node = *node as usize % self.nodes.len();
                self.tick(node)?;
            }
            Op::Advance { dt } => self.now_us += DT_US[*dt as usize % DT_US.len()],
            Op::Deliver { k } => {
                if !self.flight.is_empty() {
                    let (f, t, d) = self.flight.remove(pick(*k, self.flight.len()));
                    self.feed(f, t, &d)?;
                }
            }
            Op::Drop { k } => {
                if !self.flight.is_empty() {
                    let (_, _, d) = self.flight.remove(pick(*k, self.flight.len()));
                    if Self::is_fault_relevant(&d) {
                        self.faults_on_vital_or_handshake += 1;
                    }
                }
            }
            Op::Dup { k } => {
                if !self.flight.is_empty() && self.flight.len() < 400 {
                    let x = self.flight[pick(*k, self.flight.len())].clone();
                    self.flight.push(x);
                }
            }
            Op::DeliverAll => {
                let batch = std::mem::take(&mut self.flight);
                for (f, t, d) in batch {
                    self.feed(f, t, &d)?;
                }
            }
        }
        self.deadline_check()
    }

    fn goal_met(&self) -> bool {
        self.flight.is_empty()
            && self.ready.iter().all(|(k, r)| *r || self.pairs[k].dead)
            && self.pairs.values().all(|p| p.dead || p.delivered_vital == p.submitted_vital.len())
    }

    /// While a handshake is incomplete or a vital chunk is owed, the endpoint that owes it reports a deadline.
    fn deadline_check(&self) -> Result<(), String> {
        for ((from, to), p) in &self.pairs {
            if p.dead {
                continue;
            }
            let owes = p.delivered_vital < p.submitted_vital.len();
            let mid_handshake = self.ready.get(&(*from, *to)).map(|r| !*r).unwrap_or(false);
            if (owes || mid_handshake) && !self.nodes[*from as usize].net.needs_tick().is_active() {
                return Err(format!(
                    "[deadline] endpoint {} owes endpoint {} {} vital chunk(s) (handshake incomplete: {}) but Net::needs_tick() reports no deadline",
                    from,
                    to,
                    p.submitted_vital.len() - p.delivered_vital,
                    mid_handshake
                ));
            }
        }
        Ok(())
    }

    fn fair_suffix(&mut self) -> Result<Option<usize>, String> {
        for round in 0..FAIR_ROUNDS {
            if self.goal_met() {
                return Ok(Some(round));
            }
            let batch = std::mem::take(&mut self.flight);
            for (f, t, d) in batch {
                self.feed(f, t, &d)?;
            }
            let mut ticked = false;
            for node in 0..self.nodes.len() {
                if let Some(t) = self.nodes[node].net.needs_tick().to_opt() {
                    if t.as_usecs_since_epoch() <= self.now_us {
                        self.tick(node)?;
                        ticked = true;
                    }
                }
            }
            self.deadline_check()?;
            if !ticked && self.flight.is_empty() {
                let next = self.nodes.iter().filter_map(|n| n.net.needs_tick().to_opt()).map(|t| t.as_usecs_since_epoch()).min();
                match next {
                    Some(t) if t > self.now_us => self.now_us = t,
                    Some(_) => {}
                    None => return Ok(if self.goal_met() { Some(round + 1) } else { None }),
                }
            }
        }
        Ok(if self.goal_met() { Some(FAIR_ROUNDS) } else { None })
    }

    fn owed(&self) -> String {
        let mut v = Vec::new();
        for ((f, t), p) in &self.pairs {
            if !p.dead && p.delivered_vital < p.submitted_vital.len() {
                v.push(format!("{}->{}: {} of {} vital chunks delivered", f, t, p.delivered_vital, p.submitted_vital.len()));
            }
        }
        for ((f, t), r) in &self.ready {
            if !*r && !self.pairs[&(*f, *t)].dead {
                v.push(format!("{}->{}: not ready", f, t));
            }
        }
        v.join("; ")
    }
}

fn op_strategy() -> BoxedStrategy<Op> {
    let len = prop_oneof![8 => 4u16..40, 3 => 40u16..600, 1 => 600u16..=1024];
    prop_oneof![
        6 => (any::<u8>(), any::<u8>(), prop::bool::weighted(0.8), len).prop_map(|(from, to, vital, len)| Op::Send { from, to, vital, len }),
        2 => (any::<u8>(), any::<u8>()).prop_map(|(from, to)| Op::Flush { from, to }),
        2 => any::<u8>().prop_map(|node| Op::Tick { node }),
        2 => any::<u8>().prop_map(|dt| Op::Advance { dt }),
        5 => any::<u16>().prop_map(|k| Op::Deliver { k }),
        3 => any::<u16>().prop_map(|k| Op::Drop { k }),
        1 => any::<u16>().prop_map(|k| Op::Dup { k }),
        2 => Just(Op::DeliverAll),
    ]
    .boxed()
}

fn case_strategy(max_ops: usize) -> impl Strategy<Value = Case> {
    (1u8..=2, 1u8..=3, prop::collection::vec(op_strategy(), 0..max_ops)).prop_map(|(connectors, acceptors, ops)| Case { connectors, acceptors, ops })
}

pub fn run_case(c: &Case) -> PResult {
    let connectors = c.connectors.clamp(1, 2) as usize;
    let acceptors = c.acceptors.clamp(1, 3) as usize;
    let mut m = Mesh::new(connectors, acceptors)?;
    for (i, op) in c.ops.iter().enumerate() {
        m.step(op).map_err(|e| format!("op #{} {:?}: {}", i, op, e))?;
    }
    let before = m.goal_met();
    let rounds = match m.fair_suffix().map_err(|e| format!("fair suffix: {}", e))? {
        Some(r) => r,
        None => {
            return Err(format!(
                "[liveness] {} connecting and {} accepting endpoints: after {} fair rounds (every datagram delivered, every endpoint ticked at its reported deadline) still owed: {}",
                connectors,
                acceptors,
                FAIR_ROUNDS,
                m.owed()
            ))
        }
    };
    let multi = m.nodes.iter().any(|n| n.pids.len() >= 2);
    let dead = m.pairs.values().filter(|p| p.dead).count();
    let pairs_with_vital = m.pairs.values().filter(|p| !p.submitted_vital.is_empty()).count();
    let acceptor_sent = m.pairs.iter().any(|((f, _), p)| (*f as usize) >= connectors && !p.submitted_vital.is_empty());
    Ok(Outcome::nt(multi && !before && m.sends > 0)
        .class(if multi { "some endpoint serves >= 2 peers" } else { "one peer per endpoint" })
        .class_if(m.faults_on_vital_or_handshake > 0, "a datagram with a vital chunk or handshake message was lost")
        .class_if(m.ticks_multi_peer > 0, "tick of an endpoint with >= 2 peers")
        .class_if(rounds > 2, "suffix needed > 2 rounds")
        .class_if(pairs_with_vital >= 2, "vital chunks submitted on >= 2 connections")
        .class_if(acceptor_sent, "an accepting endpoint submitted vital chunks")
        .class_if(dead > 0, "a connection gave up (pair excluded from the goal)"))
}

pub fn run(ctx: &Ctx) {
    let max_ops = ctx.sz(120, 400) as usize;
    ctx.prop("net_mesh", ctx.n(1500, 100_000), || case_strategy(max_ops), |c: &Case| run_case(c));
}
