//! PBT engine: seeded parallel proptest runners, exhaustive sweeps, panic/fuel capture,
//! shrink -> replay files, known findings, evidence.

use proptest::strategy::Strategy;
use proptest::test_runner::{Config, RngAlgorithm, RngSeed, TestCaseError, TestError, TestRunner};
use serde::de::DeserializeOwned;
use serde::Serialize;
use serde_json::{json, Value};
use std::any::Any;
use std::cell::{Cell, RefCell};
use std::collections::hash_map::DefaultHasher;
use std::collections::{BTreeMap, HashSet};
use std::fmt::Debug;
use std::hash::{Hash, Hasher};
use std::panic::{self, AssertUnwindSafe};
use std::path::PathBuf;
use std::sync::atomic::{AtomicBool, AtomicU64, Ordering};
use std::sync::{Mutex, Once};
use std::time::Instant;

/// Root of the verification tree (overridable for scratch copies with env VERIF_ROOT).
pub fn verif_root() -> String {
    std::env::var("VERIF_ROOT").unwrap_or_else(|_| "/verif".to_string())
}
pub const MAX_THREADS: usize = 16;
/// Stack size of the worker threads (large structs such as packet buffers and demo writers live on the
/// stack; instrumented builds need much more than the 2 MiB default).
pub const WORKER_STACK: usize = 256 << 20;

#[derive(Copy, Clone, PartialEq, Eq, Debug)]
pub enum Tier {
    Quick,
    Thorough,
}

/// What a property function reports for one passing case.
#[derive(Default, Clone, Debug)]
pub struct Outcome {
    pub nontrivial: bool,
    pub classes: Vec<&'static str>,
}

impl Outcome {
    pub fn trivial() -> Outcome {
        Outcome::default()
    }
    pub fn nt(nontrivial: bool) -> Outcome {
        Outcome {
            nontrivial,
            classes: Vec::new(),
        }
    }
    pub fn class(mut self, c: &'static str) -> Outcome {
        self.classes.push(c);
        self
    }
    pub fn class_if(mut self, cond: bool, c: &'static str) -> Outcome {
        if cond {
            self.classes.push(c);
        }
        self
    }
}

pub type PResult = Result<Outcome, String>;

#[macro_export]
macro_rules! ensure {
    ($cond:expr, $($arg:tt)*) => {
        if !$cond {
            return Err(format!($($arg)*));
        }
    };
}

#[macro_export]
macro_rules! ensure_eq {
    ($a:expr, $b:expr, $($arg:tt)*) => {
        {
            let (a, b) = (&$a, &$b);
            if a != b {
                return Err(format!("{}: left={:?} right={:?}", format!($($arg)*), a, b));
            }
        }
    };
}

// ---------------------------------------------------------------------------
// Panic capture and fuel

pub struct FuelExhausted;

#[derive(Clone, Debug)]
pub struct PanicInfo {
    pub fuel: bool,
    pub location: String,
    pub message: String,
}

impl std::fmt::Display for PanicInfo {
    fn fmt(&self, f: &mut std::fmt::Formatter) -> std::fmt::Result {
        if self.fuel {
            write!(f, "call did not return within its fuel budget (unbounded loop?)")
        } else {
            write!(f, "panic at {}: {}", self.location, self.message)
        }
    }
}

thread_local! {
    static LAST_PANIC: RefCell<Option<(String, String)>> = RefCell::new(None);
    static FUEL: Cell<i64> = Cell::new(i64::MAX);
    static IN_GUARD: Cell<u32> = Cell::new(0);
}

static HOOK: Once = Once::new();

pub fn install_panic_hook() {
    HOOK.call_once(|| {
        let verbose = std::env::var_os("VERIF_PANIC_VERBOSE").is_some();
        let default = panic::take_hook();
        panic::set_hook(Box::new(move |info| {
            let loc = info
                .location()
                .map(|l| format!("{}:{}", l.file(), l.line()))
                .unwrap_or_else(|| "?".into());
            let msg = if let Some(s) = info.payload().downcast_ref::<&str>() {
                s.to_string()
            } else if let Some(s) = info.payload().downcast_ref::<String>() {
                s.clone()
            } else if info.payload().downcast_ref::<FuelExhausted>().is_some() {
                "<fuel exhausted>".to_string()
            } else {
                "<non-string panic payload>".to_string()
            };
            let guarded = IN_GUARD.with(|g| g.get()) > 0;
            LAST_PANIC.with(|p| *p.borrow_mut() = Some((loc, msg)));
            if verbose || !guarded {
                default(info);
            }
        }));
    });
}

/// Run `f`, turning a panic (or fuel exhaustion) into an `Err`.
pub fn guard<R>(f: impl FnOnce() -> R) -> Result<R, PanicInfo> {
    IN_GUARD.with(|g| g.set(g.get() + 1));
    let r = panic::catch_unwind(AssertUnwindSafe(f));
    IN_GUARD.with(|g| g.set(g.get() - 1));
    match r {
        Ok(v) => Ok(v),
        Err(payload) => Err(panic_info(payload)),
    }
}

fn panic_info(payload: Box<dyn Any + Send>) -> PanicInfo {
    let fuel = payload.downcast_ref::<FuelExhausted>().is_some();
    let (location, message) = LAST_PANIC
        .with(|p| p.borrow_mut().take())
        .unwrap_or_else(|| ("?".into(), "?".into()));
    PanicInfo {
        fuel,
        location,
        message,
    }
}

/// Like `guard` but formats the panic with a context string.
pub fn guard_s<R>(what: &str, f: impl FnOnce() -> R) -> Result<R, String> {
    guard(f).map_err(|p| format!("{}: {}", what, p))
}

pub fn set_fuel(n: i64) {
    FUEL.with(|f| f.set(n));
}
pub fn unlimited_fuel() {
    FUEL.with(|f| f.set(i64::MAX));
}
pub fn fuel_left() -> i64 {
    FUEL.with(|f| f.get())
}
/// Called from every callback the harness hands to the library, and from harness-owned loops
/// around library iterators.
pub fn burn() {
    FUEL.with(|f| {
        let v = f.get() - 1;
        f.set(v);
        if v < 0 {
            f.set(i64::MAX);
            panic::panic_any(FuelExhausted);
        }
    });
}

// ---------------------------------------------------------------------------
// Watchdog (wall clock -> exit 2, never a violation)

static WD_SLOTS: [AtomicU64; 64] = {
    const Z: AtomicU64 = AtomicU64::new(0);
    [Z; 64]
};
static WD_STARTED: Once = Once::new();
static WD_INFO: Mutex<String> = Mutex::new(String::new());

fn now_ms(start: &Instant) -> u64 {
    start.elapsed().as_millis() as u64 + 1
}

fn start_watchdog(start: Instant, limit_ms: u64) {
    WD_STARTED.call_once(|| {
        std::thread::spawn(move || loop {
            std::thread::sleep(std::time::Duration::from_millis(500));
            let now = now_ms(&start);
            for (i, s) in WD_SLOTS.iter().enumerate() {
                let t = s.load(Ordering::Relaxed);
                if t != 0 && now > t && now - t > limit_ms {
                    let info = WD_INFO.lock().map(|s| s.clone()).unwrap_or_default();
                    println!(
                        "INCONCLUSIVE: a single case exceeded the {} ms wall-clock watchdog (worker {}, {}); this is not reported as a violation",
                        limit_ms, i, info
                    );
                    std::process::exit(2);
                }
            }
        });
    });
}

// ---------------------------------------------------------------------------
// Known findings

#[derive(Clone, Debug)]
pub struct KnownFinding {
    pub property: String,
    pub key: String,
    pub what: String,
}

fn load_known(id: &str) -> Vec<KnownFinding> {
    let path = format!("{}/known_findings.json", verif_root());
    let Ok(text) = std::fs::read_to_string(&path) else {
        return Vec::new();
    };
    let v: Value = serde_json::from_str(&text).expect("known_findings.json must be valid JSON");
    let mut out = Vec::new();
    if let Some(list) = v.get("findings").and_then(|f| f.as_array()) {
        for f in list {
            let property = f["property"].as_str().unwrap_or("").to_string();
            if property != id {
                continue;
            }
            out.push(KnownFinding {
                property,
                key: f["key"].as_str().unwrap_or("").to_string(),
                what: f["what"].as_str().unwrap_or("").to_string(),
            });
        }
    }
    out
}

// ---------------------------------------------------------------------------
// Context

pub enum Mode {
    Run,
    Replay { path: String, section: String, case: Value },
}

#[derive(Default)]
struct SectionStats {
    evaluations: u64,
    nontrivial_distinct: u64,
    exhaustive: bool,
    classes: BTreeMap<String, u64>,
    wall_s: f64,
}

#[derive(Default)]
struct Inner {
    evaluations: u64,
    distinct_nontrivial: u64,
    classes: BTreeMap<String, u64>,
    samples: Vec<Value>,
    sections: BTreeMap<String, SectionStats>,
    section_order: Vec<String>,
    violations: Vec<(String, String)>,
    known_lines: Vec<String>,
    excluded_known: u64,
    notes: Vec<String>,
    extra: BTreeMap<String, Value>,
    replayed: bool,
    all_exhaustive: bool,
}

pub struct Ctx {
    pub id: &'static str,
    pub tier: Tier,
    pub seed: u64,
    pub mode: Mode,
    pub threads: usize,
    known: Vec<KnownFinding>,
    start: Instant,
    inner: Mutex<Inner>,
    rule: Mutex<String>,
    assumptions: Mutex<Vec<String>>,
    scale: f64,
    only_section: Option<String>,
}

fn hash64<T: Hash>(t: &T) -> u64 {
    let mut h = DefaultHasher::new();
    t.hash(&mut h);
    h.finish()
}

pub fn mix_seed(seed: u64, id: &str, section: &str, worker: u64) -> u64 {
    let mut h = DefaultHasher::new();
    seed.hash(&mut h);
    id.hash(&mut h);
    section.hash(&mut h);
    worker.hash(&mut h);
    h.finish()
}

fn truncate_sample(v: Value) -> Value {
    let s = v.to_string();
    if s.len() > 1500 {
        let mut cut = 1500;
        while !s.is_char_boundary(cut) {
            cut -= 1;
        }
        json!({"truncated_json": format!("{}...", &s[..cut]), "full_len": s.len()})
    } else {
        v
    }
}

impl Ctx {
    pub fn new(id: &'static str, tier: Tier, seed: u64, mode: Mode) -> Ctx {
        install_panic_hook();
        let start = Instant::now();
        let limit = std::env::var("VERIF_WATCHDOG_MS")
            .ok()
            .and_then(|s| s.parse().ok())
            .unwrap_or(if tier == Tier::Quick { 120_000 } else { 600_000 });
        start_watchdog(start, limit);
        let threads = std::env::var("VERIF_THREADS")
            .ok()
            .and_then(|s| s.parse().ok())
            .unwrap_or_else(|| {
                std::thread::available_parallelism()
                    .map(|n| n.get())
                    .unwrap_or(4)
            })
            .clamp(1, MAX_THREADS);
        let scale = std::env::var("VERIF_SCALE")
            .ok()
            .and_then(|s| s.parse().ok())
            .unwrap_or(1.0);
        Ctx {
            id,
            tier,
            seed,
            mode,
            threads,
            known: load_known(id),
            start,
            inner: Mutex::new(Inner {
                all_exhaustive: true,
                ..Inner::default()
            }),
            rule: Mutex::new(String::new()),
            assumptions: Mutex::new(Vec::new()),
            scale,
            only_section: std::env::var("VERIF_SECTION").ok(),
        }
    }

    pub fn quick(&self) -> bool {
        self.tier == Tier::Quick
    }
    /// Pick a work amount by tier.
    pub fn n(&self, quick: u64, thorough: u64) -> u64 {
        let base = if self.quick() { (quick as f64 * quick_boost(self.id)) as u64 } else { thorough };
        ((base as f64 * self.scale) as u64).max(1)
    }
    /// Pick a size parameter (history length, sweep bound) by tier; never boosted.
    pub fn sz(&self, quick: u64, thorough: u64) -> u64 {
        if self.quick() {
            quick
        } else {
            thorough
        }
    }
    pub fn set_rule(&self, rule: &str) {
        *self.rule.lock().unwrap() = rule.to_string();
    }
    pub fn assume(&self, a: &str) {
        self.assumptions.lock().unwrap().push(a.to_string());
    }
    pub fn note(&self, n: String) {
        self.inner.lock().unwrap().notes.push(n);
    }
    pub fn extra(&self, key: &str, v: Value) {
        self.inner.lock().unwrap().extra.insert(key.to_string(), v);
    }
    pub fn add_excluded_known(&self, n: u64) {
        self.inner.lock().unwrap().excluded_known += n;
    }
    pub fn add_sample(&self, v: Value) {
        let mut i = self.inner.lock().unwrap();
        if i.samples.len() < 24 {
            i.samples.push(truncate_sample(v));
        }
    }

    /// Is `key` listed as an open known finding for this property?
    pub fn known_open(&self, key: &str) -> bool {
        self.known.iter().any(|k| k.key == key)
    }

    fn section_enabled(&self, section: &str) -> bool {
        match &self.mode {
            Mode::Replay { section: s, .. } => s == section,
            Mode::Run => self
                .only_section
                .as_ref()
                .map(|o| section.starts_with(o.as_str()))
                .unwrap_or(true),
        }
    }

    fn replay_dir(&self) -> PathBuf {
        PathBuf::from(format!("{}/replays/{}", verif_root(), self.id))
    }

    /// Record a violation: writes the replay file and prints the VIOLATION line.
    pub fn violation(&self, section: &str, case: Value, msg: &str) {
        let path = match &self.mode {
            Mode::Replay { path, .. } => path.clone(),
            Mode::Run => {
                let dir = self.replay_dir().join("found");
                let _ = std::fs::create_dir_all(&dir);
                let body = json!({"property": self.id, "section": section, "case": case, "message": msg});
                let text = serde_json::to_string_pretty(&body).unwrap();
                let h = hash64(&(section, case.to_string()));
                let p = dir.join(format!("{}-{:016x}.json", section.replace(['/', ' ', ':'], "_"), h));
                let _ = std::fs::write(&p, text);
                p.to_string_lossy().to_string()
            }
        };
        println!("VIOLATION property={} replay={}", self.id, path);
        let mut m = msg.to_string();
        if m.len() > 3000 {
            let mut cut = 3000;
            while !m.is_char_boundary(cut) {
                cut -= 1;
            }
            m.truncate(cut);
            m.push_str("...");
        }
        println!("  section={} reason: {}", section, m);
        self.inner
            .lock()
            .unwrap()
            .violations
            .push((section.to_string(), msg.to_string()));
    }

    /// A canonical probe for a (possibly known) finding, doubling as a regression test.
    /// `f` returns Err(description) if the defect manifests.
    pub fn probe(&self, key: &str, f: impl FnOnce() -> Result<(), String>) {
        let section = format!("probe:{}", key);
        if !self.section_enabled(&section) {
            return;
        }
        if let Mode::Replay { .. } = self.mode {
            self.inner.lock().unwrap().replayed = true;
        }
        let r = match guard(f) {
            Ok(r) => r,
            Err(p) => Err(p.to_string()),
        };
        {
            let mut i = self.inner.lock().unwrap();
            i.evaluations += 1;
        }
        match r {
            Ok(()) => {
                if self.known_open(key) {
                    self.note(format!(
                        "listed known finding {} did not reproduce on this tree",
                        key
                    ));
                }
            }
            Err(msg) => {
                if let Some(k) = self.known.iter().find(|k| k.key == key) {
                    let line = format!(
                        "KNOWN-FINDING: property={} key={} {} [{}]",
                        self.id, key, k.what, one_line(&msg)
                    );
                    println!("{}", line);
                    self.inner.lock().unwrap().known_lines.push(line);
                } else {
                    self.violation(&section, json!({"probe": key}), &msg);
                }
            }
        }
    }

    /// Run a generated property over `cases` cases split over worker threads.
    pub fn prop<T, S, MS, F>(&self, section: &str, cases: u64, make_strategy: MS, f: F)
    where
        T: Debug + Clone + Hash + Serialize + DeserializeOwned + Send + 'static,
        S: Strategy<Value = T>,
        MS: Fn() -> S + Sync,
        F: Fn(&T) -> PResult + Sync,
    {
        if !self.section_enabled(section) {
            return;
        }
        let run_one = |case: &T| -> PResult {
            match guard(|| f(case)) {
                Ok(r) => r,
                Err(p) => Err(format!("unexpected {}", p)),
            }
        };
        if let Mode::Replay { case, .. } = &self.mode {
            self.inner.lock().unwrap().replayed = true;
            let t: T = match serde_json::from_value(case.clone()) {
                Ok(t) => t,
                Err(e) => {
                    println!("replay: cannot decode case for section {}: {}", section, e);
                    std::process::exit(2);
                }
            };
            self.inner.lock().unwrap().evaluations += 1;
            match run_one(&t) {
                Ok(_) => println!("replay: section {} case passes", section),
                Err(msg) => self.violation(section, case.clone(), &msg),
            }
            return;
        }
        let t0 = Instant::now();
        let cases = cases.max(1);
        let workers = (self.threads as u64).min((cases + 31) / 32).max(1);
        let per = (cases + workers - 1) / workers;
        let stop = AtomicBool::new(false);
        struct Local {
            evals: u64,
            nt: HashSet<u64>,
            classes: BTreeMap<&'static str, u64>,
            samples: Vec<Value>,
        }
        let results: Mutex<Vec<(u64, Local, Option<(String, Value)>)>> = Mutex::new(Vec::new());
        *WD_INFO.lock().unwrap() = format!("property {} section {}", self.id, section);
        std::thread::scope(|scope| {
            for w in 0..workers {
                let stop = &stop;
                let results = &results;
                let run_one = &run_one;
                let make_strategy = &make_strategy;
                let start = self.start;
                let seed = mix_seed(self.seed, self.id, section, w);
                std::thread::Builder::new().stack_size(WORKER_STACK).spawn_scoped(scope, move || {
                    let mut seed_bytes = [0u8; 32];
                    for i in 0..4 {
                        seed_bytes[i * 8..i * 8 + 8]
                            .copy_from_slice(&mix_seed(seed, "k", "k", i as u64).to_le_bytes());
                    }
                    let _ = seed_bytes;
                    let config = Config {
                        cases: per as u32,
                        failure_persistence: None,
                        rng_algorithm: RngAlgorithm::ChaCha,
                        rng_seed: RngSeed::Fixed(seed),
                        max_shrink_iters: 100_000,
                        max_shrink_time: 90_000,
                        max_local_rejects: 1_000_000,
                        max_global_rejects: 1_000_000,
                        verbose: 0,
                        ..Config::default()
                    };
                    let mut runner = TestRunner::new(config);
                    let local = RefCell::new(Local {
                        evals: 0,
                        nt: HashSet::new(),
                        classes: BTreeMap::new(),
                        samples: Vec::new(),
                    });
                    let failed = Cell::new(false);
                    let slot = &WD_SLOTS[w as usize % 64];
                    let strategy = make_strategy();
                    let res = runner.run(&strategy, |case| {
                        if !failed.get() && stop.load(Ordering::Relaxed) {
                            return Ok(());
                        }
                        slot.store(now_ms(&start), Ordering::Relaxed);
                        let r = run_one(&case);
                        slot.store(0, Ordering::Relaxed);
                        match r {
                            Ok(o) => {
                                if !failed.get() {
                                    let mut l = local.borrow_mut();
                                    l.evals += 1;
                                    if o.nontrivial {
                                        let h = hash64(&case);
                                        if l.nt.insert(h) && l.samples.len() < 2 {
                                            let v = serde_json::to_value(&case).unwrap_or(Value::Null);
                                            l.samples.push(truncate_sample(v));
                                        }
                                    }
                                    for c in o.classes {
                                        *l.classes.entry(c).or_insert(0) += 1;
                                    }
                                }
                                Ok(())
                            }
                            Err(msg) => {
                                if !failed.get() {
                                    failed.set(true);
                                    local.borrow_mut().evals += 1;
                                    stop.store(true, Ordering::Relaxed);
                                }
                                Err(TestCaseError::fail(msg))
                            }
                        }
                    });
                    slot.store(0, Ordering::Relaxed);
                    let failure = match res {
                        Ok(()) => None,
                        Err(TestError::Fail(reason, value)) => {
                            // re-run the minimal case to get its own message
                            let msg = match run_one(&value) {
                                Err(m) => m,
                                Ok(_) => format!("(flaky on re-run) {}", reason),
                            };
                            Some((msg, serde_json::to_value(&value).unwrap_or(Value::Null)))
                        }
                        Err(TestError::Abort(reason)) => {
                            Some((format!("proptest aborted: {}", reason), Value::Null))
                        }
                    };
                    results.lock().unwrap().push((w, local.into_inner(), failure));
                }).expect("spawn worker thread");
            }
        });
        let mut results = results.into_inner().unwrap();
        results.sort_by_key(|r| r.0);
        let mut nt_all: HashSet<u64> = HashSet::new();
        let mut inner = self.inner.lock().unwrap();
        inner.all_exhaustive = false;
        if !inner.section_order.iter().any(|s| s == section) {
            inner.section_order.push(section.to_string());
        }
        let mut failures = Vec::new();
        let mut evals = 0;
        let mut classes: BTreeMap<String, u64> = BTreeMap::new();
        let mut samples = Vec::new();
        for (_, l, failure) in results {
            evals += l.evals;
            nt_all.extend(l.nt);
            for (c, n) in l.classes {
                *classes.entry(c.to_string()).or_insert(0) += n;
            }
            samples.extend(l.samples);
            if let Some(f) = failure {
                failures.push(f);
            }
        }
        inner.evaluations += evals;
        inner.distinct_nontrivial += nt_all.len() as u64;
        for (c, n) in &classes {
            *inner.classes.entry(format!("{}/{}", section, c)).or_insert(0) += n;
        }
        for s in samples.into_iter().take(3) {
            if inner.samples.len() < 24 {
                inner.samples.push(json!({"section": section, "case": s}));
            }
        }
        let st = inner.sections.entry(section.to_string()).or_default();
        st.evaluations += evals;
        st.nontrivial_distinct += nt_all.len() as u64;
        st.classes = classes;
        st.wall_s += t0.elapsed().as_secs_f64();
        drop(inner);
        // report the smallest failure (by serialized size) for determinism across workers
        failures.sort_by_key(|(_, v)| v.to_string().len());
        if let Some((msg, case)) = failures.into_iter().next() {
            if case.is_null() && msg.starts_with("proptest aborted") {
                println!("INCONCLUSIVE: {} section {}: {}", self.id, section, msg);
                std::process::exit(2);
            }
            self.violation(section, case, &msg);
        }
    }

    /// Enumerate `total` indices completely, in parallel. `f(idx)` returns Ok(nontrivial).
    /// The lowest failing index is reported (deterministic).
    pub fn exhaustive<F, R>(&self, section: &str, total: u64, f: F, render: R)
    where
        F: Fn(u64) -> Result<bool, String> + Sync,
        R: Fn(u64) -> Value,
    {
        self.sweep(section, total, true, f, render)
    }

    /// Like `exhaustive` but for an index space that is a fixed-size deterministic sample.
    pub fn sweep<F, R>(&self, section: &str, total: u64, exhaustive: bool, f: F, render: R)
    where
        F: Fn(u64) -> Result<bool, String> + Sync,
        R: Fn(u64) -> Value,
    {
        if !self.section_enabled(section) {
            return;
        }
        let run_one = |idx: u64| -> Result<bool, String> {
            match guard(|| f(idx)) {
                Ok(r) => r,
                Err(p) => Err(format!("unexpected {}", p)),
            }
        };
        if let Mode::Replay { case, .. } = &self.mode {
            self.inner.lock().unwrap().replayed = true;
            let idx = case["index"].as_u64().unwrap_or(0);
            self.inner.lock().unwrap().evaluations += 1;
            match run_one(idx) {
                Ok(_) => println!("replay: section {} index {} passes", section, idx),
                Err(msg) => self.violation(section, case.clone(), &msg),
            }
            return;
        }
        let t0 = Instant::now();
        *WD_INFO.lock().unwrap() = format!("property {} section {}", self.id, section);
        let chunk: u64 = if total > (1 << 22) { 1 << 14 } else { 256 };
        let next = AtomicU64::new(0);
        let min_fail = AtomicU64::new(u64::MAX);
        let evals = AtomicU64::new(0);
        let nts = AtomicU64::new(0);
        let fail_msg: Mutex<BTreeMap<u64, String>> = Mutex::new(BTreeMap::new());
        let workers = (self.threads as u64).min((total + chunk - 1) / chunk).max(1);
        std::thread::scope(|scope| {
            for w in 0..workers {
                let (next, min_fail, evals, nts, fail_msg, run_one) =
                    (&next, &min_fail, &evals, &nts, &fail_msg, &run_one);
                let start = self.start;
                std::thread::Builder::new().stack_size(WORKER_STACK).spawn_scoped(scope, move || {
                    let slot = &WD_SLOTS[w as usize % 64];
                    loop {
                        let begin = next.fetch_add(chunk, Ordering::Relaxed);
                        if begin >= total || begin >= min_fail.load(Ordering::Relaxed) {
                            break;
                        }
                        let end = (begin + chunk).min(total);
                        slot.store(now_ms(&start), Ordering::Relaxed);
                        let mut e = 0;
                        let mut n = 0;
                        for idx in begin..end {
                            match run_one(idx) {
                                Ok(nt) => {
                                    e += 1;
                                    if nt {
                                        n += 1;
                                    }
                                }
                                Err(msg) => {
                                    e += 1;
                                    fail_msg.lock().unwrap().insert(idx, msg);
                                    min_fail.fetch_min(idx, Ordering::Relaxed);
                                    break;
                                }
                            }
                        }
                        slot.store(0, Ordering::Relaxed);
                        evals.fetch_add(e, Ordering::Relaxed);
                        nts.fetch_add(n, Ordering::Relaxed);
                    }
                }).expect("spawn worker thread");
            }
        });
        let evals = evals.into_inner();
        let nts = nts.into_inner();
        let mut inner = self.inner.lock().unwrap();
        if !exhaustive {
            inner.all_exhaustive = false;
        }
        if !inner.section_order.iter().any(|s| s == section) {
            inner.section_order.push(section.to_string());
        }
        inner.evaluations += evals;
        inner.distinct_nontrivial += nts;
        if total > 0 && inner.samples.len() < 24 {
            let picks = [0, total / 2, total - 1];
            for p in picks.iter().take(if total > 2 { 3 } else { 1 }) {
                inner
                    .samples
                    .push(json!({"section": section, "index": p, "case": truncate_sample(render(*p))}));
            }
        }
        let st = inner.sections.entry(section.to_string()).or_default();
        st.evaluations += evals;
        st.nontrivial_distinct += nts;
        st.exhaustive = exhaustive;
        st.wall_s += t0.elapsed().as_secs_f64();
        drop(inner);
        let fails = fail_msg.into_inner().unwrap();
        if let Some((idx, msg)) = fails.into_iter().next() {
            self.violation(
                section,
                json!({"index": idx, "rendered": truncate_sample(render(idx))}),
                &msg,
            );
        }
    }

    /// Re-run all committed regression replays of this property (top level of replays/<ID>/).
    pub fn committed_replays(&self) -> Vec<(String, String, Value)> {
        let mut out = Vec::new();
        if let Ok(rd) = std::fs::read_dir(self.replay_dir()) {
            let mut paths: Vec<_> = rd.filter_map(|e| e.ok()).map(|e| e.path()).collect();
            paths.sort();
            for p in paths {
                if p.extension().map(|e| e == "json").unwrap_or(false) {
                    if let Ok(text) = std::fs::read_to_string(&p) {
                        if let Ok(v) = serde_json::from_str::<Value>(&text) {
                            out.push((
                                p.to_string_lossy().to_string(),
                                v["section"].as_str().unwrap_or("").to_string(),
                                v["case"].clone(),
                            ));
                        }
                    }
                }
            }
        }
        out
    }

    pub fn violations(&self) -> usize {
        self.inner.lock().unwrap().violations.len()
    }

    pub fn merge_replay_run(&self, other: &Ctx) {
        let o = other.inner.lock().unwrap();
        let mut i = self.inner.lock().unwrap();
        i.evaluations += o.evaluations;
        for v in &o.violations {
            i.violations.push(v.clone());
        }
        let n = i.extra.get("committed_replays").and_then(|v| v.as_u64()).unwrap_or(0);
        i.extra.insert("committed_replays".into(), json!(n + 1));
    }

    /// Write the evidence file; returns the process exit code.
    pub fn finish(&self) -> i32 {
        let inner = self.inner.lock().unwrap();
        if let Mode::Replay { section, .. } = &self.mode {
            if !inner.replayed {
                println!("replay: no section named {:?} in property {}", section, self.id);
                return 2;
            }
            return if inner.violations.is_empty() { 0 } else { 1 };
        }
        let wall = self.start.elapsed().as_secs_f64();
        let mut sections = serde_json::Map::new();
        for name in &inner.section_order {
            let s = &inner.sections[name];
            sections.insert(
                name.clone(),
                json!({
                    "evaluations": s.evaluations,
                    "distinct_nontrivial": s.nontrivial_distinct,
                    "exhaustive": s.exhaustive,
                    "classes": s.classes,
                    "wall_s": (s.wall_s * 1000.0).round() / 1000.0,
                }),
            );
        }
        let mut coverage = serde_json::Map::new();
        coverage.insert("evaluations".into(), json!(inner.evaluations));
        coverage.insert("distinct_nontrivial".into(), json!(inner.distinct_nontrivial));
        coverage.insert("rule".into(), json!(self.rule.lock().unwrap().clone()));
        coverage.insert("samples".into(), json!(inner.samples));
        coverage.insert("sections".into(), Value::Object(sections));
        coverage.insert("classes".into(), json!(inner.classes));
        coverage.insert("excluded_known".into(), json!(inner.excluded_known));
        coverage.insert("known_findings_reported".into(), json!(inner.known_lines));
        coverage.insert("notes".into(), json!(inner.notes));
        coverage.insert("threads".into(), json!(self.threads));
        if inner.all_exhaustive && !inner.section_order.is_empty() {
            coverage.insert("exhaustive".into(), json!(true));
        }
        for (k, v) in &inner.extra {
            coverage.insert(k.clone(), v.clone());
        }
        let ev = json!({
            "property_id": self.id,
            "tier": if self.quick() { "quick" } else { "thorough" },
            "seed": self.seed,
            "level": "exploration",
            "coverage": Value::Object(coverage),
            "assumptions": self.assumptions.lock().unwrap().clone(),
            "wall_s": (wall * 1000.0).round() / 1000.0,
            "violations": inner.violations.len(),
        });
        let dir = format!("{}/evidence", verif_root());
        let _ = std::fs::create_dir_all(&dir);
        let path = format!("{}/{}.json", dir, self.id);
        std::fs::write(&path, serde_json::to_string_pretty(&ev).unwrap()).expect("write evidence");
        println!(
            "{}: tier={} seed={} evaluations={} distinct_nontrivial={} violations={} known={} wall={:.1}s",
            self.id,
            if self.quick() { "quick" } else { "thorough" },
            self.seed,
            inner.evaluations,
            inner.distinct_nontrivial,
            inner.violations.len(),
            inner.known_lines.len(),
            wall
        );
        if inner.violations.is_empty() {
            0
        } else {
            1
        }
    }
}

fn one_line(s: &str) -> String {
    let mut t: String = s.replace('\n', " ");
    if t.len() > 300 {
        let mut cut = 300;
        while !t.is_char_boundary(cut) {
            cut -= 1;
        }
        t.truncate(cut);
        t.push_str("...");
    }
    t
}

/// Per-property multiplier for the quick tier's generated-case counts (fixed work; tuned so that a
/// quick run takes roughly 5-25 s on 16 cores).
fn quick_boost(id: &str) -> f64 {
    match id {
        "C01" => 8.0,
        "C02" => 10.0,
        "C03" => 12.0,
        "C04" => 8.0,
        "C05" => 3.0,
        "C07" => 3.0,
        "C08" => 10.0,
        "C09" => 3.0,
        "C10" => 8.0,
        "C12" => 3.0,
        "C13" => 8.0,
        "C14" => 5.0,
        "C15" => 8.0,
        "C17" => 2.0,
        "C18" => 3.0,
        "C19" => 3.0,
        "C20" => 3.0,
        _ => 1.0,
    }
}

/// Map a 16-bit generated index monotonically onto `0..len` (shrinks towards 0).
pub fn pick(idx: u16, len: usize) -> usize {
    debug_assert!(len > 0);
    ((idx as usize) * len) >> 16
}

// ---------------------------------------------------------------------------
// Counting allocator (per-thread): lets a property bound what a library call allocates.

pub struct CountingAlloc;

thread_local! {
    static ALLOC_CUR: Cell<isize> = const { Cell::new(0) };
    static ALLOC_PEAK: Cell<isize> = const { Cell::new(0) };
    static ALLOC_MAX_SINGLE: Cell<usize> = const { Cell::new(0) };
}

unsafe impl std::alloc::GlobalAlloc for CountingAlloc {
    unsafe fn alloc(&self, layout: std::alloc::Layout) -> *mut u8 {
        alloc_note(layout.size() as isize);
        std::alloc::System.alloc(layout)
    }
    unsafe fn dealloc(&self, ptr: *mut u8, layout: std::alloc::Layout) {
        alloc_note(-(layout.size() as isize));
        std::alloc::System.dealloc(ptr, layout)
    }
    unsafe fn alloc_zeroed(&self, layout: std::alloc::Layout) -> *mut u8 {
        alloc_note(layout.size() as isize);
        std::alloc::System.alloc_zeroed(layout)
    }
    unsafe fn realloc(&self, ptr: *mut u8, layout: std::alloc::Layout, new_size: usize) -> *mut u8 {
        alloc_note(new_size as isize - layout.size() as isize);
        std::alloc::System.realloc(ptr, layout, new_size)
    }
}

fn alloc_note(delta: isize) {
    let _ = ALLOC_CUR.try_with(|c| {
        let v = c.get() + delta;
        c.set(v);
        if delta > 0 {
            let _ = ALLOC_PEAK.try_with(|p| {
                if v > p.get() {
                    p.set(v)
                }
            });
            let _ = ALLOC_MAX_SINGLE.try_with(|m| {
                if delta as usize > m.get() {
                    m.set(delta as usize)
                }
            });
        }
    });
}

/// Start measuring allocations made by the current thread.
pub fn alloc_track_start() {
    ALLOC_CUR.with(|c| c.set(0));
    ALLOC_PEAK.with(|c| c.set(0));
    ALLOC_MAX_SINGLE.with(|c| c.set(0));
}
/// Peak of (bytes allocated - bytes freed) by this thread since `alloc_track_start`.
pub fn alloc_peak() -> usize {
    ALLOC_PEAK.with(|c| c.get().max(0) as usize)
}
/// Largest single allocation request by this thread since `alloc_track_start`.
pub fn alloc_max_single() -> usize {
    ALLOC_MAX_SINGLE.with(|c| c.get())
}
