//! C01 - vital chunks are delivered exactly once, in order, uncorrupted.
//!
//! Generator: histories of application calls and network faults over the two-endpoint simulation
//! (netsim). Oracle: reference model = list of submitted vital chunks per direction; every delivered
//! vital chunk must be the next element of that list; non-vital chunks must have been sent; Ready at
//! most once and only after the acceptor answered.

use crate::netsim::*;
use crate::{Ctx, Outcome, PResult};
use proptest::prelude::*;
use serde_json::json;

pub const ORACLES: [&str; 3] = ["vital_prefix", "nonvital_member", "ready"];

pub fn max_len_for(v: Variant, ctx: &Ctx) -> usize {
    // the largest chunk the connection layer carries; lengths above are C04's business. Open known
    // findings (0.6 chunks >= 1024 bytes, 0.7 vital chunks that cannot be resent) are excluded by
    // construction.
    let _ = ctx;
    match v {
        Variant::V7 => 1387,
        _ => 1023,
    }
}

pub fn run_history_generic<P: Proto>(
    ops: &[Op],
    strip: bool,
    max_len: usize,
    oracles: &[&str],
    mut after_step: impl FnMut(&mut Sim<P>, &Op) -> StepResult,
) -> Result<(Stats, Option<String>), String> {
    let mut sim: Sim<P> = Sim::new(0x5EED, strip);
    sim.max_len = max_len;
    let mut aborted = None;
    for (i, op) in ops.iter().enumerate() {
        let r = sim.step(op).and_then(|()| after_step(&mut sim, op));
        if let Err(f) = r {
            if oracles.contains(&f.oracle) {
                return Err(format!("op #{} {:?}: [{}] {}", i, op, f.oracle, f.msg));
            }
            aborted = Some(format!("[{}] {}", f.oracle, f.msg));
            break;
        }
    }
    Ok((sim.stats.clone(), aborted))
}

pub fn run_variant(
    v: Variant,
    ops: &[Op],
    max_len: usize,
    oracles: &[&str],
) -> Result<(Stats, Option<String>), String> {
    match v {
        Variant::V6Token => run_history_generic::<P6>(ops, false, max_len, oracles, |_, _| Ok(())),
        Variant::V6NoToken => run_history_generic::<P6>(ops, true, max_len, oracles, |_, _| Ok(())),
        Variant::V7 => run_history_generic::<P7>(ops, false, max_len, oracles, |_, _| Ok(())),
    }
}

pub fn outcome_from(stats: &Stats, aborted: &Option<String>) -> Outcome {
    Outcome::nt(stats.vital_delivered > 0 && stats.faults_on_vital > 0)
        .class_if(stats.resend_datagrams > 0, "resend_fired")
        .class_if(stats.wrapped, "sequence_wrapped")
        .class_if(stats.max_in_flight >= 2, "two_or_more_in_flight")
        .class_if(stats.handshake_lost > 0, "handshake_datagram_faulted")
        .class_if(stats.ready > 0, "ready_seen")
        .class_if(stats.vital_delivered >= 50, "fifty_plus_vital_delivered")
        .class_if(stats.nonvital_delivered > 0, "nonvital_delivered")
        .class_if(stats.drops > 0, "drop")
        .class_if(stats.dups > 0, "dup")
        .class_if(stats.recoded > 0, "recoded")
        .class_if(stats.reorders > 0, "reorder")
        .class_if(stats.max_unacked >= 100, "hundred_plus_unacked")
        .class_if(stats.sessions >= 2, "second_session")
        .class_if(aborted.is_some(), "aborted_by_other_oracle")
}

fn check(v: Variant, ops: &Vec<Op>, max_len: usize) -> PResult {
    let (stats, aborted) = run_variant(v, ops, max_len, &ORACLES)?;
    Ok(outcome_from(&stats, &aborted))
}

// ---------------------------------------------------------------------------
// Bounded exhaustive schedule enumeration (uses the clone hook)

pub fn explore<P: Proto>(
    strip: bool,
    chunks: usize,
    split: usize,
    max_depth: u32,
    states: &mut u64,
    transitions: &mut u64,
    at_state: &mut dyn FnMut(&Sim<P>) -> Result<(), String>,
) -> Result<(), String>
where
    P::Conn: Sized,
{
    // scenario: handshake on a good network, client submits `chunks` vital chunks flushed every `split`
    let mut sim: Sim<P> = Sim::new(7, strip);
    for op in handshake_prelude() {
        sim.step(&op).map_err(|f| f.msg)?;
    }
    for i in 0..chunks {
        sim.step(&Op::Send { side: 0, vital: true, len: 10, fill: i as u8 }).map_err(|f| f.msg)?;
        if (i + 1) % split == 0 {
            sim.step(&Op::Flush { side: 0 }).map_err(|f| f.msg)?;
        }
    }
    sim.step(&Op::Flush { side: 0 }).map_err(|f| f.msg)?;
    // DFS over {deliver k, drop k, dup k} for every in-flight datagram and {tick at deadline}
    let mut seen: std::collections::HashSet<u64> = std::collections::HashSet::new();
    dfs(&mut sim, 0, max_depth, &mut seen, states, transitions, at_state)
}

fn sim_key<P: Proto>(sim: &Sim<P>) -> u64 {
    use std::hash::{Hash, Hasher};
    let mut h = std::collections::hash_map::DefaultHasher::new();
    P::fingerprint(&sim.ends[0]).hash(&mut h);
    P::fingerprint(&sim.ends[1]).hash(&mut h);
    for d in 0..2 {
        let mut v: Vec<&Vec<u8>> = sim.net[d].iter().map(|f| &f.data).collect();
        v.sort();
        v.hash(&mut h);
    }
    sim.now_us.hash(&mut h);
    sim.delivered_vital.hash(&mut h);
    h.finish()
}

fn dfs<P: Proto>(
    sim: &mut Sim<P>,
    depth: u32,
    max_depth: u32,
    seen: &mut std::collections::HashSet<u64>,
    states: &mut u64,
    transitions: &mut u64,
    at_state: &mut dyn FnMut(&Sim<P>) -> Result<(), String>,
) -> Result<(), String> {
    if !seen.insert(sim_key(sim)) {
        return Ok(());
    }
    *states += 1;
    at_state(sim).map_err(|e| format!("schedule exploration depth {}: {}", depth, e))?;
    if depth >= max_depth {
        return Ok(());
    }
    let mut moves: Vec<Op> = Vec::new();
    for dir in 0..2u8 {
        let n = sim.net[dir as usize].len();
        // distinct datagrams only (identical copies give identical successors)
        let mut seen_d: Vec<&Vec<u8>> = Vec::new();
        for k in 0..n {
            let d = &sim.net[dir as usize][k].data;
            if seen_d.contains(&d) {
                continue;
            }
            seen_d.push(d);
            let kk = exact_index(k, n);
            moves.push(Op::Deliver { dir, k: kk });
            moves.push(Op::Drop { dir, k: kk });
            if n < 4 {
                moves.push(Op::Dup { dir, k: kk });
            }
        }
    }
    // tick at the earliest deadline
    let deadline = sim.earliest_deadline();
    for m in moves {
        let mut child = sim.snapshot();
        child
            .step(&m)
            .map_err(|f| format!("schedule exploration depth {}: {:?}: [{}] {}", depth, m, f.oracle, f.msg))?;
        *transitions += 1;
        dfs(&mut child, depth + 1, max_depth, seen, states, transitions, at_state)?;
    }
    if let Some(t) = deadline {
        let mut child = sim.snapshot();
        if t > child.now_us {
            child.now_us = t;
        }
        for side in 0..2u8 {
            child
                .step(&Op::Tick { side })
                .map_err(|f| format!("schedule exploration depth {}: tick: [{}] {}", depth, f.oracle, f.msg))?;
        }
        *transitions += 1;
        dfs(&mut child, depth + 1, max_depth, seen, states, transitions, at_state)?;
    }
    Ok(())
}

/// inverse of `pick`: a 16-bit index that `pick(_, n)` maps to k
fn exact_index(k: usize, n: usize) -> u16 {
    let mut v = ((k << 16) + n - 1) / n;
    while crate::pick(v as u16, n) < k {
        v += 1;
    }
    v as u16
}

pub fn run(ctx: &Ctx) {
    ctx.set_rule(
        "histories = handshake prelude (85%) + 0..N generated ops {send vital/non-vital with boundary-biased length, flush, tick, \
         clock advance, deliver/drop/duplicate the k-th in-flight datagram, deliver-all, burst of n<=300 acked vital chunks, \
         disconnect/reset/connless}; non-trivial = at least one vital chunk was delivered AND a drop/dup/out-of-order delivery hit a \
         datagram carrying a vital chunk; distinct by hash of the op list. Thorough adds a complete DFS over deliver/drop/dup/tick \
         schedules of a 3-chunk scenario.",
    );
    ctx.assume("application drains every event iterator; < 500 unacknowledged vital chunks; in-flight datagrams expire once either side advanced 400 sequence numbers (500+400 < 1024)");
    ctx.assume("0.6-without-token variant = the harness rewrites the connector's Connect datagram to the tokenless 4-byte form (a vanilla client), as the repository's own test does");
    let max_ops = ctx.sz(300, 1500) as usize;
    for v in VARIANTS {
        let max_len = max_len_for(v, ctx);
        ctx.prop(
            &format!("history/{}", v.name()),
            ctx.n(4000, 300_000),
            || history_strategy(max_len, max_ops, true),
            |ops: &Vec<Op>| check(v, ops, max_len),
        );
    }
    for v in VARIANTS {
        let max_len = max_len_for(v, ctx);
        ctx.prop(
            &format!("wrap/{}", v.name()),
            ctx.n(150, 10_000),
            || wrap_history_strategy(max_len),
            |ops: &Vec<Op>| check(v, ops, max_len),
        );
    }
    {
        // bounded exhaustive schedule enumeration
        let depth_cfg = ctx.sz(9, 12) as u32;
        for (vi, v) in VARIANTS.iter().enumerate() {
            for split in 1..=3usize {
                let section = format!("schedules/{}/split{}", v.name(), split);
                let v = *v;
                let counts = std::sync::Mutex::new((0u64, 0u64));
                ctx.exhaustive(
                    &section,
                    1,
                    |_| {
                        let mut st = 0;
                        let mut tr = 0;
                        let depth = depth_cfg;
                        let r = match v {
                            Variant::V6Token => explore::<P6>(false, 3, split, depth, &mut st, &mut tr, &mut |_| Ok(())),
                            Variant::V6NoToken => explore::<P6>(true, 3, split, depth, &mut st, &mut tr, &mut |_| Ok(())),
                            Variant::V7 => explore::<P7>(false, 3, split, depth, &mut st, &mut tr, &mut |_| Ok(())),
                        };
                        *counts.lock().unwrap() = (st, tr);
                        r.map(|()| true)
                    },
                    |_| json!({"scenario": "3 vital chunks", "split": split, "variant": v.name()}),
                );
                let (st, tr) = *counts.lock().unwrap();
                ctx.extra(&format!("dfs_{}_split{}", v.name(), split), json!({"states": st, "transitions": tr, "depth": depth_cfg}));
                let _ = vi;
            }
        }
    }
}
