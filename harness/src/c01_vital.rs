use crate::Ctx;

pub fn run(_ctx: &Ctx) {
    // not built yet
}
