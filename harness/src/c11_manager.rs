//! C11, storage half (anchors snapshot/src/storage.rs, manager.rs, receiver.rs): a hostile *server*
//! against the client-side `Manager`.
//!
//! Generator: histories of snapshot messages (empty / single / multi-part form) whose tick, base
//! tick, checksum, part bookkeeping and delta body are each either what an honest server would send
//! or hostile (ticks that repeat / go back / sit at the ends of i32, bases that were never stored,
//! lie in the future or equal the tick, wrong checksums, corrupted delta bodies from C11's delta
//! generator, bodies that push the result to the 1024-item / 64 KiB limits, parts out of order /
//! repeated / withheld / with a lying part count), interleaved with `reset()`.
//!
//! Oracle (only what the statement says; nothing is demanded to be *accepted*):
//!  * every call returns: no panic, callbacks bounded by fuel, allocation bounded by a small multiple
//!    of what the call was given (message, parts pending, the <= 64 KiB base snapshot it names);
//!  * whenever the manager hands out a snapshot, it is an accepted snapshot in the sense of the
//!    statement: the body is a delta the reference reader accepts, the base tick names a snapshot the
//!    manager handed out earlier (or is negative = empty base), the content equals the reference
//!    application of that delta to that base, within 1024 items / 64 KiB, checksum as announced,
//!    writes out / reads back / enumerates / looks up (`check_accepted`), tick strictly newer than
//!    every snapshot handed out since the last reset, and `ack_tick()` names it;
//!  * a call that ends in an error does not move `ack_tick()` to that call's tick, an incomplete
//!    transfer does not move it at all.

use crate::c11_snap_total::{
    byte_muts_strategy, check_accepted, decode_varints, delta_spec_strategy, delta_wire, model_apply, model_delta, mutate,
    mutate_bytes, muts_strategy, table_size, table_strategy, varints, word, ByteMut, DeltaModel, DeltaSpec, Items, Known,
    Mutation, Table, Verdict, LIMIT_BYTES,
};
use crate::{alloc_max_single, alloc_peak, alloc_track_start, burn, ensure, guard, pick, set_fuel, unlimited_fuel, Ctx, Outcome, PResult};
use libtw2_gamenet_snap as msg;
use libtw2_snapshot::manager::{Error as MError, Warning as MWarning};
use libtw2_packer::Unpacker;
use libtw2_snapshot::{Delta, Manager, Snap, Storage};
use libtw2_warn::Ignore;
use libtw2_warn::Warn;
use proptest::prelude::*;
use serde::{Deserialize, Serialize};
use std::collections::BTreeMap;

#[derive(Clone, Debug, Hash, Serialize, Deserialize)]
pub enum TickSel {
    /// previous tick of the history plus this
    Step(i32),
    Abs(i32),
}

#[derive(Clone, Debug, Hash, Serialize, Deserialize)]
pub enum BaseSel {
    /// -1: against the empty snapshot
    Empty,
    /// the newest snapshot handed out
    Newest,
    /// one of the snapshots handed out since the last reset
    Accepted(u16),
    /// tick minus this
    Back(i32),
    Lit(i32),
}

#[derive(Clone, Debug, Hash, Serialize, Deserialize)]
pub enum CrcSel {
    Right,
    Off(i32),
    Lit(i32),
}

#[derive(Clone, Debug, Hash, Serialize, Deserialize)]
pub enum Body {
    /// C11's structured (possibly corrupted) delta relative to the base
    Spec { delta: DeltaSpec, muts: Vec<Mutation>, bmuts: Vec<ByteMut> },
    /// a well-formed delta adding `count` items (ty, id0 + i) of `len` words: reaches the limits
    Fill { ty: u16, id0: u16, count: u16, len: u8 },
}

#[derive(Clone, Debug, Hash, Serialize, Deserialize)]
pub enum Form {
    Empty,
    Single,
    Multi {
        /// number of parts the body is cut into (1..=32)
        parts: u8,
        /// sort keys: delivery order of the parts
        order: Vec<u16>,
        /// deliver this part a second time right after its first delivery
        dup: Option<u16>,
        /// withhold this part (the transfer stays incomplete)
        hold: Option<u16>,
        /// added to the announced part count of one delivery (lying attribute)
        lie: Option<(u16, i32)>,
    },
}

#[derive(Clone, Debug, Hash, Serialize, Deserialize)]
pub struct MsgOp {
    pub tick: TickSel,
    pub base: BaseSel,
    pub body: Body,
    pub crc: CrcSel,
    pub form: Form,
}

#[derive(Clone, Debug, Hash, Serialize, Deserialize)]
pub enum Op {
    Msg(MsgOp),
    Reset,
}

#[derive(Clone, Debug, Hash, Serialize, Deserialize)]
pub struct Case {
    pub start: i32,
    pub table: Table,
    /// bypass the receiver: bodies are parsed with `Delta::read` and handed to `Storage::add_delta`
    /// directly (every message is then a single transfer)
    pub direct: bool,
    pub ops: Vec<Op>,
}

pub enum Target {
    Mgr(Manager),
    Direct(Storage, Delta),
}

impl Target {
    fn ack_tick(&self) -> Option<i32> {
        match self {
            Target::Mgr(m) => m.ack_tick(),
            Target::Direct(s, _) => s.ack_tick(),
        }
    }
    fn reset(&mut self) {
        match self {
            Target::Mgr(m) => m.reset(),
            Target::Direct(s, _) => s.reset(),
        }
    }
}

#[derive(Default)]
struct Sink {
    n: usize,
}
impl Warn<MWarning> for Sink {
    fn warn(&mut self, _: MWarning) {
        burn();
        self.n += 1;
    }
}

#[derive(Default)]
struct Stats {
    handed_out: usize,
    nonempty_base: usize,
    multi: usize,
    after_reset: usize,
    near_limit: usize,
    hostile_body_handed_out: usize,
    warned: usize,
    incomplete: usize,
    errors: BTreeMap<&'static str, usize>,
}

fn err_name(e: &MError) -> &'static str {
    use libtw2_snapshot::receiver::Error as R;
    use libtw2_snapshot::storage::Error as S;
    match e {
        MError::Receiver(R::OldDelta) => "err_receiver_old_delta",
        MError::Receiver(R::InvalidNumParts) => "err_receiver_invalid_num_parts",
        MError::Receiver(R::InvalidPart) => "err_receiver_invalid_part",
        MError::Receiver(R::DuplicatePart) => "err_receiver_duplicate_part",
        MError::Snap(_) => "err_delta_body_refused",
        MError::Storage(S::OldDelta) => "err_storage_old_delta",
        MError::Storage(S::UnknownSnap) => "err_storage_unknown_snap",
        MError::Storage(S::InvalidCrc) => "err_storage_invalid_crc",
        MError::Storage(S::Unpack(_)) => "err_storage_apply_refused",
    }
}

struct Model {
    /// snapshots handed out since the last reset
    accepted: BTreeMap<i32, Items>,
    newest: Option<i32>,
    /// multi-part transfer in progress as far as the responses tell: tick, base and checksum announced
    /// by its first part, parts by number (first occurrence)
    cur: Option<(i32, i32, i32, BTreeMap<i32, Vec<u8>>)>,
}

enum Sent<'a> {
    Empty,
    Single(&'a [u8]),
    Part { num_parts: i32, part: i32, data: &'a [u8] },
}

enum Res {
    Err(MError),
    Incomplete,
    Complete(Snap),
}

fn table_fn(t: Table) -> impl FnMut(u16) -> Option<u32> {
    move |ty| {
        burn();
        table_size(t, ty)
    }
}

/// One manager call: returns, allocation bound, what an error / an incomplete transfer may do to `ack_tick()`.
fn call(mgr: &mut Target, model: &Model, table: Table, what: &str, tick: i32, base: i32, crc: i32, sent: Sent, st: &mut Stats) -> Result<Res, String> {
    let delta_tick = tick.wrapping_sub(base);
    let input_len = match &sent {
        Sent::Empty => 0,
        Sent::Single(d) => d.len(),
        Sent::Part { data, .. } => data.len(),
    };
    let ack_before = mgr.ack_tick();
    let mut w = Sink::default();
    let pending: usize = model.cur.as_ref().map(|c| c.3.values().map(|p| p.len()).sum()).unwrap_or(0);
    set_fuel((8 * (input_len + pending) + 4096) as i64);
    alloc_track_start();
    let res = guard(|| {
        match mgr {
            Target::Mgr(mgr) => {
                let r = match sent {
                    Sent::Empty => mgr.snap_empty(&mut w, table_fn(table), msg::SnapEmpty { tick, delta_tick }),
                    Sent::Single(data) => mgr.snap_single(&mut w, table_fn(table), msg::SnapSingle { tick, delta_tick, crc, data }),
                    Sent::Part { num_parts, part, data } => mgr.snap(&mut w, table_fn(table), msg::Snap { tick, delta_tick, num_parts, part, crc, data }),
                };
                r.map(|o| o.cloned())
            }
            Target::Direct(st, delta) => {
                let crc = match sent {
                    Sent::Empty => {
                        delta.clear();
                        None
                    }
                    Sent::Single(data) | Sent::Part { data, .. } => {
                        if let Err(e) = delta.read(&mut Ignore, table_fn(table), &mut Unpacker::new(data)) {
                            return Err(MError::Snap(e));
                        }
                        Some(crc)
                    }
                };
                st.add_delta(&mut Ignore, crc, base, tick, delta).map(|s| Some(s.clone())).map_err(MError::Storage)
            }
        }
    });
    let peak = alloc_peak();
    let single = alloc_max_single();
    unlimited_fuel();
    let res = res.map_err(|p| format!("{}: {}", what, p))?;
    if w.n > 0 {
        st.warned += 1;
    }
    // what the call was given: the message, the parts collected so far and the (at most 64 KiB) base
    // snapshot it names; the result is copied once more for this harness
    let bound = 64 * (input_len + pending) + 8 * LIMIT_BYTES;
    ensure!(
        peak <= bound && single <= bound,
        "{}: allocated peak {} bytes (largest single request {}) for a message of {} bytes ({} bytes of parts pending); bound {}",
        what,
        peak,
        single,
        input_len,
        pending,
        bound
    );
    let ack_after = guard(|| mgr.ack_tick()).map_err(|p| format!("{}: ack_tick: {}", what, p))?;
    match res {
        Err(e) => {
            *st.errors.entry(err_name(&e)).or_default() += 1;
            ensure!(
                ack_after != Some(tick) || ack_before == Some(tick),
                "{}: ended in {:?} but ack_tick() moved from {:?} to the refused tick {}",
                what,
                e,
                ack_before,
                tick
            );
            Ok(Res::Err(e))
        }
        Ok(None) => {
            st.incomplete += 1;
            ensure!(ack_after == ack_before, "{}: incomplete transfer changed ack_tick() {:?} -> {:?}", what, ack_before, ack_after);
            Ok(Res::Incomplete)
        }
        Ok(Some(snap)) => {
            ensure!(ack_after == Some(tick), "{}: snapshot handed out but ack_tick() = {:?}", what, ack_after);
            Ok(Res::Complete(snap))
        }
    }
}

fn crc_of(items: &Items) -> i32 {
    items.values().flatten().fold(0i32, |s, &a| s.wrapping_add(a))
}

/// Reference reading of a body against a base: the content the manager may hand out, or why not.
fn expected(from: &Items, body: Option<&[u8]>, table: Table) -> Result<Items, String> {
    let dm = match body {
        None => DeltaModel::default(),
        Some(bytes) => {
            let (ints, incomplete) = decode_varints(bytes);
            if incomplete {
                return Err("the body ends inside an integer".into());
            }
            match model_delta(&ints, table) {
                Verdict::Accept(dm) | Verdict::Either(dm) => dm,
                Verdict::Reject(why) => return Err(format!("the body is not a well-formed delta ({})", why)),
            }
        }
    };
    match model_apply(from, &dm).0 {
        Verdict::Accept(items) | Verdict::Either(items) => Ok(items),
        Verdict::Reject(why) => Err(format!("the delta cannot be applied to the base ({})", why)),
    }
}

/// Everything demanded of a snapshot the manager hands out.
fn judge(k: &Known, model: &mut Model, table: Table, monotone: bool, what: &str, snap: &Snap, tick: i32, base: i32, body: Option<&[u8]>, crc: Option<i32>) -> Result<(usize, bool), String> {
    // "messages for ticks older than the newest one seen never complete": a promise of the receiver in
    // front of the storage; `Storage` driven directly only refuses ticks not newer than what it still holds
    ensure!(
        !monotone || model.newest.map(|n| tick > n).unwrap_or(true),
        "{}: handed out a snapshot for tick {} although one for tick {:?} was handed out before",
        what,
        tick,
        model.newest
    );
    let empty = Items::new();
    let from = if base >= 0 {
        match model.accepted.get(&base) {
            Some(f) => f,
            None => return Err(format!("{}: handed out a snapshot against base tick {}, for which no snapshot was handed out since the last reset", what, base)),
        }
    } else {
        &empty
    };
    let items = match expected(from, body, table) {
        Ok(items) => items,
        Err(why) => return Err(format!("{}: handed out a snapshot although {}", what, why)),
    };
    if let Some(c) = crc {
        ensure!(c == crc_of(&items), "{}: handed out a snapshot with checksum {} under the announced checksum {}", what, crc_of(&items), c);
    }
    check_accepted(k, what, snap, &items, false)?;
    let n = items.len();
    let nonempty_base = !from.is_empty();
    model.accepted.insert(tick, items);
    model.newest = Some(tick);
    Ok((n, nonempty_base))
}

fn body_bytes(body: &Body, from: &Items, table: Table) -> (Vec<u8>, bool) {
    match body {
        Body::Spec { delta, muts, bmuts } => {
            let list: Vec<(u32, Vec<i32>)> = from.iter().map(|(k, v)| (*k, v.clone())).collect();
            let (mut ints, lay) = delta_wire(delta, &list, table);
            for m in muts {
                mutate(&mut ints, &lay, m);
            }
            let mut bytes = varints(&ints);
            for m in bmuts {
                mutate_bytes(&mut bytes, m);
            }
            (bytes, !muts.is_empty() || !bmuts.is_empty() || delta.nd_off != 0 || delta.nu_off != 0 || delta.pad != 0)
        }
        Body::Fill { ty, id0, count, len } => {
            let mut ints = vec![0, *count as i32, 0];
            for i in 0..*count {
                ints.push(*ty as i32);
                ints.push(id0.wrapping_add(i) as i32);
                if table_size(table, *ty).is_none() {
                    ints.push(*len as i32);
                }
                let l = table_size(table, *ty).map(|s| s as usize).unwrap_or(*len as usize);
                for j in 0..l {
                    ints.push((i as i32) * 7 + j as i32);
                }
            }
            (varints(&ints), false)
        }
    }
}

pub fn check_case(k: &Known, c: &Case) -> PResult {
    let mut mgr = if c.direct { Target::Direct(Storage::new(), Delta::new()) } else { Target::Mgr(Manager::new()) };
    let mut model = Model { accepted: BTreeMap::new(), newest: None, cur: None };
    let mut st = Stats::default();
    let mut cursor = c.start;
    let mut resets = 0usize;
    let mut since_reset = false;
    for (i, op) in c.ops.iter().enumerate() {
        let m = match op {
            Op::Reset => {
                guard(|| mgr.reset()).map_err(|p| format!("op #{} reset: {}", i, p))?;
                ensure!(mgr.ack_tick().is_none(), "op #{} reset: ack_tick() = {:?} afterwards", i, mgr.ack_tick());
                model.accepted.clear();
                model.newest = None;
                model.cur = None;
                resets += 1;
                since_reset = true;
                continue;
            }
            Op::Msg(m) => m,
        };
        let tick = match m.tick {
            TickSel::Step(d) => cursor.wrapping_add(d),
            TickSel::Abs(t) => t,
        };
        cursor = tick;
        let base = match m.base {
            BaseSel::Empty => -1,
            BaseSel::Newest => model.newest.unwrap_or(-1),
            BaseSel::Accepted(n) => {
                if model.accepted.is_empty() {
                    -1
                } else {
                    *model.accepted.keys().nth(pick(n, model.accepted.len())).unwrap()
                }
            }
            BaseSel::Back(d) => tick.wrapping_sub(d),
            BaseSel::Lit(b) => b,
        };
        let empty = Items::new();
        let from = if base >= 0 { model.accepted.get(&base).unwrap_or(&empty) } else { &empty };
        let (bytes, hostile_body) = body_bytes(&m.body, from, c.table);
        let right = match m.form {
            Form::Empty => 0,
            _ => expected(from, Some(&bytes), c.table).map(|it| crc_of(&it)).unwrap_or(0),
        };
        let crc = match m.crc {
            CrcSel::Right => right,
            CrcSel::Off(d) => right.wrapping_add(d),
            CrcSel::Lit(x) => x,
        };
        let mut complete = |model: &mut Model, st: &mut Stats, what: &str, snap: &Snap, b: i32, body: Option<&[u8]>, cr: Option<i32>, multi: bool| -> Result<(), String> {
            let (n, nonempty_base) = judge(k, model, c.table, !c.direct, what, snap, tick, b, body, cr)?;
            st.handed_out += 1;
            st.nonempty_base += nonempty_base as usize;
            st.multi += multi as usize;
            st.after_reset += since_reset as usize;
            st.near_limit += (n >= 1000) as usize;
            st.hostile_body_handed_out += (hostile_body && body.is_some()) as usize;
            Ok(())
        };
        let form = match (&m.form, c.direct) {
            (Form::Multi { .. }, true) => &Form::Single,
            (f, _) => f,
        };
        match form {
            Form::Empty => {
                let what = format!("op #{} (empty form, tick {}, base {})", i, tick, base);
                match call(&mut mgr, &model, c.table, &what, tick, base, 0, Sent::Empty, &mut st)? {
                    Res::Err(e) => {
                        if !matches!(e, MError::Receiver(_)) {
                            model.cur = None;
                        }
                    }
                    Res::Incomplete => return Err(format!("{}: answered with 'incomplete'", what)),
                    Res::Complete(snap) => {
                        model.cur = None;
                        complete(&mut model, &mut st, &what, &snap, base, None, None, false)?;
                    }
                }
            }
            Form::Single => {
                let what = format!("op #{} (single form, tick {}, base {}, {} body bytes, crc {})", i, tick, base, bytes.len(), crc);
                match call(&mut mgr, &model, c.table, &what, tick, base, crc, Sent::Single(&bytes), &mut st)? {
                    Res::Err(e) => {
                        if !matches!(e, MError::Receiver(_)) {
                            model.cur = None;
                        }
                    }
                    Res::Incomplete => return Err(format!("{}: answered with 'incomplete'", what)),
                    Res::Complete(snap) => {
                        model.cur = None;
                        complete(&mut model, &mut st, &what, &snap, base, Some(&bytes), Some(crc), false)?;
                    }
                }
            }
            Form::Multi { parts, order, dup, hold, lie } => {
                let n = (*parts).clamp(1, 32) as usize;
                let piece = |p: usize| &bytes[p * bytes.len() / n..(p + 1) * bytes.len() / n];
                let mut idx: Vec<usize> = (0..n).collect();
                idx.sort_by_key(|&p| (order.get(p).copied().unwrap_or(p as u16), p));
                if let Some(h) = hold {
                    idx.remove(pick(*h, idx.len()));
                }
                if let (Some(d), false) = (dup, idx.is_empty()) {
                    let at = pick(*d, idx.len());
                    let v = idx[at];
                    idx.insert(at + 1, v);
                }
                for (j, &p) in idx.iter().enumerate() {
                    let mut num_parts = n as i32;
                    if let Some((which, off)) = lie {
                        if pick(*which, idx.len()) == j {
                            num_parts = num_parts.wrapping_add(*off);
                        }
                    }
                    let what = format!("op #{} (multi-part form, tick {}, base {}, part {} of {}, {} of {} body bytes, crc {})", i, tick, base, p, num_parts, piece(p).len(), bytes.len(), crc);
                    let sent = Sent::Part { num_parts, part: p as i32, data: piece(p) };
                    match call(&mut mgr, &model, c.table, &what, tick, base, crc, sent, &mut st)? {
                        Res::Err(e) => {
                            if !matches!(e, MError::Receiver(_)) {
                                // completed inside the receiver, refused behind it
                                model.cur = None;
                            }
                        }
                        Res::Incomplete => {
                            if model.cur.as_ref().map(|cu| cu.0 != tick).unwrap_or(true) {
                                model.cur = Some((tick, base, crc, BTreeMap::new()));
                            }
                            model.cur.as_mut().unwrap().3.entry(p as i32).or_insert_with(|| piece(p).to_vec());
                        }
                        Res::Complete(snap) => {
                            let (b, cr, mut got) = match model.cur.take() {
                                Some((t, b, cr, got)) if t == tick => (b, cr, got),
                                _ => (base, crc, BTreeMap::new()),
                            };
                            got.entry(p as i32).or_insert_with(|| piece(p).to_vec());
                            let body: Vec<u8> = got.values().flatten().copied().collect();
                            complete(&mut model, &mut st, &what, &snap, b, Some(&body), Some(cr), true)?;
                        }
                    }
                }
            }
        }
    }
    let mut o = Outcome::nt(st.handed_out >= 2 && st.nonempty_base >= 1 && !st.errors.is_empty())
        .class_if(st.handed_out > 0, "snapshot_handed_out")
        .class_if(st.handed_out >= 5, "five_or_more_snapshots_handed_out")
        .class_if(st.nonempty_base > 0, "handed_out_against_nonempty_base")
        .class_if(st.multi > 0, "handed_out_from_multi_part_transfer")
        .class_if(st.after_reset > 0, "handed_out_after_reset")
        .class_if(st.near_limit > 0, "handed_out_with_1000_or_more_items")
        .class_if(st.hostile_body_handed_out > 0, "handed_out_from_noncanonical_body")
        .class_if(st.warned > 0, "call_warned")
        .class_if(st.incomplete > 0, "incomplete_transfer_step")
        .class_if(resets > 0, "reset")
        .class_if(c.direct, "storage_driven_directly")
        .class_if(c.direct && st.handed_out > 0, "storage_driven_directly_snapshot_handed_out");
    for (name, _) in &st.errors {
        o = o.class(name);
    }
    Ok(o)
}

pub fn case_strategy(max_ops: usize) -> BoxedStrategy<Case> {
    let tick = prop_oneof![
        8 => Just(TickSel::Step(1)),
        4 => (2i32..6).prop_map(TickSel::Step),
        1 => Just(TickSel::Step(0)),
        1 => (-3i32..0).prop_map(TickSel::Step),
        1 => proptest::sample::select(vec![100i32, 1 << 20, i32::MAX]).prop_map(TickSel::Step),
        1 => word().prop_map(TickSel::Abs),
    ];
    let base = prop_oneof![
        8 => Just(BaseSel::Newest),
        3 => Just(BaseSel::Empty),
        3 => any::<u16>().prop_map(BaseSel::Accepted),
        1 => (0i32..4).prop_map(BaseSel::Back),
        1 => word().prop_map(BaseSel::Lit),
    ];
    let crc = prop_oneof![
        10 => Just(CrcSel::Right),
        1 => proptest::sample::select(vec![1i32, -1, i32::MIN]).prop_map(CrcSel::Off),
        1 => word().prop_map(CrcSel::Lit),
    ];
    let spec = (
        delta_spec_strategy(4),
        prop_oneof![4 => Just(Vec::new()), 1 => muts_strategy(8)],
        prop_oneof![6 => Just(Vec::new()), 1 => byte_muts_strategy()],
    )
        .prop_map(|(delta, muts, bmuts)| Body::Spec { delta, muts, bmuts });
    let fill = (
        proptest::sample::select(vec![22u16, 0x2000, 0x3fff, 5]),
        proptest::sample::select(vec![0u16, 1, 500, 0xff00]),
        prop_oneof![3 => 1u16..40, 2 => 300u16..700, 1 => 1000u16..1030],
        prop_oneof![3 => 0u8..4, 1 => 12u8..20, 1 => 60u8..70],
    )
        .prop_map(|(ty, id0, count, len)| Body::Fill { ty, id0, count, len });
    let body = prop_oneof![8 => spec, 1 => fill];
    let form = prop_oneof![
        1 => Just(Form::Empty),
        5 => Just(Form::Single),
        4 => (
            prop_oneof![6 => 1u8..6, 1 => 6u8..=32],
            proptest::collection::vec(any::<u16>(), 0..8),
            proptest::option::weighted(0.2, any::<u16>()),
            proptest::option::weighted(0.12, any::<u16>()),
            proptest::option::weighted(0.12, (any::<u16>(), prop_oneof![Just(1i32), Just(-1), Just(40), word()])),
        )
            .prop_map(|(parts, order, dup, hold, lie)| Form::Multi { parts, order, dup, hold, lie }),
    ];
    let op = prop_oneof![
        24 => (tick, base, body, crc, form).prop_map(|(tick, base, body, crc, form)| Op::Msg(MsgOp { tick, base, body, crc, form })),
        1 => Just(Op::Reset),
    ];
    (
        proptest::sample::select(vec![0i32, 1, 5, 1000, i32::MAX - 40, -3, i32::MIN]),
        table_strategy(),
        proptest::bool::weighted(0.3),
        proptest::collection::vec(op, 0..=max_ops),
    )
        .prop_map(|(start, table, direct, ops)| Case { start, table, direct, ops })
        .boxed()
}

pub fn run(ctx: &Ctx, k: &Known) {
    let k = *k;
    ctx.prop("manager_hostile_server", ctx.n(40_000, 800_000), || case_strategy(24), move |c: &Case| check_case(&k, c));
}
