//! C08 - variable-length integers and packed fields round-trip canonically.
//!
//! Oracle: an independent encoder/decoder written from doc/int.md.

use crate::util::{hex, within, Canary, Warnings};
use crate::{ensure, ensure_eq, Ctx, Outcome, PResult};
use arrayvec::ArrayVec;
use libtw2_packer::{with_packer, IntUnpacker, Unpacker, Warning};
use proptest::prelude::*;
use serde::{Deserialize, Serialize};
use serde_json::json;

// ---------------------------------------------------------------------------
// Model from doc/int.md

pub fn model_encode(v: i32) -> Vec<u8> {
    let sign = v < 0;
    let mut bits: u32 = if sign { !(v as u32) } else { v as u32 };
    let mut out = vec![((bits & 0x3f) as u8) | if sign { 0x40 } else { 0 }];
    bits >>= 6;
    while bits != 0 {
        *out.last_mut().unwrap() |= 0x80;
        out.push((bits & 0x7f) as u8);
        bits >>= 7;
    }
    out
}

pub fn model_len(v: i32) -> usize {
    let bits: u32 = if v < 0 { !(v as u32) } else { v as u32 };
    let n = 32 - bits.leading_zeros() as usize;
    if n <= 6 {
        1
    } else {
        1 + (n - 6 + 6) / 7
    }
}

/// Ok((value_if_padding_zero, consumed, padding_zero)) or Err(()) when the string ends while an
/// extend flag is set.
pub fn model_decode(b: &[u8]) -> Result<(i32, usize, bool), ()> {
    let first = *b.get(0).ok_or(())?;
    let sign = first & 0x40 != 0;
    let mut bits: u32 = (first & 0x3f) as u32;
    let mut consumed = 1;
    let mut ext = first & 0x80 != 0;
    let mut padding_zero = true;
    let mut shift = 6;
    while ext && consumed < 5 {
        let byte = *b.get(consumed).ok_or(())?;
        consumed += 1;
        if consumed < 5 {
            bits |= ((byte & 0x7f) as u32) << shift;
            ext = byte & 0x80 != 0;
        } else {
            bits |= ((byte & 0x0f) as u32) << shift;
            padding_zero = byte & 0xf0 == 0;
            ext = false;
        }
        shift += 7;
    }
    let v = if sign { !bits } else { bits } as i32;
    Ok((v, consumed, padding_zero))
}

fn lib_encode(v: i32) -> Result<Vec<u8>, String> {
    let mut buf: ArrayVec<[u8; 5]> = ArrayVec::new();
    with_packer(&mut buf, |mut p| p.write_int(v))
        .map_err(|_| format!("write_int({}) reported a capacity error on a 5-byte buffer", v))?;
    Ok(buf.to_vec())
}

fn check_int(v: i32) -> Result<bool, String> {
    let enc = lib_encode(v)?;
    ensure!(
        (1..=5).contains(&enc.len()),
        "write_int({}) produced {} bytes",
        v,
        enc.len()
    );
    let model = model_encode(v);
    ensure_eq!(enc.len(), model_len(v), "write_int({}) is not the shortest encoding", v);
    ensure_eq!(enc, model, "write_int({}) differs from the doc/int.md encoding", v);
    let mut w = Warnings::new();
    let mut u = Unpacker::new(&enc);
    let got = u.read_int(&mut w);
    ensure_eq!(got, Ok(v), "read_int(write_int({})) [{}]", v, hex(&enc));
    ensure!(w.is_empty(), "read_int(write_int({})) warned {:?}", v, w.0);
    ensure!(u.is_empty(), "read_int(write_int({})) left bytes over", v);
    ensure_eq!(u.num_bytes_read(), enc.len(), "num_bytes_read after {}", v);
    Ok(enc.len() >= 2)
}

fn check_decode(b: &[u8]) -> Result<bool, String> {
    let mut w: Vec<Warning> = Vec::new();
    let mut u = Unpacker::new(b);
    let got = u.read_int(&mut w);
    let consumed = u.num_bytes_read();
    match (got, model_decode(b)) {
        (Err(_), Err(())) => Ok(false),
        (Err(_), Ok(m)) => Err(format!(
            "read_int failed on [{}] although the string holds a complete integer {:?}",
            hex(b),
            m
        )),
        (Ok(v), Err(())) => Err(format!(
            "read_int returned {} on [{}] which ends while the extend bit is set",
            v,
            hex(b)
        )),
        (Ok(v), Ok((mv, mc, pz))) => {
            ensure_eq!(consumed, mc, "bytes consumed on [{}]", hex(b));
            if pz {
                ensure_eq!(v, mv, "value decoded from [{}]", hex(b));
            }
            let canonical = pz && model_encode(mv) == b[..mc];
            ensure!(
                canonical == w.is_empty(),
                "[{}]: consumed bytes canonical={} but warnings={:?} (value {})",
                hex(&b[..mc]),
                canonical,
                w,
                v
            );
            Ok(mc >= 2)
        }
    }
}

// ---------------------------------------------------------------------------
// Field sequences

#[derive(Clone, Debug, Hash, Serialize, Deserialize, PartialEq)]
pub enum Field {
    Int(i32),
    Str(Vec<u8>),
    Data(Vec<u8>),
    Raw(Vec<u8>),
    Uuid([u8; 16]),
    Rest(Vec<u8>),
}

#[derive(Clone, Debug, Hash, Serialize, Deserialize)]
pub struct SeqCase {
    pub fields: Vec<Field>,
    pub prefix_len_of_vec: u8,
}

fn int_strategy() -> BoxedStrategy<i32> {
    prop_oneof![
        3 => any::<i32>(),
        2 => -70i32..70,
        2 => (0u32..32, any::<bool>(), -2i32..=2).prop_map(|(s, neg, d)| {
            let b = ((1i64 << s) + d as i64) as i32;
            if neg { b.wrapping_neg() } else { b }
        }),
        1 => prop_oneof![Just(i32::MIN), Just(i32::MAX), Just(0), Just(-1)],
    ]
    .boxed()
}

fn bytes_strategy(max: usize) -> BoxedStrategy<Vec<u8>> {
    prop_oneof![
        3 => proptest::collection::vec(any::<u8>(), 0..=max.min(8)),
        2 => proptest::collection::vec(any::<u8>(), 0..=max),
        1 => (any::<u8>(), 0..=max).prop_map(|(b, n)| vec![b; n]),
    ]
    .boxed()
}

fn field_strategy() -> BoxedStrategy<Field> {
    prop_oneof![
        4 => int_strategy().prop_map(Field::Int),
        2 => bytes_strategy(40).prop_map(|v| Field::Str(v.into_iter().map(|b| if b == 0 { 1 } else { b }).collect())),
        2 => bytes_strategy(70).prop_map(Field::Data),
        2 => bytes_strategy(20).prop_map(Field::Raw),
        1 => any::<[u8; 16]>().prop_map(Field::Uuid),
    ]
    .boxed()
}

fn seq_strategy() -> impl Strategy<Value = SeqCase> {
    (
        proptest::collection::vec(field_strategy(), 0..10),
        proptest::option::weighted(0.3, bytes_strategy(30)),
        0u8..6,
    )
        .prop_map(|(mut fields, rest, p)| {
            if let Some(r) = rest {
                fields.push(Field::Rest(r));
            }
            SeqCase {
                fields,
                prefix_len_of_vec: p,
            }
        })
}

fn model_fields(fields: &[Field]) -> Vec<u8> {
    let mut out = Vec::new();
    for f in fields {
        match f {
            Field::Int(v) => out.extend(model_encode(*v)),
            Field::Str(s) => {
                out.extend_from_slice(s);
                out.push(0);
            }
            Field::Data(d) => {
                out.extend(model_encode(d.len() as i32));
                out.extend_from_slice(d);
            }
            Field::Raw(r) | Field::Rest(r) => out.extend_from_slice(r),
            Field::Uuid(u) => out.extend_from_slice(u),
        }
    }
    out
}

fn write_fields(p: &mut libtw2_packer::Packer, fields: &[Field]) -> Result<(), usize> {
    for (i, f) in fields.iter().enumerate() {
        let r = match f {
            Field::Int(v) => p.write_int(*v),
            Field::Str(s) => p.write_string(s),
            Field::Data(d) => p.write_data(d),
            Field::Raw(r) => p.write_raw(r),
            Field::Uuid(u) => p.write_uuid(uuid::Uuid::from_bytes(*u)),
            Field::Rest(r) => p.write_rest(r),
        };
        if r.is_err() {
            return Err(i);
        }
    }
    Ok(())
}

/// Reads the fields back; returns Err(index of first failing read).
fn read_fields<'a>(
    u: &mut Unpacker<'a>,
    fields: &[Field],
    w: &mut Warnings,
    input: &'a [u8],
) -> Result<Result<Vec<Field>, usize>, String> {
    let range = crate::util::slice_range(input);
    let mut out = Vec::new();
    for (i, f) in fields.iter().enumerate() {
        let got = match f {
            Field::Int(_) => u.read_int(w).map(Field::Int),
            Field::Str(_) => u.read_string().map(|s| {
                (within(s, range), Field::Str(s.to_vec()))
            }).and_then(|(ok, f)| if ok { Ok(f) } else { Ok(Field::Str(b"<outside input>".to_vec())) }),
            Field::Data(_) => u.read_data(w).map(|s| (within(s, range), s.to_vec())).map(|(ok, v)| {
                if ok { Field::Data(v) } else { Field::Data(b"<outside input>".to_vec()) }
            }),
            Field::Raw(r) => u.read_raw(r.len()).map(|s| (within(s, range), s.to_vec())).map(|(ok, v)| {
                if ok { Field::Raw(v) } else { Field::Raw(b"<outside input>".to_vec()) }
            }),
            Field::Uuid(_) => u.read_uuid().map(|x| Field::Uuid(*x.as_bytes())),
            Field::Rest(_) => u.read_rest().map(|s| (within(s, range), s.to_vec())).map(|(ok, v)| {
                if ok { Field::Rest(v) } else { Field::Rest(b"<outside input>".to_vec()) }
            }),
        };
        if u.num_bytes_read() > input.len() {
            return Err(format!("num_bytes_read {} > input length {}", u.num_bytes_read(), input.len()));
        }
        match got {
            Ok(f) => out.push(f),
            Err(_) => return Ok(Err(i)),
        }
    }
    Ok(Ok(out))
}

fn check_seq(c: &SeqCase) -> PResult {
    let fields = &c.fields;
    let expect = model_fields(fields);
    let needed = expect.len();
    // (i) Vec with pre-existing contents and ample capacity
    {
        let prefix: Vec<u8> = (0..c.prefix_len_of_vec).map(|i| 0xE0 | i).collect();
        let mut v = prefix.clone();
        v.reserve(needed + 8);
        let r = with_packer(&mut v, |mut p| write_fields(&mut p, fields).map(|()| p.written().to_vec()));
        match r {
            Ok(written) => ensure_eq!(hex(&written), hex(&expect), "Packer::written() after writing into a Vec"),
            Err(i) => return Err(format!("write of field {} into a Vec with spare capacity {} failed (needed {})", i, needed + 8, needed)),
        }
        ensure_eq!(hex(&v[..prefix.len()]), hex(&prefix), "pre-existing Vec contents");
        ensure_eq!(hex(&v[prefix.len()..]), hex(&expect), "Vec contents after the packer was released");
    }
    // (ii) slices of every capacity 0..=needed+1 inside a canary window
    let mut refused = 0;
    for cap in 0..=needed + 1 {
        let mut can = Canary::new(cap);
        let r = {
            let win = can.window();
            with_packer(win, |mut p| write_fields(&mut p, fields).map(|()| p.written().len()))
        };
        ensure!(can.intact(), "write into a {}-byte slice (needed {}) wrote outside the slice", cap, needed);
        if cap >= needed {
            match r {
                Ok(n) => {
                    ensure_eq!(n, needed, "written length with capacity {}", cap);
                    ensure_eq!(hex(&can.window_ref()[..needed]), hex(&expect), "bytes written with capacity {}", cap);
                }
                Err(i) => return Err(format!("capacity {} >= needed {} but field {} was refused", cap, needed, i)),
            }
        } else {
            ensure!(r.is_err(), "capacity {} < needed {} but all writes succeeded", cap, needed);
            refused += 1;
        }
    }
    // ArrayVec backing store as used by the codecs
    {
        let mut av: ArrayVec<[u8; 2048]> = ArrayVec::new();
        let r = with_packer(&mut av, |mut p| write_fields(&mut p, fields));
        ensure!(r.is_ok(), "write into ArrayVec<2048> failed (needed {})", needed);
        ensure_eq!(hex(&av), hex(&expect), "ArrayVec contents");
    }
    // read back
    {
        let mut w = Warnings::new();
        let mut u = Unpacker::new(&expect);
        let got = read_fields(&mut u, fields, &mut w, &expect)?;
        match got {
            Ok(vals) => ensure_eq!(vals, *fields, "fields read back"),
            Err(i) => return Err(format!("reading field {} of a valid encoding failed", i)),
        }
        ensure_eq!(u.num_bytes_read(), needed, "num_bytes_read after reading everything");
        let mut ex = Warnings::new();
        u.finish(&mut ex);
        ensure!(w.is_empty() && ex.is_empty(), "warnings on a valid encoding: {:?} {:?}", w.0, ex.0);
        let mut u2 = Unpacker::new(&expect);
        let _ = read_fields(&mut u2, fields, &mut Warnings::new(), &expect)?;
        ensure!(u2.read_int(&mut Warnings::new()).is_err(), "read_int past the end succeeded");
        ensure!(u2.read_string().is_err(), "read_string past the end succeeded");
        ensure!(u2.read_data(&mut Warnings::new()).is_err(), "read_data past the end succeeded");
        ensure!(u2.read_raw(1).is_err(), "read_raw(1) past the end succeeded");
    }
    // every strict prefix: never past the prefix, never a panic; a failure unless only
    // zero-length raw/rest fields remain
    for cut in 0..needed {
        let prefix = &expect[..cut];
        let mut w = Warnings::new();
        let mut u = Unpacker::new(prefix);
        let got = read_fields(&mut u, fields, &mut w, prefix)?;
        if let Err(i) = &got {
            // "every read checks the remaining length and poisons the unpacker on error": after the
            // failed read nothing is left to read, so the bytes of the broken field cannot be taken
            // for later fields
            ensure!(
                u.is_empty() && u.as_slice().is_empty(),
                "read of field {} failed on a {}-byte prefix but the unpacker still offers {:?}",
                i,
                cut,
                hex(u.as_slice())
            );
            ensure_eq!(u.num_bytes_read(), cut, "num_bytes_read after the failed read of field {}", i);
            ensure!(u.read_int(&mut Warnings::new()).is_err(), "read_int after the failed read of field {} succeeded", i);
            ensure!(u.read_string().is_err(), "read_string after the failed read of field {} succeeded", i);
            ensure!(u.read_data(&mut Warnings::new()).is_err(), "read_data after the failed read of field {} succeeded", i);
            ensure!(u.read_raw(1).is_err(), "read_raw(1) after the failed read of field {} succeeded", i);
            let mut ex = Warnings::new();
            u.finish(&mut ex);
            ensure!(ex.is_empty(), "finish() after the failed read of field {} reports excess data: {:?}", i, ex.0);
        }
        if let Ok(vals) = got {
            // all reads succeeded on a strict prefix: the values must differ only in trailing
            // raw-like fields (rest takes what is there)
            let total: usize = model_fields(&vals).len();
            ensure!(total <= cut, "prefix of {} bytes yielded fields encoding to {} bytes", cut, total);
            ensure!(
                matches!(fields.last(), Some(Field::Rest(_))),
                "all fields were read from a strict prefix ({} of {} bytes) without a trailing rest field",
                cut,
                needed
            );
        }
    }
    // demo mode
    {
        let mut padded = expect.clone();
        while padded.len() % 4 != 0 {
            padded.push(0);
        }
        let has_rest = matches!(fields.last(), Some(Field::Rest(_)));
        if !has_rest {
            let mut u = Unpacker::new_from_demo(&padded);
            let got = read_fields(&mut u, fields, &mut Warnings::new(), &padded)?;
            ensure!(matches!(got, Ok(ref v) if v == fields), "demo-mode read-back differs");
            let mut ex = Warnings::new();
            u.finish(&mut ex);
            ensure!(ex.is_empty(), "demo-mode finish warned on {} zero padding bytes", padded.len() - needed);
            // four more bytes: must warn
            let mut more = padded.clone();
            more.extend_from_slice(&[0, 0, 0, 0]);
            let mut u = Unpacker::new_from_demo(&more);
            let _ = read_fields(&mut u, fields, &mut Warnings::new(), &more)?;
            let mut ex = Warnings::new();
            u.finish(&mut ex);
            ensure!(!ex.is_empty(), "demo-mode finish silent on >= 4 excess bytes");
            if padded.len() > needed {
                let mut nz = padded.clone();
                *nz.last_mut().unwrap() = 1;
                let mut u = Unpacker::new_from_demo(&nz);
                let _ = read_fields(&mut u, fields, &mut Warnings::new(), &nz)?;
                let mut ex = Warnings::new();
                u.finish(&mut ex);
                ensure!(!ex.is_empty(), "demo-mode finish silent on non-zero padding");
            }
        }
    }
    let kinds: std::collections::BTreeSet<u8> = fields
        .iter()
        .map(|f| match f {
            Field::Int(_) => 0,
            Field::Str(_) => 1,
            Field::Data(_) => 2,
            Field::Raw(_) => 3,
            Field::Uuid(_) => 4,
            Field::Rest(_) => 5,
        })
        .collect();
    Ok(Outcome::nt(fields.len() >= 2 && kinds.len() >= 2)
        .class_if(refused > 0, "capacity_refusals")
        .class_if(kinds.contains(&5), "has_rest")
        .class_if(needed > 100, "over_100_bytes"))
}

#[derive(Clone, Debug, Hash, Serialize, Deserialize)]
pub struct IntsCase {
    pub ints: Vec<i32>,
    pub read: u8,
}

fn check_ints(c: &IntsCase) -> PResult {
    let mut u = IntUnpacker::new(&c.ints);
    let n = (c.read as usize).min(c.ints.len() + 2);
    for i in 0..n {
        let r = u.read_int();
        if i < c.ints.len() {
            ensure_eq!(r.ok(), Some(c.ints[i]), "IntUnpacker::read_int #{}", i);
        } else {
            ensure!(r.is_err(), "IntUnpacker read past the end");
        }
    }
    let mut w = Warnings::new();
    let expect_warn = n < c.ints.len();
    ensure_eq!(u.as_slice().len(), c.ints.len().saturating_sub(n), "IntUnpacker remaining");
    u.finish(&mut w);
    ensure_eq!(!w.is_empty(), expect_warn, "IntUnpacker::finish excess warning");
    Ok(Outcome::nt(c.ints.len() >= 2))
}

// ---------------------------------------------------------------------------

const MIDDLE: [u8; 10] = [0x00, 0x01, 0x3f, 0x40, 0x7f, 0x80, 0x81, 0xbf, 0xc0, 0xff];

fn short_string(idx: u64) -> Vec<u8> {
    // 0: empty; 1..=256: one byte; then two bytes; then three bytes
    if idx == 0 {
        vec![]
    } else if idx < 1 + 256 {
        vec![(idx - 1) as u8]
    } else if idx < 1 + 256 + 65536 {
        let i = idx - 257;
        vec![(i >> 8) as u8, i as u8]
    } else {
        let i = idx - 257 - 65536;
        vec![(i >> 16) as u8, (i >> 8) as u8, i as u8]
    }
}

fn long_string(idx: u64) -> Vec<u8> {
    // first/last byte exhaustive, middle bytes from MIDDLE; 100 combos of length 4, 1000 of length 5
    let fl = idx & 0xffff;
    let m = (idx >> 16) as usize;
    let (first, last) = ((fl >> 8) as u8, fl as u8);
    if m < 100 {
        vec![first, MIDDLE[m / 10], MIDDLE[m % 10], last]
    } else {
        let m = m - 100;
        vec![first, MIDDLE[m / 100], MIDDLE[(m / 10) % 10], MIDDLE[m % 10], last]
    }
}

fn quick_int(idx: u64, seed: u64) -> i32 {
    const A: u64 = 1 << 22;
    const CENTERS: [i64; 14] = [
        i32::MIN as i64,
        i32::MAX as i64,
        1 << 27,
        -(1 << 27),
        1 << 20,
        -(1 << 20),
        1 << 13,
        -(1 << 13),
        1 << 6,
        -(1 << 6),
        1 << 30,
        -(1 << 30),
        1 << 24,
        -(1 << 24),
    ];
    const B: u64 = 14 * 8192;
    if idx < A {
        (idx as i64 - (1 << 21)) as i32
    } else if idx < A + B {
        let i = idx - A;
        let c = CENTERS[(i / 8192) as usize];
        (c + (i % 8192) as i64 - 4096) as i32
    } else {
        // stratified: one value out of each block of 1024 consecutive integers
        let i = idx - A - B;
        let off = crate::mix_seed(seed, "C08", "strat", i) & 1023;
        (((i << 10) | off) as u32) as i32
    }
}

pub fn run(ctx: &Ctx) {
    ctx.set_rule(
        "integers: every value enumerated (non-trivial = needs >= 2 bytes); decoder: every byte string of length 0..3 and the \
         first/last-exhaustive x boundary-middle strings of length 4/5 (non-trivial = accepted and consumed >= 2 bytes); \
         sequences: proptest-generated lists of int/string/data/raw/uuid/rest fields written into a Vec, an ArrayVec and a slice \
         of every capacity 0..=needed+1, read back, every strict prefix read (non-trivial = >= 2 fields of >= 2 kinds, distinct by case hash)",
    );
    ctx.assume("oracle is an independent encoder/decoder written from doc/int.md");
    let seed = ctx.seed;
    if ctx.quick() {
        let total = (1u64 << 22) + 14 * 8192 + (1 << 22);
        ctx.sweep(
            "int_roundtrip",
            total,
            false,
            |i| check_int(quick_int(i, seed)),
            |i| json!(quick_int(i, seed)),
        );
    } else {
        ctx.exhaustive(
            "int_roundtrip",
            1u64 << 32,
            |i| check_int(i as u32 as i32),
            |i| json!(i as u32 as i32),
        );
    }
    ctx.exhaustive(
        "int_decode_len0_3",
        1 + 256 + 65536 + (1 << 24),
        |i| check_decode(&short_string(i)),
        |i| json!(hex(&short_string(i))),
    );
    ctx.exhaustive(
        "int_decode_len4_5",
        65536 * 1100,
        |i| check_decode(&long_string(i)),
        |i| json!(hex(&long_string(i))),
    );
    ctx.prop("int_decode_random", ctx.n(200_000, 5_000_000), || proptest::collection::vec(any::<u8>(), 0..8), |b: &Vec<u8>| {
        check_decode(b).map(Outcome::nt)
    });
    ctx.prop("sequences", ctx.n(6_000, 300_000), seq_strategy, check_seq);
    ctx.prop(
        "int_sequences",
        ctx.n(5_000, 100_000),
        || (proptest::collection::vec(int_strategy(), 0..20), 0u8..24).prop_map(|(ints, read)| IntsCase { ints, read }),
        check_ints,
    );
}
