//! C07 - Huffman codec is lossless, bounded and agrees with the reference.
//!
//! Oracles:
//!  * round trip `decompress(compress(x)) == x` for the compact and the reference-compatible form,
//!    into `Vec`s, `ArrayVec`s and slices of chosen capacities inside canary windows;
//!  * `compressed_len` / `compressed_len_bug` equal the produced lengths;
//!  * an independent bit-level model written from doc/huffman.md (code table = the appendix of
//!    that document for the built-in table, `Huffman::repr()` - validated to be a complete
//!    prefix-free code - for generated tables);
//!  * differential against the bundled C++ implementation (`libtw2_huffman_reference`):
//!    `compress_bug` byte-identical; reference decoder accepts => ours returns the same bytes
//!    for the same capacity (one direction only, as the property states);
//!  * decoder on arbitrary input: no panic, nothing written outside the window, an `Ok` result is
//!    exactly the unique decoding of the zero-extended bit stream up to the EOF symbol and fits
//!    the capacity (so overflow and garbage can only come back as `Err`).
//!
//! The `pub fn check_*` functions take plain byte slices so that a fuzz target can call them.

use crate::util::{hex, Canary};
use crate::{ensure, ensure_eq, guard_s, pick, Ctx, Outcome, PResult};
use arrayvec::ArrayVec;
use libtw2_huffman::{DecompressionError, Huffman};
use libtw2_huffman_reference::Huffman as RefHuffman;
use proptest::prelude::*;
use serde::{Deserialize, Serialize};
use serde_json::json;
use std::sync::OnceLock;

const FREQUENCIES_TXT: &str = include_str!("/repo/huffman/data/frequencies");
const DOC_TXT: &str = include_str!("/repo/doc/huffman.md");

pub const EOF: usize = 256;
pub const NUM_SYMBOLS: usize = 257;
/// The library's documented representation limit (24-bit codes, 24-entry traversal stack).
pub const MAX_DEPTH: u32 = 24;

// ---------------------------------------------------------------------------
// Tables and the bit-level model

#[derive(Clone, Copy, Debug, PartialEq, Eq)]
pub struct Code {
    /// bit i (LSB first) is the i-th bit of the code in stream order
    pub bits: u32,
    pub len: u32,
}

const MISSING: i32 = i32::MIN;

/// Compares two byte strings; renders them only on failure (the inputs reach 8 KiB).
macro_rules! ensure_bytes {
    ($a:expr, $b:expr, $($arg:tt)*) => {{
        let (a, b): (&[u8], &[u8]) = (&$a[..], &$b[..]);
        if a != b {
            let at = a.iter().zip(b.iter()).position(|(x, y)| x != y).unwrap_or(a.len().min(b.len()));
            let from = at.saturating_sub(8);
            return Err(format!(
                "{}: lengths {} / {}, first difference at byte {}: left[{}..]=[{}] right[{}..]=[{}]",
                format!($($arg)*),
                a.len(),
                b.len(),
                at,
                from,
                hex_short(&a[from.min(a.len())..]),
                from,
                hex_short(&b[from.min(b.len())..])
            ));
        }
    }};
}

pub struct Table {
    pub lib: Huffman,
    pub reference: Option<RefHuffman>,
    pub codes: Vec<Code>,
    /// node 0 is the root; child >= 0: inner node index, child < 0: leaf -(symbol + 1)
    trie: Vec<[i32; 2]>,
    pub builtin: bool,
}

fn codes_of(h: &Huffman) -> Result<Vec<Code>, String> {
    let mut out = Vec::with_capacity(NUM_SYMBOLS);
    for (i, r) in h.repr().into_iter().enumerate() {
        let len = r.num_bits();
        ensure!(
            (1..=MAX_DEPTH).contains(&len),
            "symbol {} has a code of {} bits (expected 1..=24)",
            i,
            len
        );
        let mut bits = 0u32;
        for k in 0..len {
            if r.bit(k) {
                bits |= 1 << k;
            }
        }
        out.push(Code { bits, len });
    }
    ensure_eq!(out.len(), NUM_SYMBOLS, "number of symbols in Huffman::repr()");
    Ok(out)
}

/// Builds the decoding trie; fails unless the codes form a complete prefix-free code.
fn build_trie(codes: &[Code]) -> Result<Vec<[i32; 2]>, String> {
    let mut trie: Vec<[i32; 2]> = vec![[MISSING; 2]];
    for (sym, c) in codes.iter().enumerate() {
        let mut node = 0usize;
        for k in 0..c.len {
            let bit = ((c.bits >> k) & 1) as usize;
            let last = k + 1 == c.len;
            let child = trie[node][bit];
            if last {
                ensure!(
                    child == MISSING,
                    "code of symbol {} is a prefix of / equal to another symbol's code",
                    sym
                );
                trie[node][bit] = -(sym as i32 + 1);
            } else if child == MISSING {
                trie.push([MISSING; 2]);
                let idx = trie.len() - 1;
                trie[node][bit] = idx as i32;
                node = idx;
            } else {
                ensure!(child >= 0, "another symbol's code is a prefix of the code of symbol {}", sym);
                node = child as usize;
            }
        }
    }
    for (i, n) in trie.iter().enumerate() {
        ensure!(
            n[0] != MISSING && n[1] != MISSING,
            "code is not complete: trie node {} lacks a child (some bit strings decode to nothing)",
            i
        );
    }
    Ok(trie)
}

impl Table {
    pub fn new(lib: Huffman, reference: Option<RefHuffman>, builtin: bool) -> Result<Table, String> {
        let codes = codes_of(&lib)?;
        let trie = build_trie(&codes)?;
        Ok(Table {
            lib,
            reference,
            codes,
            trie,
            builtin,
        })
    }
    pub fn max_len(&self) -> u32 {
        self.codes.iter().map(|c| c.len).max().unwrap_or(0)
    }
}

pub fn builtin_frequencies() -> &'static [u32] {
    static F: OnceLock<Vec<u32>> = OnceLock::new();
    F.get_or_init(|| {
        let v: Vec<u32> = FREQUENCIES_TXT
            .lines()
            .filter(|l| !l.trim().is_empty())
            .map(|l| l.trim().parse().expect("huffman/data/frequencies: not a number"))
            .collect();
        assert_eq!(v.len(), 256, "huffman/data/frequencies must hold 256 lines");
        v
    })
}

/// The code table printed in the appendix of doc/huffman.md, index 256 = EOF.
pub fn doc_codes() -> &'static [Code] {
    static D: OnceLock<Vec<Code>> = OnceLock::new();
    D.get_or_init(|| {
        let mut out: Vec<Option<Code>> = vec![None; NUM_SYMBOLS];
        let appendix = DOC_TXT.split("Appendix").nth(1).expect("doc/huffman.md has no Appendix");
        for line in appendix.lines() {
            let Some((name, code)) = line.trim().split_once(": ") else {
                continue;
            };
            let sym = if name == "EOF" {
                EOF
            } else if name.len() == 2 {
                match usize::from_str_radix(name, 16) {
                    Ok(s) => s,
                    Err(_) => continue,
                }
            } else {
                continue;
            };
            if code.is_empty() || !code.bytes().all(|b| b == b'0' || b == b'1') {
                continue;
            }
            let mut bits = 0u32;
            for (k, b) in code.bytes().enumerate() {
                if b == b'1' {
                    bits |= 1 << k;
                }
            }
            out[sym] = Some(Code {
                bits,
                len: code.len() as u32,
            });
        }
        out.into_iter()
            .enumerate()
            .map(|(i, c)| c.unwrap_or_else(|| panic!("doc/huffman.md appendix lacks symbol {}", i)))
            .collect()
    })
}

/// The built-in table (`instances::TEEWORLDS`) with the C++ reference initialised from
/// huffman/data/frequencies.
pub fn builtin() -> &'static Table {
    static T: OnceLock<Table> = OnceLock::new();
    T.get_or_init(|| {
        let reference = RefHuffman::from_frequencies(builtin_frequencies());
        Table::new(libtw2_huffman::instances::TEEWORLDS, Some(reference), true)
            .expect("built-in table is not a complete prefix code")
    })
}

/// Code lengths produced by "repeatedly merge the two rarest nodes" with the reference's tie
/// breaking (stable descending sort, the merged node goes to the end of the list). Used as the
/// generator precondition (depth <= 24) - index 256 is EOF (frequency 1).
pub fn model_code_lengths(freqs: &[u32]) -> Vec<u32> {
    assert_eq!(freqs.len(), 256);
    let mut list: Vec<(u64, usize)> = freqs.iter().map(|&f| f as u64).zip(0..).collect();
    list.push((1, EOF));
    let mut parent = vec![usize::MAX; 2 * NUM_SYMBOLS - 1];
    let mut next = NUM_SYMBOLS;
    while list.len() > 1 {
        list.sort_by(|a, b| b.0.cmp(&a.0));
        let a = list.pop().unwrap();
        let b = list.pop().unwrap();
        parent[a.1] = next;
        parent[b.1] = next;
        list.push(((a.0 + b.0).min(u32::MAX as u64), next));
        next += 1;
    }
    (0..NUM_SYMBOLS)
        .map(|s| {
            let (mut d, mut n) = (0, s);
            while parent[n] != usize::MAX {
                n = parent[n];
                d += 1;
            }
            d
        })
        .collect()
}

pub fn model_bit_len(t: &Table, x: &[u8]) -> usize {
    x.iter().map(|&b| t.codes[b as usize].len as usize).sum::<usize>() + t.codes[EOF].len as usize
}

/// doc/huffman.md: substitute, append EOF, pad with zero bits, first bit = least significant.
pub fn model_encode(t: &Table, x: &[u8]) -> Vec<u8> {
    let mut out = Vec::with_capacity(model_bit_len(t, x) / 8 + 1);
    let (mut acc, mut n) = (0u64, 0u32);
    for s in x.iter().map(|&b| b as usize).chain(Some(EOF)) {
        let c = t.codes[s];
        acc |= (c.bits as u64) << n;
        n += c.len;
        while n >= 8 {
            out.push(acc as u8);
            acc >>= 8;
            n -= 8;
        }
    }
    if n > 0 {
        out.push(acc as u8);
    }
    out
}

#[derive(Debug, Clone)]
pub struct ModelDecode {
    /// symbols decoded before EOF (or before giving up)
    pub bytes: Vec<u8>,
    /// EOF symbol reached
    pub eof: bool,
    /// bits of the zero-extended stream consumed, including the EOF code
    pub bits_used: usize,
}

/// Decodes the zero-extended bit stream until EOF; gives up (eof = false) once more than
/// `limit` bytes were produced.
pub fn model_decode(t: &Table, input: &[u8], limit: usize) -> ModelDecode {
    let mut bytes = Vec::new();
    let mut node = 0usize;
    let mut pos = 0usize;
    let total_bits = input.len() * 8;
    loop {
        let bit = if pos < total_bits {
            ((input[pos >> 3] >> (pos & 7)) & 1) as usize
        } else {
            0
        };
        pos += 1;
        let child = t.trie[node][bit];
        if child >= 0 {
            node = child as usize;
            continue;
        }
        let sym = (-(child + 1)) as usize;
        if sym == EOF {
            return ModelDecode {
                bytes,
                eof: true,
                bits_used: pos,
            };
        }
        bytes.push(sym as u8);
        node = 0;
        if bytes.len() > limit {
            return ModelDecode {
                bytes,
                eof: false,
                bits_used: pos,
            };
        }
    }
}

// ---------------------------------------------------------------------------
// Observing the library

#[derive(Debug, Clone, Copy, PartialEq, Eq)]
pub enum ErrKind {
    Capacity,
    Invalid,
}

fn slice_start(can: &Canary) -> usize {
    can.range().0
}

/// `compress` / `compress_bug` into a slice of exactly `cap` bytes inside a canary window.
fn compress_slice(t: &Table, x: &[u8], bug: bool, cap: usize) -> Result<Result<Vec<u8>, ()>, String> {
    let what = if bug { "compress_bug" } else { "compress" };
    let mut can = Canary::new(cap);
    let start = slice_start(&can);
    let r = {
        let win = can.window();
        let r = if bug { t.lib.compress_bug(x, win) } else { t.lib.compress(x, win) };
        r.map(|s| (s.as_ptr() as usize, s.to_vec()))
    };
    ensure!(
        can.intact(),
        "{} of {} bytes into a {}-byte slice wrote outside the slice",
        what,
        x.len(),
        cap
    );
    match r {
        Ok((p, v)) => {
            ensure!(v.len() <= cap, "{} returned {} bytes from a {}-byte slice", what, v.len(), cap);
            ensure!(v.is_empty() || p == start, "{} returned a slice that does not start at the buffer start", what);
            ensure_bytes!(&can.window_ref()[..v.len()], &v, "{}: buffer contents vs returned slice", what);
            Ok(Ok(v))
        }
        Err(_) => Ok(Err(())),
    }
}

/// `decompress` into a slice of exactly `cap` bytes inside a canary window.
fn decode_slice(t: &Table, input: &[u8], cap: usize) -> Result<Result<Vec<u8>, ErrKind>, String> {
    let mut can = Canary::new(cap);
    let start = slice_start(&can);
    let r = guard_s("decompress", || {
        let win = can.window();
        match t.lib.decompress(input, win) {
            Ok(s) => Ok((s.as_ptr() as usize, s.to_vec())),
            Err(DecompressionError::Capacity(_)) => Err(ErrKind::Capacity),
            Err(DecompressionError::InvalidInput) => Err(ErrKind::Invalid),
        }
    })
    .map_err(|e| format!("input [{}] capacity {}: {}", hex_short(input), cap, e))?;
    ensure!(
        can.intact(),
        "decompress of [{}] into a {}-byte slice wrote outside the slice",
        hex_short(input),
        cap
    );
    match r {
        Ok((p, v)) => {
            ensure!(
                v.len() <= cap,
                "decompress of [{}] returned {} bytes from a {}-byte slice",
                hex_short(input),
                v.len(),
                cap
            );
            ensure!(v.is_empty() || p == start, "decompress returned a slice that does not start at the buffer start");
            ensure_bytes!(&can.window_ref()[..v.len()], &v, "decompress: buffer contents vs returned slice");
            Ok(Ok(v))
        }
        Err(k) => Ok(Err(k)),
    }
}

fn ref_decode(r: &RefHuffman, input: &[u8], cap: usize) -> Option<Vec<u8>> {
    let mut buf = vec![0u8; cap];
    r.decompress(input, &mut buf[..]).ok().map(|s| s.to_vec())
}

fn ref_compress(r: &RefHuffman, x: &[u8], room: usize) -> Option<Vec<u8>> {
    // the reference reports "exactly full" as an error, so it always gets spare room
    let mut buf = vec![0u8; room];
    r.compress(x, &mut buf[..]).ok().map(|s| s.to_vec())
}

fn hex_short(b: &[u8]) -> String {
    if b.len() <= 48 {
        hex(b)
    } else {
        format!("{}..({} bytes)", hex(&b[..48]), b.len())
    }
}

// ---------------------------------------------------------------------------
// Compressor oracle

#[derive(Debug, Default, Clone)]
pub struct CompressInfo {
    pub bit_len: usize,
    pub compact_len: usize,
    pub bug_len: usize,
    pub extra_byte: bool,
    pub capacity_refusals: u32,
}

/// Everything the property says about compressing `x` with table `t`.
/// `all_caps`: try every slice capacity 0..=needed+2 instead of the boundary capacities.
pub fn check_compress_with(t: &Table, x: &[u8], all_caps: bool) -> Result<CompressInfo, String> {
    let bits = model_bit_len(t, x);
    let model = model_encode(t, x);
    // outputs into Vecs
    let compact = t.lib.compress_into_vec(x);
    let mut bugv: Vec<u8> = Vec::with_capacity(bits / 8 + 9);
    let bug = t
        .lib
        .compress_bug(x, &mut bugv)
        .map_err(|_| format!("compress_bug of {} bytes refused a Vec with {} spare bytes", x.len(), bits / 8 + 9))?
        .to_vec();
    ensure_bytes!(&bugv, &bug, "compress_bug: Vec contents vs returned slice");
    // (2) predicted lengths are exact
    ensure_eq!(t.lib.compressed_len(x), compact.len(), "compressed_len vs compress().len() for [{}]", hex_short(x));
    ensure_eq!(
        t.lib.compressed_len_bug(x),
        bug.len(),
        "compressed_len_bug vs compress_bug().len() for [{}]",
        hex_short(x)
    );
    // doc/huffman.md: the two forms differ only by the reference's extra zero byte when the bit
    // stream fills its last byte exactly
    let extra = bits % 8 == 0;
    ensure_bytes!(&compact, &model, "compress([{}]) vs the doc/huffman.md model", hex_short(x));
    let mut expect_bug = model.clone();
    if extra {
        expect_bug.push(0);
    }
    ensure_bytes!(&bug, &expect_bug,
        "compress_bug([{}]) vs the doc/huffman.md model (extra byte: {})",
        hex_short(x),
        extra
    );
    // (3) the reference-compatible form is byte-identical to the C++ output
    if let Some(r) = &t.reference {
        match ref_compress(r, x, bug.len() + 8) {
            Some(rc) => ensure_bytes!(&bug, &rc, "compress_bug([{}]) vs the C++ reference", hex_short(x)),
            None => return Err(format!("C++ reference refused to compress {} bytes into {} bytes", x.len(), bug.len() + 8)),
        }
    }
    if t.builtin {
        ensure_bytes!(&libtw2_huffman::compress(x), &compact, "huffman::compress vs TEEWORLDS.compress_into_vec");
        let mut v = Vec::with_capacity(compact.len());
        let n = v.capacity();
        match libtw2_huffman::compress_into(x, &mut v) {
            Ok(s) => ensure_bytes!(s, &compact, "huffman::compress_into"),
            Err(_) => return Err(format!("huffman::compress_into refused a Vec with {} spare bytes, {} needed", n, compact.len())),
        }
    }
    // (1) lossless, both forms, Vec output
    for (name, stream) in [("compress", &compact), ("compress_bug", &bug)] {
        match t.lib.decompress_into_vec(stream) {
            Ok(d) => ensure_bytes!(&d, x, "decompress_into_vec({}(x)) != x, stream [{}]", name, hex_short(stream)),
            Err(_) => {
                return Err(format!(
                    "decompress_into_vec rejects the output of {} for [{}] (stream [{}])",
                    name,
                    hex_short(x),
                    hex_short(stream)
                ))
            }
        }
        if t.builtin {
            match libtw2_huffman::decompress(stream) {
                Ok(d) => ensure_bytes!(&d, x, "huffman::decompress({}(x)) != x", name),
                Err(_) => return Err(format!("huffman::decompress rejects the output of {} for [{}]", name, hex_short(x))),
            }
        }
        // Vec with pre-existing contents: appended, prefix untouched
        let prefix = [0xE1u8, 0xE2, 0xE3];
        let mut v = Vec::with_capacity(prefix.len() + x.len() + 5);
        v.extend_from_slice(&prefix);
        match t.lib.decompress(stream, &mut v) {
            Ok(s) => ensure_bytes!(s, x, "decompress({}(x)) into a Vec: returned slice", name),
            Err(e) => return Err(format!("decompress({}(x)) into a Vec with spare capacity >= len+5 failed: {:?}", name, e)),
        }
        ensure_bytes!(&v[..3], &prefix, "decompress into a Vec changed the existing contents");
        ensure_bytes!(&v[3..], x, "decompress({}(x)) into a Vec: appended bytes", name);
        // ArrayVec, the buffer type the net crate decompresses into
        if x.len() <= 2048 {
            let mut av: ArrayVec<[u8; 2048]> = ArrayVec::new();
            match t.lib.decompress(stream, &mut av) {
                Ok(s) => ensure_bytes!(s, x, "decompress({}(x)) into an ArrayVec", name),
                Err(e) => return Err(format!("decompress({}(x)) into ArrayVec<2048> failed: {:?}", name, e)),
            }
            ensure_bytes!(&av, x, "ArrayVec contents after decompress({}(x))", name);
        }
    }
    // fixed-capacity slices, decoding side
    let mut refusals = 0;
    let dec_caps: Vec<usize> = if all_caps {
        (0..=x.len() + 2).collect()
    } else {
        let mut c = vec![0, x.len().saturating_sub(1), x.len(), x.len() + 1];
        c.dedup();
        c
    };
    for (name, stream) in [("compress", &compact), ("compress_bug", &bug)] {
        for &cap in &dec_caps {
            let r = decode_slice(t, stream, cap)?;
            if cap >= x.len() {
                match r {
                    Ok(d) => ensure_bytes!(&d, x, "decompress({}(x)) into a {}-byte slice", name, cap),
                    Err(k) => {
                        return Err(format!(
                            "decompress({}(x)) into a {}-byte slice failed ({:?}) although x has {} bytes",
                            name,
                            cap,
                            k,
                            x.len()
                        ))
                    }
                }
            } else {
                ensure!(
                    r.is_err(),
                    "decompress({}(x)) into a {}-byte slice returned Ok although x has {} bytes",
                    name,
                    cap,
                    x.len()
                );
                refusals += 1;
            }
        }
    }
    // fixed-capacity slices, encoding side: succeeds exactly when the predicted length fits
    for (is_bug, out) in [(false, &compact), (true, &bug)] {
        let need = out.len();
        let caps: Vec<usize> = if all_caps {
            (0..=need + 2).collect()
        } else {
            let mut c = vec![0, need.saturating_sub(1), need, need + 1];
            c.dedup();
            c
        };
        for cap in caps {
            let r = compress_slice(t, x, is_bug, cap)?;
            if cap >= need {
                match r {
                    Ok(v) => ensure_bytes!(&v, out, "compress (bug={}) into a {}-byte slice", is_bug, cap),
                    Err(()) => {
                        return Err(format!(
                            "compress (bug={}) of [{}] refused a {}-byte slice although the predicted length is {}",
                            is_bug,
                            hex_short(x),
                            cap,
                            need
                        ))
                    }
                }
            } else {
                ensure!(
                    r.is_err(),
                    "compress (bug={}) of [{}] into a {}-byte slice returned Ok although {} bytes are needed",
                    is_bug,
                    hex_short(x),
                    cap,
                    need
                );
                refusals += 1;
            }
        }
    }
    Ok(CompressInfo {
        bit_len: bits,
        compact_len: compact.len(),
        bug_len: bug.len(),
        extra_byte: extra,
        capacity_refusals: refusals,
    })
}

/// Compressor oracle for the built-in table (fuzz-target entry point).
pub fn check_compress(x: &[u8]) -> Result<CompressInfo, String> {
    check_compress_with(builtin(), x, x.len() <= 16)
}

// ---------------------------------------------------------------------------
// Decoder oracle

#[derive(Debug, Default, Clone)]
pub struct DecodeInfo {
    pub evaluations: u32,
    pub ours_ok: u32,
    pub err_capacity: u32,
    pub err_invalid: u32,
    pub ref_accepts: u32,
    pub ref_rejects: u32,
    /// zero-extended decoding reaches EOF within the capacity but the reference rejects
    pub model_ok_ref_err: u32,
    /// ours accepts, reference rejects (allowed: the property is one-directional)
    pub ours_ok_ref_err: u32,
    /// the stream reaches EOF only thanks to the zero extension
    pub eof_in_zero_extension: u32,
    /// ... and the reference accepts it too (EOF resolved with < 10 real bits left)
    pub ref_accepts_zero_extension: u32,
    /// the zero-extended stream never reaches EOF within 8 x input + slack bytes
    pub runaway: bool,
    /// same, for the first (untruncated) input of a case
    pub runaway_full: bool,
}

impl DecodeInfo {
    fn add(&mut self, o: &DecodeInfo) {
        self.evaluations += o.evaluations;
        self.ours_ok += o.ours_ok;
        self.err_capacity += o.err_capacity;
        self.err_invalid += o.err_invalid;
        self.ref_accepts += o.ref_accepts;
        self.ref_rejects += o.ref_rejects;
        self.model_ok_ref_err += o.model_ok_ref_err;
        self.ours_ok_ref_err += o.ours_ok_ref_err;
        self.eof_in_zero_extension += o.eof_in_zero_extension;
        self.ref_accepts_zero_extension += o.ref_accepts_zero_extension;
        self.runaway |= o.runaway;
    }
}

fn check_decode_one(t: &Table, input: &[u8], cap: usize, m: &ModelDecode, info: &mut DecodeInfo) -> Result<(), String> {
    let ours = decode_slice(t, input, cap)?;
    info.evaluations += 1;
    // An Ok result must be the unique decoding of the zero-extended stream up to EOF.
    match &ours {
        Ok(out) => {
            info.ours_ok += 1;
            ensure!(
                m.eof && m.bytes.len() <= cap && *out == m.bytes,
                "decompress of [{}] with capacity {} returned Ok([{}]) but the bit stream {} (overflow/garbage must be an error)",
                hex_short(input),
                cap,
                hex_short(out),
                if m.eof {
                    format!("decodes to the {} bytes [{}] before EOF", m.bytes.len(), hex_short(&m.bytes))
                } else {
                    format!("yields more than {} bytes without reaching EOF", m.bytes.len() - 1)
                }
            );
            if m.bits_used > input.len() * 8 {
                info.eof_in_zero_extension += 1;
            }
        }
        Err(ErrKind::Capacity) => info.err_capacity += 1,
        Err(ErrKind::Invalid) => info.err_invalid += 1,
    }
    if let Some(r) = &t.reference {
        match ref_decode(r, input, cap) {
            Some(rb) => {
                info.ref_accepts += 1;
                if m.eof && m.bits_used > input.len() * 8 {
                    info.ref_accepts_zero_extension += 1;
                }
                match &ours {
                    Ok(out) => ensure_bytes!(out, &rb,
                        "decompress of [{}] with capacity {} differs from the C++ reference",
                        hex_short(input),
                        cap
                    ),
                    Err(k) => {
                        return Err(format!(
                            "decompress of [{}] with capacity {} fails ({:?}) but the C++ reference decodes it to the {} bytes [{}]",
                            hex_short(input),
                            cap,
                            k,
                            rb.len(),
                            hex_short(&rb)
                        ))
                    }
                }
            }
            None => {
                info.ref_rejects += 1;
                if ours.is_ok() {
                    info.ours_ok_ref_err += 1;
                }
                if m.eof && m.bytes.len() <= cap {
                    info.model_ok_ref_err += 1;
                }
            }
        }
    }
    Ok(())
}

/// `decompress_into_vec` (capacity 8 x input).
fn check_decode_vec_with(t: &Table, input: &[u8], m: &ModelDecode, info: &mut DecodeInfo) -> Result<(), String> {
    let bound = input.len() * 8;
    let r = guard_s("decompress_into_vec", || t.lib.decompress_into_vec(input).ok())
        .map_err(|e| format!("input [{}]: {}", hex_short(input), e))?;
    info.evaluations += 1;
    if t.builtin {
        let top = guard_s("huffman::decompress", || libtw2_huffman::decompress(input).ok())
            .map_err(|e| format!("input [{}]: {}", hex_short(input), e))?;
        ensure_eq!(top, r, "huffman::decompress vs TEEWORLDS.decompress_into_vec on [{}]", hex_short(input));
    }
    match &r {
        Some(out) => {
            info.ours_ok += 1;
            ensure!(
                out.len() <= bound,
                "decompress_into_vec of {} input bytes returned {} bytes (> 8 x input)",
                input.len(),
                out.len()
            );
            ensure!(
                m.eof && *out == m.bytes,
                "decompress_into_vec of [{}] returned Ok([{}]) which is not the decoding of the bit stream up to EOF",
                hex_short(input),
                hex_short(out)
            );
        }
        None => info.err_invalid += 1,
    }
    if let Some(rf) = &t.reference {
        if let Some(rb) = ref_decode(rf, input, bound) {
            info.ref_accepts += 1;
            match &r {
                Some(out) => ensure_bytes!(out, &rb, "decompress_into_vec of [{}] differs from the C++ reference", hex_short(input)),
                None => {
                    return Err(format!(
                        "decompress_into_vec of [{}] fails but the C++ reference (capacity 8 x input = {}) decodes it to {} bytes",
                        hex_short(input),
                        bound,
                        rb.len()
                    ))
                }
            }
        } else {
            info.ref_rejects += 1;
        }
    }
    Ok(())
}

/// Decoder oracle for one input against a list of capacities (plus the Vec form).
/// `extra_cap`: an additional caller-chosen capacity; `all_caps`: every capacity 0..=n+2 where n
/// is the number of bytes before EOF.
pub fn check_decode_with(t: &Table, input: &[u8], extra_cap: Option<usize>, all_caps: bool) -> Result<DecodeInfo, String> {
    let bound = input.len() * 8;
    let limit = bound + 64 + extra_cap.unwrap_or(0);
    let m = model_decode(t, input, limit);
    let mut caps: Vec<usize> = vec![0, bound];
    if let Some(c) = extra_cap {
        caps.push(c);
    }
    if m.eof {
        let n = m.bytes.len();
        if all_caps && n <= 40 {
            caps.extend(0..=n + 2);
        } else {
            caps.extend([n.saturating_sub(1), n, n + 1]);
        }
    } else {
        caps.extend([1, bound + 1]);
    }
    caps.sort();
    caps.dedup();
    let mut info = DecodeInfo::default();
    info.runaway = !m.eof;
    for cap in caps {
        check_decode_one(t, input, cap, &m, &mut info)?;
    }
    check_decode_vec_with(t, input, &m, &mut info)?;
    Ok(info)
}

/// Decoder oracle for the built-in table: one input, one capacity (fuzz-target entry point).
pub fn check_decode(input: &[u8], capacity: usize) -> Result<DecodeInfo, String> {
    let t = builtin();
    let m = model_decode(t, input, input.len() * 8 + capacity);
    let mut info = DecodeInfo::default();
    info.runaway = !m.eof;
    check_decode_one(t, input, capacity, &m, &mut info)?;
    Ok(info)
}

/// Decoder oracle for the built-in table: `decompress` into a fresh Vec (fuzz-target entry point).
pub fn check_decode_vec(input: &[u8]) -> Result<DecodeInfo, String> {
    let t = builtin();
    let m = model_decode(t, input, input.len() * 8);
    let mut info = DecodeInfo::default();
    info.runaway = !m.eof;
    check_decode_vec_with(t, input, &m, &mut info)?;
    Ok(info)
}

/// Is `stream` exactly what the compressor emits (either form) for the data it decodes to?
fn is_verbatim(t: &Table, stream: &[u8]) -> bool {
    let m = model_decode(t, stream, stream.len() * 8 + 1);
    if !m.eof {
        return false;
    }
    let mut e = model_encode(t, &m.bytes);
    if e == stream {
        return true;
    }
    e.push(0);
    e == stream && model_bit_len(t, &m.bytes) % 8 == 0
}

// ---------------------------------------------------------------------------
// Generated cases

#[derive(Clone, Debug, Hash, Serialize, Deserialize)]
pub struct CompCase {
    pub data: Vec<u8>,
    /// append short-code bytes until the bit stream fills its last byte exactly
    pub align: bool,
}

/// Stream mutation applied to a valid stream (or to raw bytes when `form == 2`).
#[derive(Clone, Debug, Hash, Serialize, Deserialize)]
pub struct DecCase {
    /// plain data (form 0/1) or the raw input bytes (form 2)
    pub data: Vec<u8>,
    /// 0: compact stream, 1: reference-compatible stream, 2: `data` is the input itself
    pub form: u8,
    /// bit positions to flip (mapped monotonically onto the stream)
    pub flips: Vec<u16>,
    /// truncate the stream here (mapped monotonically onto 0..=len)
    pub cut: Option<u16>,
    /// arbitrary trailing bytes
    pub ext: Vec<u8>,
    /// an additional absolute output capacity
    pub cap: u16,
}

#[derive(Clone, Debug, Hash, Serialize, Deserialize)]
pub struct TableCase {
    pub kind: String,
    pub freqs: Vec<u32>,
    pub dec: DecCase,
}

/// Appends bytes (a pure function of the table and the data) so that the number of code bits
/// including EOF becomes a multiple of 8, if that is reachable with <= 7 appended bytes.
pub fn align_to_byte(t: &Table, data: &[u8]) -> Vec<u8> {
    let mut out = data.to_vec();
    let Some(sym) = (0..256usize).filter(|&s| t.codes[s].len % 2 == 1).min_by_key(|&s| t.codes[s].len) else {
        return out;
    };
    for _ in 0..8 {
        if model_bit_len(t, &out) % 8 == 0 {
            break;
        }
        out.push(sym as u8);
    }
    out
}

fn symbols_by<F: Fn(Code) -> bool>(t: &Table, f: F) -> Vec<u8> {
    let v: Vec<u8> = (0..256usize).filter(|&s| f(t.codes[s])).map(|s| s as u8).collect();
    if v.is_empty() {
        vec![0]
    } else {
        v
    }
}

fn data_strategy(max: usize) -> BoxedStrategy<Vec<u8>> {
    let t = builtin();
    let longest = t.codes[..256].iter().map(|c| c.len).max().unwrap();
    let long_syms = symbols_by(t, |c| c.len + 2 >= longest);
    let short_syms = symbols_by(t, |c| c.len <= 7);
    let text: Vec<u8> = (b' '..=b'~').collect();
    prop_oneof![
        5 => proptest::collection::vec(any::<u8>(), 3..=40),
        1 => proptest::collection::vec(any::<u8>(), 0..=2),
        2 => proptest::collection::vec(any::<u8>(), 0..=max),
        2 => (any::<u8>(), 0..=max).prop_map(|(b, n)| vec![b; n]),
        1 => (0..=max).prop_map(|n| vec![0u8; n]),
        1 => (any::<u8>(), any::<u8>(), 0..=max / 2).prop_map(|(a, b, n)| (0..n).flat_map(|_| [a, b]).collect()),
        3 => proptest::collection::vec(proptest::sample::select(short_syms), 0..=max.min(1200)),
        2 => proptest::collection::vec(proptest::sample::select(long_syms), 0..=max.min(400)),
        1 => proptest::collection::vec(proptest::sample::select(text), 0..=max.min(500)),
        2 => proptest::collection::vec((any::<u8>(), 1usize..120), 0..12)
            .prop_map(|runs| runs.into_iter().flat_map(|(b, n)| std::iter::repeat(b).take(n)).collect()),
    ]
    .boxed()
}

fn comp_strategy() -> impl Strategy<Value = CompCase> {
    (data_strategy(8192), proptest::bool::weighted(0.3)).prop_map(|(data, align)| CompCase { data, align })
}

fn dec_strategy(max: usize, garbage_max: usize) -> impl Strategy<Value = DecCase> {
    let valid = (
        data_strategy(max),
        0u8..2,
        prop_oneof![
            3 => Just(Vec::new()),
            2 => proptest::collection::vec(any::<u16>(), 1..=1),
            1 => proptest::collection::vec(any::<u16>(), 2..=4),
        ],
        proptest::option::weighted(0.35, any::<u16>()),
        prop_oneof![2 => Just(Vec::new()), 1 => proptest::collection::vec(any::<u8>(), 1..=4)],
        cap_strategy(),
    )
        .prop_map(|(data, form, flips, cut, ext, cap)| DecCase {
            data,
            form,
            flips,
            cut,
            ext,
            cap,
        });
    let garbage = (
        prop_oneof![
            3 => proptest::collection::vec(any::<u8>(), 0..=12),
            2 => proptest::collection::vec(any::<u8>(), 0..=garbage_max),
            1 => (any::<u8>(), 0..=garbage_max).prop_map(|(b, n)| vec![b; n]),
        ],
        cap_strategy(),
    )
        .prop_map(|(data, cap)| DecCase {
            data,
            form: 2,
            flips: Vec::new(),
            cut: None,
            ext: Vec::new(),
            cap,
        });
    prop_oneof![3 => valid, 1 => garbage]
}

fn cap_strategy() -> BoxedStrategy<u16> {
    prop_oneof![2 => 0u16..64, 1 => 0u16..4096, 1 => any::<u16>()].boxed()
}

/// The decoder input described by a case.
pub fn dec_input(t: &Table, c: &DecCase) -> Vec<u8> {
    let mut s = match c.form {
        0 => model_encode(t, &c.data),
        1 => {
            let mut e = model_encode(t, &c.data);
            if model_bit_len(t, &c.data) % 8 == 0 {
                e.push(0);
            }
            e
        }
        _ => c.data.clone(),
    };
    if !s.is_empty() {
        for &f in &c.flips {
            let bit = pick(f, s.len() * 8);
            s[bit >> 3] ^= 1 << (bit & 7);
        }
    }
    if let Some(cut) = c.cut {
        let at = pick(cut, s.len() + 1);
        s.truncate(at);
    }
    s.extend_from_slice(&c.ext);
    s
}

fn check_comp_case(c: &CompCase) -> PResult {
    let t = builtin();
    let data = if c.align { align_to_byte(t, &c.data) } else { c.data.clone() };
    let info = check_compress_with(t, &data, data.len() <= 24)?;
    let longest = t.max_len();
    Ok(Outcome::nt(data.len() >= 3)
        .class_if(info.extra_byte, "bitlen_multiple_of_8_extra_byte")
        .class_if(data.len() > 1024, "over_1KiB")
        .class_if(data.len() > 4096, "over_4KiB")
        .class_if(info.compact_len > data.len(), "expands")
        .class_if(info.compact_len * 4 < data.len(), "ratio_better_than_4")
        .class_if(data.iter().any(|&b| t.codes[b as usize].len + 1 >= longest), "has_longest_codes"))
}

fn check_dec_case_with(t: &Table, c: &DecCase) -> Result<(DecodeInfo, bool), String> {
    let input = dec_input(t, c);
    let mut info = check_decode_with(t, &input, Some(c.cap as usize), input.len() <= 64)?;
    info.runaway_full = info.runaway;
    // every truncation of a short stream
    if input.len() <= 40 {
        for cut in 0..input.len() {
            let i = check_decode_with(t, &input[..cut], None, cut <= 12)?;
            info.add(&i);
        }
    }
    Ok((info, !is_verbatim(t, &input)))
}

fn dec_outcome(c: &DecCase, info: &DecodeInfo, nontrivial: bool) -> Outcome {
    Outcome::nt(nontrivial)
        .class_if(info.ref_accepts > 0, "ref_accepts")
        .class_if(info.ref_rejects > 0, "ref_rejects")
        .class_if(info.err_capacity > 0, "err_capacity")
        .class_if(info.err_invalid > 0, "err_invalid_or_vec_err")
        .class_if(info.ours_ok > 0, "ours_ok")
        .class_if(info.ours_ok_ref_err > 0, "ours_ok_ref_err")
        .class_if(info.model_ok_ref_err > 0, "zero_ext_ok_ref_err")
        .class_if(info.eof_in_zero_extension > 0, "eof_in_zero_extension")
        .class_if(info.ref_accepts_zero_extension > 0, "ref_accepts_zero_extension")
        .class_if(nontrivial && !info.runaway_full, "mutated_and_full_input_reaches_eof")
        .class_if(info.runaway, "runaway_no_eof")
        .class_if(c.form == 2, "garbage")
        .class_if(c.form != 2 && !c.flips.is_empty(), "bit_flips")
        .class_if(c.form != 2 && c.cut.is_some(), "truncated")
        .class_if(c.form != 2 && !c.ext.is_empty(), "extended")
        .class_if(c.form != 2 && c.flips.is_empty() && c.cut.is_none() && c.ext.is_empty(), "verbatim_stream")
}

fn check_dec_case(c: &DecCase) -> PResult {
    let (info, nt) = check_dec_case_with(builtin(), c)?;
    Ok(dec_outcome(c, &info, nt))
}

// --- generated tables

fn freqs_strategy() -> BoxedStrategy<(String, Vec<u32>)> {
    let perm = Just((0..256usize).collect::<Vec<usize>>()).prop_shuffle();
    let k = |s: &str| s.to_string();
    prop_oneof![
        1 => (1u32..=100_000).prop_map(move |v| (k("uniform"), vec![v; 256])),
        2 => proptest::collection::vec(1u32..=1000, 256).prop_map(move |v| (k("random_small"), v)),
        2 => (perm.clone(), 1u32..=60_000, 1u32..=3).prop_map(move |(p, scale, s)| {
            let mut f = vec![0u32; 256];
            for (rank, &sym) in p.iter().enumerate() {
                let d = (rank as u64 + 1).pow(s).min(u32::MAX as u64) as u32;
                f[sym] = (scale / d).max(1);
            }
            (k("zipf"), f)
        }),
        2 => (proptest::collection::vec(1u32..=64, 1..=4), proptest::collection::vec(any::<u16>(), 256)).prop_map(
            move |(levels, idx)| (k("ties"), idx.iter().map(|&i| levels[pick(i, levels.len())]).collect())
        ),
        2 => (proptest::collection::vec(1u32..=300, 256), proptest::collection::vec(any::<u16>(), 0..=22)).prop_map(
            move |(mut f, zeros)| {
                for z in zeros {
                    f[pick(z, 256)] = 0;
                }
                (k("zeros"), f)
            }
        ),
        2 => (perm.clone(), 0usize..=18, 1u32..=3).prop_map(move |(p, n, base)| {
            // a balanced subtree of weight ~256*base with a chain of n doubling weights above it
            let mut f = vec![base; 256];
            let mut w = 512u64 * base as u64;
            for &sym in p.iter().take(n) {
                f[sym] = w.min(1 << 30) as u32;
                w *= 2;
            }
            (k("deep_chain"), f)
        }),
        1 => (proptest::collection::vec(1u32..=1000, 256), proptest::collection::vec((any::<u16>(), any::<u32>()), 1..=6)).prop_map(
            move |(mut f, big)| {
                for (i, v) in big {
                    f[pick(i, 256)] = v;
                }
                (k("huge_saturating"), f)
            }
        ),
        1 => (proptest::collection::vec(any::<u32>(), 256), 7u32..=20).prop_map(move |(v, sh)| {
            // sums around 2^31: on both sides of the reference's signed-int domain, rarely saturating
            // (unshifted u32 vectors always saturate into a chain deeper than 24)
            (k("random_wide"), v.into_iter().map(|f| f >> sh).collect())
        }),
        1 => Just((k("builtin_frequencies"), builtin_frequencies().to_vec())),
    ]
    .boxed()
}

fn table_strategy() -> impl Strategy<Value = TableCase> {
    (freqs_strategy(), dec_strategy(300, 200)).prop_map(|((kind, freqs), dec)| TableCase { kind, freqs, dec })
}

/// Can the C++ reference build its tree without signed overflow (`int m_Frequency`)?
fn reference_domain(freqs: &[u32]) -> bool {
    freqs.iter().map(|&f| f as u64).sum::<u64>() + 1 <= i32::MAX as u64
}

#[derive(Debug, Default, Clone)]
pub struct TableInfo {
    pub depth: u32,
    pub discarded: bool,
    pub ref_compared: bool,
    pub dec: DecodeInfo,
    pub nontrivial_stream: bool,
}

/// Table built from an arbitrary frequency vector: code validity, compressor oracle on the
/// case's data and on a string holding every byte value, decoder oracle on the mutated stream.
pub fn check_table(freqs: &[u32], dec: &DecCase) -> Result<TableInfo, String> {
    ensure_eq!(freqs.len(), 256, "frequency vector length");
    let lengths = model_code_lengths(freqs);
    let depth = *lengths.iter().max().unwrap();
    if depth > MAX_DEPTH {
        // outside the library's representation limit (24-bit codes): not generated
        return Ok(TableInfo {
            depth,
            discarded: true,
            ..TableInfo::default()
        });
    }
    let lib = guard_s("Huffman::from_frequencies", || Huffman::from_frequencies(freqs))
        .map_err(|e| format!("{} (model tree depth {})", e, depth))?;
    let in_ref_domain = reference_domain(freqs);
    let reference = if in_ref_domain { Some(RefHuffman::from_frequencies(freqs)) } else { None };
    let t = Table::new(lib, reference, false)?;
    if in_ref_domain {
        // within the reference's domain the merge procedure is fully determined
        let got: Vec<u32> = t.codes.iter().map(|c| c.len).collect();
        ensure_eq!(got, lengths, "code lengths vs the merge-two-rarest model");
    } else {
        ensure!(t.max_len() <= MAX_DEPTH, "code longer than 24 bits");
    }
    let all: Vec<u8> = (0..=255u8).collect();
    check_compress_with(&t, &all, false)?;
    // the longest code repeated: worst case for the output size (3 bytes per symbol at depth 24)
    let deepest = (0..256usize).max_by_key(|&s| t.codes[s].len).unwrap() as u8;
    check_compress_with(&t, &vec![deepest; 33], false)?;
    if dec.form != 2 {
        check_compress_with(&t, &dec.data, dec.data.len() <= 12)?;
        let aligned = align_to_byte(&t, &dec.data);
        if aligned.len() != dec.data.len() {
            check_compress_with(&t, &aligned, false)?;
        }
    }
    let (info, nt) = check_dec_case_with(&t, dec)?;
    Ok(TableInfo {
        depth,
        discarded: false,
        ref_compared: in_ref_domain,
        dec: info,
        nontrivial_stream: nt,
    })
}

fn check_table_case(c: &TableCase) -> PResult {
    let info = check_table(&c.freqs, &c.dec)?;
    let o = if info.discarded {
        Outcome::trivial().class("discarded_depth_over_24")
    } else {
        dec_outcome(&c.dec, &info.dec, true)
            .class_if(info.ref_compared, "ref_compared")
            .class_if(!info.ref_compared, "outside_ref_domain")
            .class_if(info.depth >= 16, "depth_16_to_24")
            .class_if(info.depth == MAX_DEPTH, "depth_24")
    };
    Ok(match c.kind.as_str() {
        "uniform" => o.class("kind_uniform"),
        "random_small" => o.class("kind_random_small"),
        "zipf" => o.class("kind_zipf"),
        "ties" => o.class("kind_ties"),
        "zeros" => o.class("kind_zeros"),
        "deep_chain" => o.class("kind_deep_chain"),
        "huge_saturating" => o.class("kind_huge_saturating"),
        "random_wide" => o.class("kind_random_wide"),
        "builtin_frequencies" => o.class("kind_builtin_frequencies"),
        _ => o,
    })
}

// ---------------------------------------------------------------------------
// Enumerations

fn short_string(idx: u64) -> Vec<u8> {
    if idx == 0 {
        vec![]
    } else if idx < 257 {
        vec![(idx - 1) as u8]
    } else if idx < 257 + 65536 {
        let i = idx - 257;
        vec![(i >> 8) as u8, i as u8]
    } else {
        let i = idx - 257 - 65536;
        vec![(i >> 16) as u8, (i >> 8) as u8, i as u8]
    }
}

fn check_builtin_symbol(sym: u64) -> Result<bool, String> {
    let sym = sym as usize;
    let t = builtin();
    let doc = doc_codes();
    ensure_eq!(t.codes[sym], doc[sym], "instances::TEEWORLDS code of symbol {} vs doc/huffman.md appendix", sym);
    static BUILT: OnceLock<Vec<Code>> = OnceLock::new();
    let built = BUILT.get_or_init(|| codes_of(&Huffman::from_frequencies(builtin_frequencies())).unwrap_or_default());
    ensure_eq!(
        built.get(sym).copied(),
        Some(doc[sym]),
        "Huffman::from_frequencies(data/frequencies) code of symbol {} vs doc/huffman.md appendix",
        sym
    );
    let lengths = model_code_lengths(builtin_frequencies());
    ensure_eq!(lengths[sym], doc[sym].len, "merge model code length of symbol {}", sym);
    Ok(true)
}

pub fn run(ctx: &Ctx) {
    ctx.set_rule(
        "compressor: every byte string of length 0..=2 (non-trivial = non-empty) and proptest-generated strings up to 8 KiB \
         (random, runs, alternations, short-code/longest-code/text alphabets, optionally padded so the bit stream fills its \
         last byte; non-trivial = length >= 3, distinct by case hash); decoder: every byte string of length 0..=2 (quick) / \
         0..=3 (thorough) against capacities 0..=8*len+1 (length 3: {0, n-1, n, n+1, 24}), and generated streams = valid stream (either form) with bit flips, \
         truncation, 1..4 trailing bytes, or raw garbage up to 2000 bytes, each against capacities {0, n-1, n, n+1, 8*len, \
         a generated one} (every capacity 0..=n+2 and every truncation for short streams); non-trivial = the input is not \
         the verbatim compressor output for what it decodes to; tables: the built-in one and tables built from generated \
         frequency vectors whose merge-model depth is <= 24 (deeper ones are discarded and counted)",
    );
    ctx.assume("model = doc/huffman.md (appendix code table, zero padding, LSB-first bytes, decoder zero-extends the stream)");
    ctx.assume("C++ reference (huffman/reference) initialised from huffman/data/frequencies is the original Teeworlds implementation; it is given spare output room when compressing because it reports 'exactly full' as an error");
    ctx.assume("the decoder's loop cannot be instrumented with fuel (no callback): termination is observed only through the engine's wall-clock watchdog (exit 2), every call returning Ok/Err for every generated capacity is what is checked");
    ctx.assume("generated tables are compared with the C++ reference only when the frequency sum fits its signed int; trees deeper than 24 are outside the library's representation limit and are not built");

    ctx.exhaustive("builtin_table_vs_doc", NUM_SYMBOLS as u64, check_builtin_symbol, |i| json!(i));

    ctx.probe("doc_example_stream", || {
        // doc/huffman.md example and the repo's single decoding example
        let t = builtin();
        let x = [0x00, 0x01, 0x00, 0x02, 0x00, 0x80, 0x00];
        ensure_eq!(hex(&t.lib.compress_into_vec(&x)), "b1082a6e00".to_string(), "doc/huffman.md example");
        let d = t.lib.decompress_into_vec(&[0x57, 0xdc]).map_err(|_| "decompress(57 dc) failed".to_string())?;
        ensure_eq!(hex(&d), "000000".to_string(), "decompress(57 dc)");
        Ok(())
    });

    ctx.exhaustive(
        "compress_len0_2",
        1 + 256 + 65536,
        |i| {
            let x = short_string(i);
            check_compress_with(builtin(), &x, true).map(|_| !x.is_empty())
        },
        |i| json!(hex(&short_string(i))),
    );

    if !ctx.quick() {
        ctx.exhaustive(
            "compress_len3",
            1 << 24,
            |i| check_compress_with(builtin(), &short_string(257 + 65536 + i), false).map(|_| true),
            |i| json!(hex(&short_string(257 + 65536 + i))),
        );
    }

    let decode_total: u64 = if ctx.quick() { 1 + 256 + 65536 } else { 1 + 256 + 65536 + (1 << 24) };
    let ours_ok_ref_err = std::sync::atomic::AtomicU64::new(0);
    let zero_ext_ok_ref_err = std::sync::atomic::AtomicU64::new(0);
    ctx.exhaustive(
        "decode_short_exhaustive",
        decode_total,
        |i| {
            let s = short_string(i);
            let t = builtin();
            let m = model_decode(t, &s, s.len() * 8 + 2);
            let mut info = DecodeInfo::default();
            if s.len() <= 2 {
                for cap in 0..=s.len() * 8 + 1 {
                    check_decode_one(t, &s, cap, &m, &mut info)?;
                }
            } else {
                let n = m.bytes.len();
                let mut caps = vec![0, n.saturating_sub(1), n, n + 1, s.len() * 8];
                caps.sort();
                caps.dedup();
                for cap in caps {
                    check_decode_one(t, &s, cap, &m, &mut info)?;
                }
            }
            check_decode_vec_with(t, &s, &m, &mut info)?;
            if info.ours_ok_ref_err > 0 {
                ours_ok_ref_err.fetch_add(1, std::sync::atomic::Ordering::Relaxed);
            }
            if info.model_ok_ref_err > 0 {
                zero_ext_ok_ref_err.fetch_add(1, std::sync::atomic::Ordering::Relaxed);
            }
            Ok(!is_verbatim(t, &s))
        },
        |i| json!(hex(&short_string(i))),
    );
    ctx.extra(
        "decode_short_exhaustive_inputs_where_ours_accepts_but_reference_rejects",
        json!(ours_ok_ref_err.into_inner()),
    );
    ctx.extra(
        "decode_short_exhaustive_inputs_where_zero_extension_reaches_eof_but_reference_rejects",
        json!(zero_ext_ok_ref_err.into_inner()),
    );

    ctx.prop("compress_builtin", ctx.n(50_000, 1_200_000), comp_strategy, check_comp_case);
    ctx.prop("decode_builtin", ctx.n(100_000, 2_400_000), || dec_strategy(2000, 2000), check_dec_case);
    ctx.prop("generated_tables", ctx.n(6_000, 160_000), table_strategy, check_table_case);
}
