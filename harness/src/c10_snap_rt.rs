//! C10 - a snapshot survives serialization, including UUID-typed items.
//!
//! Oracle: a model of the builder (`(TypeId, id) -> data`, UUID registry, the 1024-item / 64 KiB
//! limits) plus an independent reader of the integer wire form written from doc/snapshot.md.
//! Every snapshot (fresh builder, recycled builder, result of `read_with_delta`) is written to both
//! wire forms, read back, compared through `items()`, `item()`, `crc()`, and recycled.

use crate::c09_delta::{
    clip, data_strategy, decode_bytes_to_ints, eq_ints, fits, id_strategy, is_uuid, pool_uuid, raw_view_of_typed, type_sel_strategy,
    verify_typed, word_strategy, DataSpec, SnapLike, TypeSel, TypedModel, KEY_UUID_REGISTRY, MAX_INTS, MAX_ITEMS,
};
use crate::util::Warnings;
use crate::{ensure, ensure_eq, guard_s, Ctx, Outcome, PResult};
use libtw2_snapshot::format::TypeId;
use libtw2_snapshot::snap::{Builder, BuilderError, Delta};
use libtw2_snapshot::Snap;
use proptest::prelude::*;
use serde::{Deserialize, Serialize};
use std::collections::{BTreeMap, BTreeSet};
use std::sync::atomic::{AtomicU64, Ordering};
use uuid::Uuid;

#[derive(Clone, Debug, Hash, Serialize, Deserialize)]
pub struct AddOp {
    pub ty: TypeSel,
    pub id: u16,
    pub data: DataSpec,
    /// Some(d): the key is also part of the base snapshot the delta is taken from, with word i
    /// lowered by d*(i+1) (d = 0: unchanged item)
    pub base: Option<i32>,
}

#[derive(Clone, Debug, Hash, Serialize, Deserialize)]
pub struct ProgCase {
    /// the builder program under test (duplicates and over-limit adds included)
    pub ops: Vec<AddOp>,
    /// items only the base snapshot has (removed by the delta)
    pub base_extra: Vec<AddOp>,
    /// program run on the recycled builder
    pub ops2: Vec<AddOp>,
    /// keys to look up that are (mostly) absent
    pub absent: Vec<(TypeSel, u16)>,
    /// the recycled copy is the one read from bytes (else: from integers)
    pub recycle_from_bytes: bool,
}

// ---------------------------------------------------------------------------
// Model of the builder

#[derive(Clone, Default)]
pub struct ModelBuilder {
    pub items: TypedModel,
    pub registered: BTreeSet<[u8; 16]>,
    n: usize,
    w: usize,
}

#[derive(Debug, PartialEq, Eq, Clone, Copy)]
pub enum Expect {
    Accept,
    Duplicate,
    Limit,
}

impl ModelBuilder {
    /// What `recycle()` keeps: the UUID registry (one 4-word item each), no items.
    pub fn recycled(from: &ModelBuilder) -> ModelBuilder {
        ModelBuilder {
            items: TypedModel::new(),
            registered: from.registered.clone(),
            n: from.registered.len(),
            w: 4 * from.registered.len(),
        }
    }
    pub fn add(&mut self, ty: TypeId, id: u16, data: &[i32]) -> Expect {
        if let TypeId::Uuid(u) = ty {
            if !self.registered.contains(u.as_bytes()) {
                if !fits(self.n, self.w, 4) {
                    return Expect::Limit;
                }
                self.registered.insert(*u.as_bytes());
                self.n += 1;
                self.w += 4;
            }
        }
        if self.items.contains_key(&(ty, id)) {
            return Expect::Duplicate;
        }
        if !fits(self.n, self.w, data.len()) {
            return Expect::Limit;
        }
        self.n += 1;
        self.w += data.len();
        self.items.insert((ty, id), data.to_vec());
        Expect::Accept
    }
    pub fn ints(&self) -> usize {
        2 + 2 * self.n + self.w
    }
    pub fn raw_items(&self) -> usize {
        self.n
    }
}

#[derive(Default, Clone, Copy)]
struct ProgStats {
    accepted: usize,
    duplicates: usize,
    over_limit: usize,
}

fn run_program(
    mut b: Builder,
    mb: &mut ModelBuilder,
    ops: &[(TypeId, u16, Vec<i32>)],
    what: &str,
) -> Result<(Snap, ProgStats), String> {
    let mut st = ProgStats::default();
    for (i, (ty, id, data)) in ops.iter().enumerate() {
        let expect = mb.add(*ty, *id, data);
        let got = b.add_item(*ty, *id, data);
        match (expect, &got) {
            (Expect::Accept, Ok(())) => st.accepted += 1,
            (Expect::Duplicate, Err(BuilderError::DuplicateKey)) => st.duplicates += 1,
            (Expect::Limit, Err(BuilderError::TooManyItems)) | (Expect::Limit, Err(BuilderError::TooLongSnap)) => st.over_limit += 1,
            _ => {
                return Err(format!(
                    "{}: add_item #{} ({:?}, {}, {} words) returned {:?}, the model of the builder says {:?} ({} raw items, {} words so far)",
                    what,
                    i,
                    ty,
                    id,
                    data.len(),
                    got,
                    expect,
                    mb.raw_items(),
                    mb.ints()
                ))
            }
        }
    }
    Ok((b.finish(), st))
}

// ---------------------------------------------------------------------------

/// A snapshot object that already holds something unrelated (readers must clear it).
fn dirty_snap() -> Snap {
    let mut b = Builder::new();
    let _ = b.add_item(TypeId::Uuid(Uuid::from_bytes(pool_uuid(200))), 3, &[1, 2, 3]);
    let _ = b.add_item(TypeId::Ordinal(7), 0xffff, &[-1]);
    b.finish()
}

#[derive(Default)]
struct RtStats {
    uuid_lookups_skipped: bool,
    recycle_after_read_skipped: bool,
    fresh_uuid_after_recycle: bool,
    known_uuid_after_recycle: bool,
}

struct RtArgs<'a> {
    ops2: &'a [(TypeId, u16, Vec<i32>)],
    absent: &'a [(TypeId, u16)],
    from_bytes: bool,
    uuid_bug_open: bool,
}

/// `through_registry_rebuild`: `s` itself came out of a reader (`read_with_delta`).
/// `keep_numbers`: UUID -> type number assignments `s` is expected to have kept.
fn check_roundtrip(
    s: &Snap,
    mb: &ModelBuilder,
    origin: &str,
    through_registry_rebuild: bool,
    keep_numbers: Option<&BTreeMap<[u8; 16], u16>>,
    args: &RtArgs,
) -> Result<(BTreeMap<[u8; 16], u16>, RtStats), String> {
    let mut st = RtStats::default();
    let has_uuid_types = !mb.registered.is_empty();
    let lookup_after_read = !args.uuid_bug_open;
    if !lookup_after_read && mb.items.keys().any(|k| is_uuid(&k.0)) {
        st.uuid_lookups_skipped = true;
    }
    verify_typed(s, &mb.items, &mb.registered, !through_registry_rebuild || lookup_after_read, args.absent, origin)?;

    // wire forms
    let ints = s.to_ints()?;
    ensure!(ints.len() <= MAX_INTS, "{}: integer wire form has {} words (> 64 KiB)", origin, ints.len());
    ensure_eq!(ints.len(), mb.ints(), "{}: size of the integer wire form vs 2 + 2*items + data words", origin);
    let (raw, reg) = raw_view_of_typed(&ints, &mb.items, origin)?;
    ensure!(raw.len() <= MAX_ITEMS, "{}: {} items on the wire", origin, raw.len());
    let reg_set: BTreeSet<[u8; 16]> = reg.keys().copied().collect();
    ensure_eq!(reg_set, mb.registered, "{}: UUIDs with a registry item vs UUIDs the builder was given", origin);
    if let Some(keep) = keep_numbers {
        for (u, n) in keep {
            ensure_eq!(reg.get(u), Some(n), "{}: type number of known UUID {}", origin, Uuid::from_bytes(*u));
        }
    }
    let bytes = s.to_bytes()?;
    eq_ints(&decode_bytes_to_ints(&bytes)?, &ints, &format!("{}: byte wire form decoded vs integer wire form", origin))?;

    let mut from_ints = dirty_snap();
    let mut w = Warnings::new();
    let r = from_ints.read_from_ints(&mut w, &ints);
    ensure!(r.is_ok(), "{}: read_from_ints(write_to_ints(s)) failed: {:?}", origin, r);
    ensure!(w.is_empty(), "{}: read_from_ints(write_to_ints(s)) warned {:?}", origin, w.0);
    let mut from_bytes = dirty_snap();
    let mut scratch = vec![12345; 3];
    let r = from_bytes.read(&mut w, &mut scratch, &bytes);
    ensure!(r.is_ok(), "{}: read(write(s)) failed: {:?}", origin, r);
    ensure!(w.is_empty(), "{}: read(write(s)) warned {:?}", origin, w.0);
    for (copy, form) in [(&from_ints, "integers"), (&from_bytes, "bytes")] {
        let what = format!("{}, read back from {}", origin, form);
        verify_typed(copy, &mb.items, &mb.registered, lookup_after_read, args.absent, &what)?;
        ensure_eq!(copy.crc(), s.crc(), "{}: crc of the copy vs crc of the original", what);
        eq_ints(&copy.to_ints()?, &ints, &format!("{}: integer wire form of the copy vs the original's", what))?;
    }

    // recycle: directly, and from the copy that went through a wire form
    let read_copy = if args.from_bytes { from_bytes } else { from_ints };
    let mut sources: Vec<(Snap, &str)> = vec![(s.clone(), "the snapshot itself")];
    if args.uuid_bug_open && has_uuid_types {
        st.recycle_after_read_skipped = true;
    } else {
        sources.push((read_copy, if args.from_bytes { "the copy read from bytes" } else { "the copy read from integers" }));
    }
    if through_registry_rebuild && args.uuid_bug_open && has_uuid_types {
        // `s` itself came out of a reader
        sources.remove(0);
        st.recycle_after_read_skipped = true;
    }
    for (src, src_name) in sources {
        let what = format!("{}, recycle() of {}", origin, src_name);
        let builder = guard_s(&format!("{}: recycle()", what), || src.recycle())?;
        let mut mb2 = ModelBuilder::recycled(mb);
        let (y, _) = run_program(builder, &mut mb2, args.ops2, &what)?;
        let gone: Vec<(TypeId, u16)> = mb.items.keys().filter(|k| !mb2.items.contains_key(k)).copied().collect();
        verify_typed(&y, &mb2.items, &mb2.registered, true, &gone, &what)?;
        let y_ints = y.to_ints()?;
        ensure_eq!(y_ints.len(), mb2.ints(), "{}: size of the integer wire form", what);
        let (_, reg2) = raw_view_of_typed(&y_ints, &mb2.items, &what)?;
        for (u, n) in &reg {
            ensure_eq!(reg2.get(u), Some(n), "{}: type number of the already known UUID {}", what, Uuid::from_bytes(*u));
        }
        let reg2_set: BTreeSet<[u8; 16]> = reg2.keys().copied().collect();
        ensure_eq!(reg2_set, mb2.registered, "{}: UUIDs with a registry item", what);
        if reg2.len() > reg.len() {
            st.fresh_uuid_after_recycle = true;
        }
        if mb2.items.keys().any(|k| matches!(k.0, TypeId::Uuid(u) if reg.contains_key(u.as_bytes()))) {
            st.known_uuid_after_recycle = true;
        }
        let mut y2 = dirty_snap();
        let mut w = Warnings::new();
        let r = y2.read_from_ints(&mut w, &y_ints);
        ensure!(r.is_ok() && w.is_empty(), "{}: reading the rebuilt snapshot back: {:?} {:?}", what, r, w.0);
        verify_typed(&y2, &mb2.items, &mb2.registered, lookup_after_read, &gone, &format!("{}, rebuilt and read back", what))?;
        ensure_eq!(y2.crc(), y.crc(), "{}: crc after reading the rebuilt snapshot back", what);
    }
    Ok((reg, st))
}

fn expand_ops(ops: &[AddOp]) -> Vec<(TypeId, u16, Vec<i32>)> {
    ops.iter().map(|o| (o.ty.type_id(), o.id, o.data.expand())).collect()
}

fn check_prog(c: &ProgCase, uuid_bug_open: bool, excluded: &AtomicU64) -> PResult {
    let ops = expand_ops(&c.ops);
    let ops2 = expand_ops(&c.ops2);
    let absent: Vec<(TypeId, u16)> = c.absent.iter().map(|(t, i)| (t.type_id(), *i)).collect();
    let args = RtArgs { ops2: &ops2, absent: &absent, from_bytes: c.recycle_from_bytes, uuid_bug_open };

    // (a) fresh builder
    let mut mb1 = ModelBuilder::default();
    let (s, pst) = run_program(Builder::new(), &mut mb1, &ops, "fresh builder")?;
    let (_, st1) = check_roundtrip(&s, &mb1, "fresh builder", false, None, &args)?;

    // (b) base snapshot; the program again on a builder recycled from it; the delta between the two
    let mut base_ops: Vec<(TypeId, u16, Vec<i32>)> = Vec::new();
    let mut keys: BTreeSet<(TypeId, u16)> = BTreeSet::new();
    for (o, (ty, id, data)) in c.ops.iter().zip(&ops) {
        if !keys.insert((*ty, *id)) {
            continue;
        }
        if let Some(d) = o.base {
            let lowered = data.iter().enumerate().map(|(i, w)| w.wrapping_sub(d.wrapping_mul(i as i32 + 1))).collect();
            base_ops.push((*ty, *id, lowered));
        }
    }
    for (ty, id, data) in expand_ops(&c.base_extra) {
        if !keys.contains(&(ty, id)) {
            base_ops.push((ty, id, data));
        }
    }
    let mut mb0 = ModelBuilder::default();
    let (s0, _) = run_program(Builder::new(), &mut mb0, &base_ops, "base snapshot")?;
    let (_, reg0) = raw_view_of_typed(&s0.to_ints()?, &mb0.items, "base snapshot")?;
    let mut mbt = ModelBuilder::recycled(&mb0);
    let recycled = guard_s("recycle() of the base snapshot", || s0.clone().recycle())?;
    let (t, _) = run_program(recycled, &mut mbt, &ops, "builder recycled from the base snapshot")?;
    let (regt, st2) = check_roundtrip(&t, &mbt, "builder recycled from the base snapshot", false, Some(&reg0), &args)?;

    // Sender-side contract of Delta::create: a key has one size in both snapshots. An over-limit add
    // followed by a shorter add of the same key can break that for this generator - no delta then.
    let size_conflict = mbt.items.iter().any(|(k, v)| mb0.items.get(k).map(|b| b.len() != v.len()).unwrap_or(false));
    let mut st3 = RtStats::default();
    if !size_conflict {
        let mut delta = Delta::new();
        delta.create(&s0, &t);
        let mut d = dirty_snap();
        let mut w = Warnings::new();
        let r = d.read_with_delta(&mut w, &s0, &delta);
        ensure!(r.is_ok(), "read_with_delta(base, create(base, target)) failed: {:?}", r);
        ensure!(w.is_empty(), "read_with_delta(base, create(base, target)) warned {:?}", w.0);
        ensure_eq!(d.crc(), t.crc(), "crc of the snapshot obtained by applying a delta vs the target's");
        st3 = check_roundtrip(&d, &mbt, "snapshot obtained by applying a delta", true, Some(&regt), &args)?.1;
    }

    let skipped = st1.uuid_lookups_skipped
        || st2.uuid_lookups_skipped
        || st1.recycle_after_read_skipped
        || st2.recycle_after_read_skipped
        || st3.recycle_after_read_skipped;
    if skipped {
        excluded.fetch_add(1, Ordering::Relaxed);
    }
    let n_uuid = mb1.registered.len();
    let uuid_items = mb1.items.keys().filter(|k| is_uuid(&k.0)).count();
    let changed = mbt.items.iter().filter(|(k, v)| mb0.items.get(k).map(|b| b != *v).unwrap_or(false)).count();
    let removed = mb0.items.keys().filter(|k| !mbt.items.contains_key(k)).count();
    Ok(Outcome::nt(uuid_items >= 1)
        .class_if(n_uuid == 0, "uuid_types_0")
        .class_if(n_uuid == 1, "uuid_types_1")
        .class_if((2..=5).contains(&n_uuid), "uuid_types_2_5")
        .class_if(n_uuid > 5, "uuid_types_gt5")
        .class_if(n_uuid > 256, "uuid_types_gt256")
        .class_if(pst.duplicates > 0, "duplicate_key_refused")
        .class_if(pst.over_limit > 0, "over_limit_refused")
        .class_if(mb1.raw_items() == MAX_ITEMS, "1024_items")
        .class_if(mb1.ints() == MAX_INTS, "exactly_64KiB")
        .class_if(mb1.ints() >= MAX_INTS - 64, "within_64_words_of_64KiB")
        .class_if(mb1.ints() >= 1024, "multi_KiB")
        .class_if(mb1.items.values().any(|d| d.is_empty()), "zero_length_item")
        .class_if(mb1.items.values().any(|d| d.len() >= 1000), "item_ge_1000_words")
        .class_if(c.recycle_from_bytes, "recycled_copy_from_bytes")
        .class_if(!c.recycle_from_bytes, "recycled_copy_from_ints")
        .class_if(st1.fresh_uuid_after_recycle || st2.fresh_uuid_after_recycle, "fresh_uuid_after_recycle")
        .class_if(st1.known_uuid_after_recycle || st2.known_uuid_after_recycle, "known_uuid_after_recycle")
        .class_if(changed > 0, "delta_changes_items")
        .class_if(removed > 0, "delta_removes_items")
        .class_if(!mb0.registered.is_empty() && mbt.registered.len() > mb0.registered.len(), "delta_adds_uuid_type")
        .class_if(size_conflict, "delta_part_skipped_size_conflict")
        .class_if(skipped, "known_finding_steps_skipped"))
}

// ---------------------------------------------------------------------------

fn op_strategy(many_uuids: bool, data_kind: u8, wide_ids: bool) -> BoxedStrategy<AddOp> {
    (
        type_sel_strategy(many_uuids),
        id_strategy(wide_ids),
        data_strategy(data_kind),
        prop_oneof![
            3 => Just(None),
            2 => Just(Some(0)),
            3 => word_strategy().prop_map(Some),
        ],
    )
        .prop_map(|(ty, id, data, base)| AddOp { ty, id, data, base })
        .boxed()
}

/// Programs that use 257..420 distinct UUID types in generated (shuffled) order.
fn huge_uuid_ops_strategy() -> BoxedStrategy<Vec<AddOp>> {
    let op = (crate::c09_delta::type_sel_strategy_huge(), 0u16..3, data_strategy(0), prop_oneof![3 => Just(None), 1 => Just(Some(0))])
        .prop_map(|(ty, id, data, base)| AddOp { ty, id, data, base });
    proptest::collection::vec(op, 380..700).boxed()
}

fn ops_strategy(many_uuids: bool) -> BoxedStrategy<Vec<AddOp>> {
    if many_uuids {
        return prop_oneof![4 => ops_strategy_inner(true), 1 => huge_uuid_ops_strategy()].boxed();
    }
    ops_strategy_inner(false)
}

fn ops_strategy_inner(many_uuids: bool) -> BoxedStrategy<Vec<AddOp>> {
    prop_oneof![
        6 => proptest::collection::vec(op_strategy(many_uuids, 0, false), 0..16),
        3 => proptest::collection::vec(op_strategy(many_uuids, 0, false), 10..100),
        1 => proptest::collection::vec(op_strategy(many_uuids, 1, true), 1000..1200),
        1 => proptest::collection::vec(op_strategy(many_uuids, 2, false), 3..30),
    ]
    .boxed()
}

pub fn prog_strategy() -> impl Strategy<Value = ProgCase> {
    (
        prop_oneof![3 => ops_strategy(false), 1 => ops_strategy(true)],
        proptest::collection::vec(op_strategy(false, 0, false), 0..5),
        proptest::collection::vec(op_strategy(true, 0, false), 0..8),
        proptest::collection::vec((type_sel_strategy(false), id_strategy(false)), 0..6),
        any::<bool>(),
    )
        .prop_map(|(ops, base_extra, ops2, absent, recycle_from_bytes)| ProgCase { ops, base_extra, ops2, absent, recycle_from_bytes })
}

/// Canonical input of the UUID-registry defect: one (then two) UUID-typed items, written and read back.
fn probe_uuid_registry() -> Result<(), String> {
    let u1 = TypeId::Uuid(Uuid::from_bytes(pool_uuid(4)));
    let u2 = TypeId::Uuid(Uuid::from_bytes(pool_uuid(5)));
    let mut problems = Vec::new();
    let mut b = Builder::new();
    b.add_item(u1, 1, &[7]).map_err(|e| format!("{:?}", e))?;
    let s = b.finish();
    let ints = s.to_ints()?;
    let mut s2 = Snap::default();
    let r = s2.read_from_ints(&mut Warnings::new(), &ints);
    ensure!(r.is_ok(), "read_from_ints of a one-item snapshot failed: {:?}", r);
    let g = s2.item(u1, 1);
    if g != Some(&[7][..]) {
        problems.push(format!(
            "item({:?}, 1) returns {:?} after write_to_ints/read_from_ints, {:?} before",
            u1,
            g.map(clip),
            s.item(u1, 1).map(clip)
        ));
    }
    let mut b = Builder::new();
    b.add_item(u1, 1, &[7]).map_err(|e| format!("{:?}", e))?;
    b.add_item(u2, 1, &[8]).map_err(|e| format!("{:?}", e))?;
    let ints = b.finish().to_ints()?;
    let mut s3 = Snap::default();
    let r = s3.read_from_ints(&mut Warnings::new(), &ints);
    ensure!(r.is_ok(), "read_from_ints of a two-item snapshot failed: {:?}", r);
    if let Err(e) = guard_s("recycle() of a read-back snapshot with two UUID types", || s3.recycle()) {
        problems.push(e);
    }
    if problems.is_empty() {
        Ok(())
    } else {
        Err(problems.join("; "))
    }
}

pub fn run(ctx: &Ctx) {
    ctx.set_rule(
        "proptest-generated builder programs: 0..1200 add_item calls over ordinal types 1..0x3fff and up to 40 UUID types, ids \
         0..65535, item lengths 0..16380 words, duplicates and over-limit adds included (the model of the builder predicts each \
         result); checked for the snapshot of a fresh builder, of a builder recycled from a base snapshot, and of \
         read_with_delta(base, delta); each is written to bytes and integers, read back, compared via items()/item()/crc(), and \
         recycled (directly and from the read-back copy) to run a second program (non-trivial = the program's snapshot has >= 1 \
         UUID-typed item, went through both wire forms and was enumerated and looked up; distinct by case hash)",
    );
    ctx.assume("the wire-format oracle is an independent reader written from doc/snapshot.md; byte wire forms are decoded with libtw2_packer::Unpacker (property C08)");
    ctx.assume("a UUID type is a type-0 item whose id is the assigned number (0x4000..0x8000) and whose 4 data words are the UUID, big endian (mechanism stated with the property)");
    let uuid_bug_open = ctx.known_open(KEY_UUID_REGISTRY);
    ctx.probe(KEY_UUID_REGISTRY, probe_uuid_registry);
    if uuid_bug_open {
        ctx.note(format!(
            "known finding {} open: item(Uuid, ..) on read-back snapshots and recycle() of read-back snapshots that have UUID types are left out; \
             items(), crc(), re-serialization and recycle() of builder-made snapshots are still checked",
            KEY_UUID_REGISTRY
        ));
    }
    let excluded = AtomicU64::new(0);
    ctx.prop("programs", ctx.n(10_000, 150_000), prog_strategy, |c: &ProgCase| check_prog(c, uuid_bug_open, &excluded));
    ctx.add_excluded_known(excluded.load(Ordering::Relaxed));
}
