//! C18 - server-info parsing is total; merging parts is order-free and idempotent.
//!
//! A model server in this file renders, for a generated server, the datagrams of all thirteen
//! response kinds (master list/count/token responses and the seven server-info layouts), the
//! multi-part ones (legacy 64-player `dtsf`, extended `iext` + `iex+`) split into parts.
//!
//! Oracles
//! * totality: `parse_response` and every `Info*Response::parse` return a value or `None`, no panic;
//!   a returned value lies inside the datagram, satisfies the count sanity check the parser documents
//!   (`0 <= num_players <= num_clients <= max_clients <= per-version maximum`, ...) and hands its
//!   clients out sorted.
//! * merging: for every schedule (permutation, repeats, parts of another token mixed in) the partial
//!   info reports complete exactly when every part has been merged at least once, and the complete
//!   info equals the model (header of the main packet, every client once, sorted) - which is also what
//!   the in-order duplicate-free merge gives. What `merge` answers (Ok / which error) for a repeated or
//!   foreign part is not judged, only the state it leaves; after `take_info` only "no panic" is checked
//!   (the emptied partial reports a complete default info, nothing in the property speaks about it).
//!
//! Known-finding input classes (`Excl`, `skip_repeats`) are decided on the input bytes / the schedule
//! before the library is called, never on a panic message.

use crate::util::{hex, slice_range, unhex, within};
use crate::{ensure, ensure_eq, guard, guard_s, pick, Ctx, Outcome, PResult};
use libtw2_common::str::truncated_arraystring;
use libtw2_serverbrowse::protocol as sb;
use proptest::prelude::*;
use sb::{ClientInfo, PartialServerInfo, Response, ServerInfo, ServerInfoVersion};
use serde::{Deserialize, Serialize};
use serde_json::json;
use std::sync::atomic::{AtomicU64, Ordering};

pub const KEY_DUP: &str = "merge-duplicate-part";
pub const KEY_PKT64: &str = "shift-packet-no-64";
pub const KEY_SLOT64: &str = "shift-slot-64";

mod hexser {
    use super::{hex, unhex};
    use serde::{Deserialize, Deserializer, Serializer};
    pub fn serialize<S: Serializer>(v: &Vec<u8>, s: S) -> Result<S::Ok, S::Error> {
        s.serialize_str(&hex(v))
    }
    pub fn deserialize<'de, D: Deserializer<'de>>(d: D) -> Result<Vec<u8>, D::Error> {
        let s = String::deserialize(d)?;
        if s.len() % 2 != 0 || !s.bytes().all(|b| b.is_ascii_hexdigit()) {
            return Err(serde::de::Error::custom("not a hex string"));
        }
        Ok(unhex(&s))
    }
}

// ---------------------------------------------------------------------------
// Response kinds and their headers

#[derive(Clone, Copy, Debug, Hash, PartialEq, Eq, PartialOrd, Ord, Serialize, Deserialize)]
pub enum Kind {
    List5,
    List6,
    List7,
    Count,
    Count7,
    Info5,
    Info6,
    Info6Ddper,
    Info664,
    Info6Ex,
    Info6ExMore,
    Info7,
    Token7,
}

use Kind::*;

pub const KINDS: [Kind; 13] = [
    List5, List6, List7, Count, Count7, Info5, Info6, Info6Ddper, Info664, Info6Ex, Info6ExMore, Info7, Token7,
];
pub const INFO_KINDS: [Kind; 7] = [Info5, Info6, Info6Ddper, Info664, Info6Ex, Info6ExMore, Info7];

impl Kind {
    pub fn name(self) -> &'static str {
        match self {
            List5 => "list5",
            List6 => "list6",
            List7 => "list7",
            Count => "count",
            Count7 => "count7",
            Info5 => "info5",
            Info6 => "info6",
            Info6Ddper => "info6_ddper",
            Info664 => "info6_64",
            Info6Ex => "info6_ex",
            Info6ExMore => "info6_ex_more",
            Info7 => "info7",
            Token7 => "token7",
        }
    }
    pub fn is_info(self) -> bool {
        INFO_KINDS.contains(&self)
    }
    fn packed_ints(self) -> bool {
        self == Info7
    }
    fn version(self) -> Option<ServerInfoVersion> {
        Some(match self {
            Info5 => ServerInfoVersion::V5,
            Info6 => ServerInfoVersion::V6,
            Info6Ddper => ServerInfoVersion::V6Ddper,
            Info664 => ServerInfoVersion::V664,
            Info6Ex | Info6ExMore => ServerInfoVersion::V6Ex,
            Info7 => ServerInfoVersion::V7,
            _ => return None,
        })
    }
}

/// The datagram header of `kind`; `pre` fills the bytes a real peer chooses (packet flags / tokens).
pub fn header(kind: Kind, pre: &[u8; 8]) -> Vec<u8> {
    match kind {
        Token7 => {
            let mut h = sb::TOKEN_7.to_vec();
            h[3..7].copy_from_slice(&pre[..4]);
            h
        }
        List7 | Count7 | Info7 => {
            let mut h = match kind {
                List7 => sb::LIST_7,
                Count7 => sb::COUNT_7,
                _ => sb::INFO_7,
            }
            .to_vec();
            h[1..9].copy_from_slice(pre);
            h
        }
        Info6Ddper => {
            let mut h = sb::INFO_6_DDPER.to_vec();
            h[2..6].copy_from_slice(&pre[..4]);
            h
        }
        _ => {
            let mut h = match kind {
                List5 => sb::LIST_5,
                List6 => sb::LIST_6,
                Count => sb::COUNT,
                Info5 => sb::INFO_5,
                Info6 => sb::INFO_6,
                Info664 => sb::INFO_6_64,
                Info6Ex => sb::INFO_6_EX,
                _ => sb::INFO_6_EX_MORE,
            }
            .to_vec();
            h[..6].copy_from_slice(&pre[..6]);
            h[0] |= sb::PACKETFLAG_CONNLESS;
            if kind == Info6 && &h[..2] == b"dp" {
                h[1] = b'q'; // "dp....inf3" is the DDPer variant
            }
            h
        }
    }
}

fn routed_kind(r: &Response) -> Kind {
    match r {
        Response::List5(..) => List5,
        Response::List6(..) => List6,
        Response::List7(..) => List7,
        Response::Count(..) => Count,
        Response::Count7(..) => Count7,
        Response::Info5(..) => Info5,
        Response::Info6(..) => Info6,
        Response::Info6Ddper(..) => Info6Ddper,
        Response::Info664(..) => Info664,
        Response::Info6Ex(..) => Info6Ex,
        Response::Info6ExMore(..) => Info6ExMore,
        Response::Info7(..) => Info7,
        Response::Token7(..) => Token7,
    }
}

// ---------------------------------------------------------------------------
// Model server: fields -> wire

#[derive(Clone, Debug, Hash, PartialEq, Eq, Serialize, Deserialize)]
pub struct Cl {
    pub name: String,
    pub clan: String,
    pub country: i32,
    pub score: i32,
    /// 0.7: the flags word; 0.6 layouts: the `is_player` integer (0 = spectator)
    pub flags: i32,
}

#[derive(Clone, Debug, Hash, PartialEq, Eq, Serialize, Deserialize)]
pub struct Srv {
    pub token: i32,
    pub version: String,
    pub name: String,
    pub hostname: String,
    pub map: String,
    pub map_crc: i32,
    pub map_size: i32,
    pub game_type: String,
    pub flags: i32,
    pub progression: i32,
    pub skill: i32,
    pub num_players: i32,
    pub max_players: i32,
    pub num_clients: i32,
    pub max_clients: i32,
}

#[derive(Clone, Debug, Hash, PartialEq, Eq, Serialize, Deserialize)]
pub enum Tok {
    Int(i32),
    Str(#[serde(with = "hexser")] Vec<u8>),
    /// bytes written verbatim, no terminator
    Raw(#[serde(with = "hexser")] Vec<u8>),
}

#[derive(Clone, Copy, Debug, PartialEq, Eq)]
pub enum Role {
    Token,
    PacketNo,
    Text,
    MapCrc,
    MapSize,
    Flags,
    Progression,
    Skill,
    NumPlayers,
    MaxPlayers,
    NumClients,
    MaxClients,
    Offset,
    Extra,
    ClientText,
    ClientInt,
}

fn pack_int(v: i32, out: &mut Vec<u8>) {
    let sign = v < 0;
    let mut bits: u32 = if sign { !(v as u32) } else { v as u32 };
    let mut b = (bits & 0x3f) as u8 | if sign { 0x40 } else { 0 };
    bits >>= 6;
    while bits != 0 {
        out.push(b | 0x80);
        b = (bits & 0x7f) as u8;
        bits >>= 7;
    }
    out.push(b);
}

pub fn render(packed_ints: bool, toks: &[Tok]) -> Vec<u8> {
    let mut out = Vec::new();
    for t in toks {
        match t {
            Tok::Int(v) => {
                if packed_ints {
                    pack_int(*v, &mut out);
                } else {
                    out.extend_from_slice(v.to_string().as_bytes());
                    out.push(0);
                }
            }
            Tok::Str(s) => {
                out.extend_from_slice(s);
                out.push(0);
            }
            Tok::Raw(r) => out.extend_from_slice(r),
        }
    }
    out
}

fn st(s: &str) -> Tok {
    Tok::Str(s.as_bytes().to_vec())
}

/// The field sequence of one server-info payload, in the order `parse_server_info` reads it.
pub fn info_layout(kind: Kind, s: &Srv, offset: i32, packet_no: i32, clients: &[Cl]) -> Vec<(Role, Tok)> {
    let mut t: Vec<(Role, Tok)> = Vec::new();
    t.push((Role::Token, Tok::Int(s.token)));
    if kind == Info6ExMore {
        t.push((Role::PacketNo, Tok::Int(packet_no)));
        t.push((Role::Extra, st("")));
    } else {
        t.push((Role::Text, st(&s.version)));
        t.push((Role::Text, st(&s.name)));
        if kind == Info7 {
            t.push((Role::Text, st(&s.hostname)));
        }
        t.push((Role::Text, st(&s.map)));
        if kind == Info6Ex {
            t.push((Role::MapCrc, Tok::Int(s.map_crc)));
            t.push((Role::MapSize, Tok::Int(s.map_size)));
        }
        t.push((Role::Text, st(&s.game_type)));
        t.push((Role::Flags, Tok::Int(s.flags)));
        if kind == Info5 {
            t.push((Role::Progression, Tok::Int(s.progression)));
        }
        if kind == Info7 {
            t.push((Role::Skill, Tok::Int(s.skill)));
        }
        t.push((Role::NumPlayers, Tok::Int(s.num_players)));
        t.push((Role::MaxPlayers, Tok::Int(s.max_players)));
        if kind != Info5 {
            t.push((Role::NumClients, Tok::Int(s.num_clients)));
            t.push((Role::MaxClients, Tok::Int(s.max_clients)));
        }
        if kind == Info664 {
            t.push((Role::Offset, Tok::Int(offset)));
        }
        if kind == Info6Ex {
            t.push((Role::Extra, st("")));
        }
    }
    for c in clients {
        t.push((Role::ClientText, st(&c.name)));
        if kind != Info5 {
            t.push((Role::ClientText, st(&c.clan)));
            t.push((Role::ClientInt, Tok::Int(c.country)));
        }
        t.push((Role::ClientInt, Tok::Int(c.score)));
        if kind != Info5 {
            t.push((Role::ClientInt, Tok::Int(c.flags)));
        }
        if kind == Info6Ex || kind == Info6ExMore {
            t.push((Role::Extra, st("")));
        }
    }
    t
}

pub fn info_toks(kind: Kind, s: &Srv, offset: i32, packet_no: i32, clients: &[Cl]) -> Vec<Tok> {
    info_layout(kind, s, offset, packet_no, clients).into_iter().map(|(_, t)| t).collect()
}

pub fn datagram(kind: Kind, pre: &[u8; 8], payload: &[u8]) -> Vec<u8> {
    let mut d = header(kind, pre);
    d.extend_from_slice(payload);
    d
}

// ---------------------------------------------------------------------------
// Input classes of the known findings (decided on the bytes, before the library is called)

#[derive(Clone, Copy, Debug, Default)]
pub struct Excl {
    pub slot64: bool,
    pub pkt64: bool,
}

fn text_fields(payload: &[u8]) -> Vec<&[u8]> {
    let mut v: Vec<&[u8]> = payload.split(|&b| b == 0).collect();
    v.pop(); // what follows the last NUL is not a complete field
    v
}

fn int_of(f: &[u8]) -> Option<i32> {
    std::str::from_utf8(f).ok()?.parse().ok()
}

/// Could a `dtsf` payload place a client into slot 64? (over-approximation: announced offset in
/// 0..=64 and enough complete fields after the header for a client to reach slot 64)
pub fn may_reach_slot_64(payload: &[u8]) -> bool {
    let f = text_fields(payload);
    if f.len() < 11 {
        return false;
    }
    match int_of(f[10]) {
        Some(o) if (0..=64).contains(&o) => o as usize + (f.len() - 11) / 5 > 64,
        _ => false,
    }
}

/// Does an `iex+` payload announce packet number 64?
pub fn packet_no_is_64(payload: &[u8]) -> bool {
    let f = text_fields(payload);
    f.len() >= 2 && int_of(f[1]) == Some(64)
}

// ---------------------------------------------------------------------------
// Totality oracle

#[derive(Clone, Debug, Default)]
pub struct DgStats {
    pub routed: Option<Kind>,
    pub value: bool,
    pub complete_partial: bool,
    pub clients: usize,
    pub excluded: bool,
    pub cross_values: u32,
}

fn check_info_value(kind: Kind, info: &ServerInfo, what: &str) -> Result<(), String> {
    let v = kind.version().unwrap();
    ensure_eq!(info.info_version, v, "{}: info_version", what);
    let vmax = v.max_clients().map(|m| m as i64).unwrap_or(i64::MAX);
    let (np, mp, nc, mc) = (
        info.num_players as i64,
        info.max_players as i64,
        info.num_clients as i64,
        info.max_clients as i64,
    );
    ensure!(
        0 <= np && np <= nc && nc <= mc && mc <= vmax && 0 <= mp && mp <= mc,
        "{}: a value was returned although the counts fail the documented sanity check: players {}/{} clients {}/{} (version maximum {:?})",
        what,
        np,
        mp,
        nc,
        mc,
        v.max_clients()
    );
    if kind != Info6ExMore {
        ensure_eq!(info.hostname.is_some(), v.has_hostname(), "{}: hostname presence", what);
        ensure_eq!(info.progression.is_some(), v.has_progression(), "{}: progression presence", what);
        ensure_eq!(info.skill_level.is_some(), v.has_skill_level(), "{}: skill_level presence", what);
        ensure_eq!(info.map_crc.is_some(), v.has_extended_map_info(), "{}: map_crc presence", what);
        ensure_eq!(info.map_size.is_some(), v.has_extended_map_info(), "{}: map_size presence", what);
        if let Some(sz) = info.map_size {
            ensure!(sz <= i32::MAX as u32, "{}: negative map size accepted ({})", what, sz as i32);
        }
    }
    ensure!(
        info.clients.windows(2).all(|w| w[0] <= w[1]),
        "{}: clients handed out unsorted: {:?}",
        what,
        info.clients
    );
    Ok(())
}

fn check_partial(kind: Kind, part: &PartialServerInfo, st: &mut DgStats, routed: bool) -> Result<(), String> {
    let what = kind.name();
    let token = guard_s("PartialServerInfo::token", || part.token())?;
    let mut a = part.clone();
    let before = guard_s("get_info on a freshly parsed part", || a.get_info().cloned())?;
    if let Some(info) = &before {
        check_info_value(kind, info, what)?;
        ensure_eq!(info.token, token, "{}: token() differs from the info's token", what);
        ensure_eq!(
            info.clients.len() as i64,
            info.num_clients as i64,
            "{}: reported complete with a client list of another length than announced",
            what
        );
        if routed {
            st.complete_partial = true;
            st.clients = info.clients.len();
        }
    }
    // a part merged with itself: same result
    let mut b = part.clone();
    let other = part.clone();
    guard_s("merge of a part with itself", || {
        let _ = b.merge(other);
    })?;
    let after = guard_s("get_info after self-merge", || b.get_info().cloned())?;
    ensure_eq!(after, before, "{}: merging a part with itself changed what get_info reports", what);
    let mut c = part.clone();
    let taken = guard_s("take_info on a freshly parsed part", || c.take_info())?;
    ensure_eq!(taken, before, "{}: take_info and get_info disagree", what);
    let other = part.clone();
    guard_s("merge into a partial whose info was taken", move || {
        let _ = c.merge(other);
        let _ = c.get_info().is_some();
    })?;
    Ok(())
}

/// Parse `payload` as server info of `kind` and check the value; Ok(was a value returned).
fn check_payload_as(kind: Kind, payload: &[u8], excl: Excl, st: &mut DgStats, routed: bool) -> Result<bool, String> {
    if (excl.slot64 && kind == Info664 && may_reach_slot_64(payload))
        || (excl.pkt64 && kind == Info6ExMore && packet_no_is_64(payload))
    {
        st.excluded = true;
        return Ok(false);
    }
    let what = kind.name();
    let full = |r: Option<ServerInfo>, st: &mut DgStats| -> Result<bool, String> {
        match r {
            None => Ok(false),
            Some(info) => {
                check_info_value(kind, &info, what)?;
                if routed {
                    st.clients = info.clients.len();
                }
                Ok(true)
            }
        }
    };
    let partial = |r: Option<PartialServerInfo>, st: &mut DgStats| -> Result<bool, String> {
        match r {
            None => Ok(false),
            Some(p) => {
                check_partial(kind, &p, st, routed)?;
                Ok(true)
            }
        }
    };
    let ctx = format!("{}::parse on [{}]", what, hex(&payload[..payload.len().min(96)]));
    match kind {
        Info5 => full(guard_s(&ctx, || sb::Info5Response(payload).parse())?, st),
        Info6 => full(guard_s(&ctx, || sb::Info6Response(payload).parse())?, st),
        Info6Ddper => full(guard_s(&ctx, || sb::Info6DdperResponse(payload).parse())?, st),
        Info7 => {
            let t = sb::Token7([1, 2, 3, 4]);
            full(guard_s(&ctx, || sb::Info7Response(t, t, payload).parse())?, st)
        }
        Info664 => partial(guard_s(&ctx, || sb::Info664Response(payload).parse())?, st),
        Info6Ex => partial(guard_s(&ctx, || sb::Info6ExResponse(payload).parse())?, st),
        Info6ExMore => partial(guard_s(&ctx, || sb::Info6ExMoreResponse(payload).parse())?, st),
        _ => unreachable!(),
    }
}

fn check_all_info_kinds(payload: &[u8], routed: Option<Kind>, excl: Excl, st: &mut DgStats) -> Result<(), String> {
    for k in INFO_KINDS {
        let is_routed = routed == Some(k);
        let v = check_payload_as(k, payload, excl, st, is_routed)?;
        if is_routed {
            st.value = v;
        } else if v {
            st.cross_values += 1;
        }
    }
    Ok(())
}

fn addr_slice_ok<T>(s: &[T], data: &[u8], header_len: usize) -> Result<(), String> {
    let size = std::mem::size_of::<T>();
    let start = s.as_ptr() as usize;
    let range = slice_range(data);
    ensure!(
        s.is_empty() || (start >= range.0 + header_len && start + s.len() * size <= range.1),
        "address list of {} entries x {} bytes lies outside the {}-byte datagram",
        s.len(),
        size,
        data.len()
    );
    Ok(())
}

/// The whole-datagram oracle (also the body of the libFuzzer target): strict, no exclusions.
pub fn check_datagram(data: &[u8]) -> Result<(), String> {
    check_datagram_tolerant(data, Excl::default()).map(|_| ())
}

/// Like `check_datagram`, but input classes of listed known findings are not handed to the library.
pub fn check_datagram_tolerant(data: &[u8], excl: Excl) -> Result<DgStats, String> {
    let mut st = DgStats::default();
    let range = slice_range(data);
    let resp = guard_s(&format!("parse_response on [{}]", hex(&data[..data.len().min(64)])), || {
        sb::parse_response(data)
    })?;
    let Some(resp) = resp else {
        // not a known response: still exercise the seven payload parsers on the bytes (fuzzing entry)
        check_all_info_kinds(data, None, excl, &mut st)?;
        return Ok(st);
    };
    let kind = routed_kind(&resp);
    st.routed = Some(kind);
    match resp {
        Response::List5(sb::List5Response(a)) => {
            addr_slice_ok(a, data, 14)?;
            for x in a {
                guard_s("Addr5Packed::unpack", || x.unpack())?;
            }
            st.value = true;
            st.clients = a.len();
        }
        Response::List6(sb::List6Response(a)) => {
            addr_slice_ok(a, data, 14)?;
            for x in a {
                guard_s("Addr6Packed::unpack", || x.unpack())?;
            }
            st.value = true;
            st.clients = a.len();
        }
        Response::List7(sb::List7Response(_, _, a)) => {
            addr_slice_ok(a, data, 17)?;
            for x in a {
                guard_s("Addr6Packed::unpack", || x.unpack())?;
            }
            st.value = true;
            st.clients = a.len();
        }
        Response::Count(..) | Response::Count7(..) | Response::Token7(..) => st.value = true,
        Response::Info5(sb::Info5Response(p))
        | Response::Info6(sb::Info6Response(p))
        | Response::Info6Ddper(sb::Info6DdperResponse(p))
        | Response::Info664(sb::Info664Response(p))
        | Response::Info6Ex(sb::Info6ExResponse(p))
        | Response::Info6ExMore(sb::Info6ExMoreResponse(p))
        | Response::Info7(sb::Info7Response(_, _, p)) => {
            ensure!(within(p, range), "{} payload slice lies outside the datagram", kind.name());
            check_all_info_kinds(p, Some(kind), excl, &mut st)?;
        }
    }
    Ok(st)
}

// ---------------------------------------------------------------------------
// Deterministic bases for the exhaustive sections

fn base_client(i: usize) -> Cl {
    Cl {
        name: format!("player{}", i),
        clan: format!("c{}", i % 7),
        country: (i as i32 % 5) - 1,
        score: 100 - i as i32,
        flags: (i % 3 != 0) as i32,
    }
}

fn base_srv(kind: Kind, n: usize) -> Srv {
    let vmax = match kind {
        Info5 | Info6 | Info6Ddper => 16,
        Info664 | Info7 => 64,
        _ => 128,
    };
    let nc = (n as i32).min(vmax);
    Srv {
        token: 77,
        version: "0.6.4, 11.2".into(),
        name: "model server".into(),
        hostname: "host.example".into(),
        map: "dm1".into(),
        map_crc: 0x1234_5678,
        map_size: 5814,
        game_type: "DM".into(),
        flags: 1,
        progression: 50,
        skill: 1,
        num_players: nc / 2,
        max_players: vmax / 2,
        num_clients: nc,
        max_clients: vmax,
    }
}

fn base_layout(kind: Kind, n: usize) -> Vec<(Role, Tok)> {
    let clients: Vec<Cl> = (0..n).map(base_client).collect();
    info_layout(kind, &base_srv(kind, n), 0, 1, &clients)
}

const PRE: [u8; 8] = [0xff, 0xff, 0xff, 0xff, 0xff, 0xff, 0xff, 0xff];

fn base_payload(kind: Kind, n: usize) -> Vec<u8> {
    match kind {
        List5 => (0..n * 6).map(|i| (i * 37 + 1) as u8).collect(),
        List6 | List7 => (0..n * 18)
            .map(|i| if n % 2 == 0 && i % 18 < 12 { sb::IPV4_MAPPING[i % 18] } else { (i * 37 + 1) as u8 })
            .collect(),
        Count | Count7 => vec![0x12, 0x34, 0x56][..n.min(3)].to_vec(),
        Token7 => vec![9, 8, 7, 6, 0, 0, 0, 0][..n.min(8)].to_vec(),
        _ => render(kind.packed_ints(), &base_layout(kind, n).into_iter().map(|(_, t)| t).collect::<Vec<_>>()),
    }
}

fn base_datagrams(sizes: &[usize]) -> Vec<(Kind, Vec<u8>)> {
    let mut v = Vec::new();
    for k in KINDS {
        for &n in sizes {
            v.push((k, datagram(k, &PRE, &base_payload(k, n))));
        }
    }
    v
}

/// Boundary values every numeric field is swept over.
#[rustfmt::skip]
pub const B: [i32; 46] = [
    i32::MIN, i32::MIN + 1, -65536, -129, -128, -127, -65, -64, -63, -17, -16, -2, -1, 0, 1, 2, 3, 15, 16, 17, 23, 24, 25,
    31, 32, 33, 40, 41, 47, 48, 49, 62, 63, 64, 65, 66, 127, 128, 129, 255, 256, 65535, 65536, 1 << 24, i32::MAX - 1, i32::MAX,
];

const S: [i32; 11] = [i32::MIN, -1, 0, 1, 15, 16, 17, 63, 64, 65, i32::MAX];

/// Index space made of consecutive blocks.
struct Blocks<T> {
    items: Vec<(T, u64)>,
    starts: Vec<u64>,
    total: u64,
}

impl<T> Blocks<T> {
    fn new(items: Vec<(T, u64)>) -> Blocks<T> {
        let mut starts = Vec::new();
        let mut total = 0;
        for (_, n) in &items {
            starts.push(total);
            total += n;
        }
        Blocks { items, starts, total }
    }
    fn locate(&self, idx: u64) -> (usize, u64) {
        let b = match self.starts.binary_search(&idx) {
            Ok(mut b) => {
                // skip empty blocks that start at the same index
                while self.items[b].1 == 0 {
                    b += 1;
                }
                b
            }
            Err(b) => b - 1,
        };
        (b, idx - self.starts[b])
    }
    fn get(&self, idx: u64) -> (&T, u64) {
        let (b, sub) = self.locate(idx);
        (&self.items[b].0, sub)
    }
}

struct Tally {
    excluded: AtomicU64,
}

impl Tally {
    fn new() -> Tally {
        Tally {
            excluded: AtomicU64::new(0),
        }
    }
    fn run(&self, data: &[u8], excl: Excl) -> Result<bool, String> {
        let st = check_datagram_tolerant(data, excl)?;
        if st.excluded {
            self.excluded.fetch_add(1, Ordering::Relaxed);
        }
        Ok(st.value)
    }
    fn flush(&self, ctx: &Ctx) {
        ctx.add_excluded_known(self.excluded.swap(0, Ordering::Relaxed));
    }
}

fn set_int(layout: &[(Role, Tok)], changes: &[(usize, i32)]) -> Vec<Tok> {
    let mut toks: Vec<Tok> = layout.iter().map(|(_, t)| t.clone()).collect();
    for &(pos, v) in changes {
        toks[pos] = Tok::Int(v);
    }
    toks
}

fn int_positions(layout: &[(Role, Tok)]) -> Vec<usize> {
    layout
        .iter()
        .enumerate()
        .filter(|(_, (_, t))| matches!(t, Tok::Int(_)))
        .map(|(i, _)| i)
        .collect()
}

fn role_pos(layout: &[(Role, Tok)], role: Role) -> Option<usize> {
    layout.iter().position(|(r, _)| *r == role)
}

#[derive(Clone, Debug)]
enum PairPlan {
    /// the four (V5: two) count fields over S
    Counts { kind: Kind, n: usize, pos: Vec<usize> },
    /// dtsf: offset over B x number of clients in the packet 0..=70
    OffsetClients,
    /// iex+: packet number over B x clients
    PacketClients,
    /// two header integers over B x B
    Pair { kind: Kind, a: usize, b: usize },
}

const PACKET_CLIENTS: [usize; 4] = [0, 1, 2, 24];

fn pair_plans(thorough: bool) -> Blocks<PairPlan> {
    let mut items = Vec::new();
    for kind in INFO_KINDS {
        if kind == Info6ExMore {
            continue;
        }
        for n in [0usize, 1, 16] {
            let l = base_layout(kind, n);
            let pos: Vec<usize> = [Role::NumPlayers, Role::MaxPlayers, Role::NumClients, Role::MaxClients]
                .iter()
                .filter_map(|r| role_pos(&l, *r))
                .collect();
            let total = (S.len() as u64).pow(pos.len() as u32);
            items.push((PairPlan::Counts { kind, n, pos }, total));
        }
    }
    items.push((PairPlan::OffsetClients, B.len() as u64 * 71));
    items.push((PairPlan::PacketClients, (B.len() * PACKET_CLIENTS.len()) as u64));
    if thorough {
        for kind in INFO_KINDS {
            let l = base_layout(kind, 2);
            let ints = int_positions(&l);
            for (i, &a) in ints.iter().enumerate() {
                for &b in &ints[i + 1..] {
                    items.push((PairPlan::Pair { kind, a, b }, (B.len() * B.len()) as u64));
                }
            }
        }
    }
    Blocks::new(items)
}

fn pair_datagram(plan: &PairPlan, sub: u64) -> (Kind, Vec<Tok>, String) {
    match plan {
        PairPlan::Counts { kind, n, pos } => {
            let l = base_layout(*kind, *n);
            let mut changes = Vec::new();
            let mut s = sub;
            for &p in pos {
                changes.push((p, S[(s % S.len() as u64) as usize]));
                s /= S.len() as u64;
            }
            let d = format!("{} with {} clients, counts {:?}", kind.name(), n, changes.iter().map(|c| c.1).collect::<Vec<_>>());
            (*kind, set_int(&l, &changes), d)
        }
        PairPlan::OffsetClients => {
            let (o, n) = (B[(sub / 71) as usize], (sub % 71) as usize);
            let mut l = base_layout(Info664, n);
            let p = role_pos(&l, Role::Offset).unwrap();
            l[p].1 = Tok::Int(o);
            (Info664, l.into_iter().map(|(_, t)| t).collect(), format!("dtsf offset {} with {} clients", o, n))
        }
        PairPlan::PacketClients => {
            let (v, n) = (
                B[(sub / PACKET_CLIENTS.len() as u64) as usize],
                PACKET_CLIENTS[(sub % PACKET_CLIENTS.len() as u64) as usize],
            );
            let mut l = base_layout(Info6ExMore, n);
            let p = role_pos(&l, Role::PacketNo).unwrap();
            l[p].1 = Tok::Int(v);
            (Info6ExMore, l.into_iter().map(|(_, t)| t).collect(), format!("iex+ packet_no {} with {} clients", v, n))
        }
        PairPlan::Pair { kind, a, b } => {
            let l = base_layout(*kind, 2);
            let (va, vb) = (B[(sub / B.len() as u64) as usize], B[(sub % B.len() as u64) as usize]);
            let d = format!("{} fields #{} {:?}={} and #{} {:?}={}", kind.name(), a, l[*a].0, va, b, l[*b].0, vb);
            (*kind, set_int(&l, &[(*a, va), (*b, vb)]), d)
        }
    }
}

// ---------------------------------------------------------------------------
// Generated hostile datagrams

#[derive(Clone, Debug, Hash, Serialize, Deserialize)]
pub struct DgCase {
    pub kind: Kind,
    pub pre: [u8; 8],
    pub toks: Vec<Tok>,
    #[serde(with = "hexser")]
    pub tail: Vec<u8>,
    /// keep only the first pick(cut, len + 1) bytes
    pub cut: Option<u16>,
    /// overwrite the byte at pick(pos, len)
    pub patch: Option<(u16, u8)>,
}

pub fn dg_bytes(c: &DgCase) -> Vec<u8> {
    let mut payload = render(c.kind.packed_ints(), &c.toks);
    payload.extend_from_slice(&c.tail);
    let mut d = datagram(c.kind, &c.pre, &payload);
    if let Some((pos, b)) = c.patch {
        if !d.is_empty() {
            let i = pick(pos, d.len());
            d[i] = b;
        }
    }
    if let Some(cut) = c.cut {
        let n = pick(cut, d.len() + 1);
        d.truncate(n);
    }
    d
}

fn hostile_int() -> BoxedStrategy<i32> {
    prop_oneof![
        4 => proptest::sample::select(B.to_vec()),
        3 => -2i32..70,
        1 => any::<i32>(),
    ]
    .boxed()
}

fn text(max: usize) -> BoxedStrategy<String> {
    // valid UTF-8 without NUL; multi-byte characters straddle the library's truncation limits
    prop_oneof![
        5 => proptest::string::string_regex(&format!("[a-zA-Z0-9 _.\\-]{{0,{}}}", max)).unwrap(),
        2 => (0..=max + 4, proptest::sample::select(vec!["\u{e9}", "\u{20ac}", "\u{1f600}", "\u{7f}", "\u{1}"]), 0usize..4)
            .prop_map(|(n, ch, m)| format!("{}{}{}", "a".repeat(n), ch, ch.repeat(m))),
        1 => (max..max * 2 + 8).prop_map(|n| "x".repeat(n)),
        1 => any::<i32>().prop_map(|v| v.to_string()),
    ]
    .boxed()
}

fn client_strategy() -> impl Strategy<Value = Cl> {
    (
        text(15),
        text(11),
        prop_oneof![3 => -1i32..300, 1 => hostile_int()],
        prop_oneof![3 => -50i32..1000, 1 => hostile_int()],
        prop_oneof![4 => 0i32..=1, 1 => hostile_int()],
    )
        .prop_map(|(name, clan, country, score, flags)| Cl {
            name,
            clan,
            country,
            score,
            flags,
        })
}

/// A few fixed client identities so that identical clients occur in one server.
fn client_pool() -> impl Strategy<Value = Cl> {
    prop_oneof![
        4 => client_strategy(),
        1 => (0usize..3).prop_map(|i| Cl {
            name: ["(connecting)", "nameless tee", ""][i].to_string(),
            clan: String::new(),
            country: -1,
            score: 0,
            flags: (i == 1) as i32,
        }),
    ]
}

fn hostile_srv() -> impl Strategy<Value = (Srv, Vec<Cl>, bool)> {
    let clients = prop_oneof![
        4 => proptest::collection::vec(client_pool(), 0..4),
        3 => proptest::collection::vec(client_pool(), 0..=17),
        2 => proptest::collection::vec(client_pool(), 22..=26),
        2 => proptest::collection::vec(client_pool(), 60..=70),
    ];
    (
        clients,
        (hostile_int(), text(32), text(64), text(64), text(32), text(32)),
        (any::<i32>(), prop_oneof![3 => 0i32..=i32::MAX, 1 => hostile_int()], hostile_int(), hostile_int(), hostile_int()),
        prop_oneof![
            5 => (0u8..4, any::<u16>(), any::<u16>(), 0u8..3).prop_map(|(slack, np, mp, cap)| (None::<(i32, i32, i32, i32)>, slack, np, mp, cap)),
            3 => (hostile_int(), hostile_int(), hostile_int(), hostile_int())
                .prop_map(|q| (Some(q), 0u8, 0u16, 0u16, 0u8)),
        ],
    )
        .prop_map(|(clients, (token, version, name, hostname, map, game_type), (map_crc, map_size, flags, progression, skill), counts)| {
            let n = clients.len() as i32;
            let consistent = counts.0.is_none();
            let (num_players, max_players, num_clients, max_clients) = match counts {
                (Some(q), ..) => q,
                (None, slack, np, mp, cap) => {
                    let cap = [16, 64, 128][cap as usize];
                    let mc = (n + slack as i32).min(cap).max(n.min(cap));
                    let nc = n.min(mc);
                    let npl = pick(np, nc as usize + 1) as i32;
                    let mpl = npl + pick(mp, (mc - npl) as usize + 1) as i32;
                    (npl, mpl, nc, mc)
                }
            };
            (
                Srv {
                    token,
                    version,
                    name,
                    hostname,
                    map,
                    map_crc,
                    map_size,
                    game_type,
                    flags,
                    progression,
                    skill,
                    num_players,
                    max_players,
                    num_clients,
                    max_clients,
                },
                clients,
                consistent,
            )
        })
}

fn junk_field() -> BoxedStrategy<Vec<u8>> {
    prop_oneof![
        3 => proptest::sample::select(
            ["", "-", "+", "+5", "-0", "007", "2147483648", "-2147483649", "99999999999999999999", "1e3", " 1", "1 ", "0x10", "\u{663}", "64", "-1"]
                .iter()
                .map(|s| s.as_bytes().to_vec())
                .collect::<Vec<_>>()
        ),
        2 => proptest::collection::vec(1u8..=255, 0..40),
        1 => proptest::collection::vec(any::<u8>(), 0..12),
        1 => (120usize..400).prop_map(|n| vec![b'z'; n]),
    ]
    .boxed()
}

#[derive(Clone, Debug)]
enum TokMut {
    SetInt(u16, i32),
    SetField(u16, Vec<u8>),
    Delete(u16),
    Duplicate(u16),
    InsertRaw(u16, Vec<u8>),
}

fn tok_mut() -> impl Strategy<Value = TokMut> {
    prop_oneof![
        4 => (any::<u16>(), hostile_int()).prop_map(|(p, v)| TokMut::SetInt(p, v)),
        3 => (any::<u16>(), junk_field()).prop_map(|(p, v)| TokMut::SetField(p, v)),
        1 => any::<u16>().prop_map(TokMut::Delete),
        1 => any::<u16>().prop_map(TokMut::Duplicate),
        1 => (any::<u16>(), junk_field()).prop_map(|(p, v)| TokMut::InsertRaw(p, v)),
    ]
}

fn apply_muts(mut toks: Vec<Tok>, muts: &[TokMut]) -> Vec<Tok> {
    for m in muts {
        if toks.is_empty() {
            break;
        }
        match m {
            TokMut::SetInt(p, v) => {
                let ints: Vec<usize> = toks
                    .iter()
                    .enumerate()
                    .filter(|(_, t)| matches!(t, Tok::Int(_)))
                    .map(|(i, _)| i)
                    .collect();
                if !ints.is_empty() {
                    // header integers first: they come first in the list and `pick` is monotone
                    let i = ints[pick(*p, ints.len().min(14))];
                    toks[i] = Tok::Int(*v);
                }
            }
            TokMut::SetField(p, v) => {
                let i = pick(*p, toks.len().min(20));
                toks[i] = Tok::Str(v.clone());
            }
            TokMut::Delete(p) => {
                let i = pick(*p, toks.len());
                toks.remove(i);
            }
            TokMut::Duplicate(p) => {
                let i = pick(*p, toks.len());
                let t = toks[i].clone();
                toks.insert(i, t);
            }
            TokMut::InsertRaw(p, v) => {
                let i = pick(*p, toks.len() + 1);
                toks.insert(i, Tok::Raw(v.clone()));
            }
        }
    }
    toks
}

fn dg_strategy() -> impl Strategy<Value = DgCase> {
    let info = (
        proptest::sample::select(INFO_KINDS.to_vec()),
        hostile_srv(),
        prop_oneof![3 => proptest::sample::select(vec![0i32, 24, 48]), 2 => hostile_int()],
        prop_oneof![3 => 1i32..8, 2 => hostile_int()],
        prop_oneof![
            4 => Just(Vec::new()).boxed(),
            4 => proptest::collection::vec(tok_mut(), 1..=1).boxed(),
            2 => proptest::collection::vec(tok_mut(), 2..=4).boxed(),
        ],
    )
        .prop_map(|(kind, (mut srv, clients, consistent), offset, packet_no, muts)| {
            if consistent {
                // consistent counts respect the layout's own maximum
                let vmax = kind.version().and_then(|v| v.max_clients()).map(|m| m as i32).unwrap_or(i32::MAX);
                srv.max_clients = srv.max_clients.min(vmax);
                srv.num_clients = srv.num_clients.min(srv.max_clients);
                srv.max_players = srv.max_players.min(srv.max_clients);
                srv.num_players = srv.num_players.min(srv.num_clients).min(srv.max_players);
            }
            (kind, apply_muts(info_toks(kind, &srv, offset, packet_no, &clients), &muts), Vec::new())
        });
    let other = (
        proptest::sample::select(vec![List5, List6, List7, Count, Count7, Token7]),
        prop_oneof![
            3 => proptest::collection::vec(any::<u8>(), 0..8),
            3 => (0usize..7, 0usize..18, any::<u8>(), any::<bool>()).prop_map(|(n, extra, b, v4)| {
                let mut v = Vec::new();
                for i in 0..n * 18 + extra {
                    v.push(if v4 && i % 18 < 12 { sb::IPV4_MAPPING[i % 18] } else { b.wrapping_add(i as u8) });
                }
                v
            }),
            2 => proptest::collection::vec(any::<u8>(), 0..140),
        ],
    )
        .prop_map(|(kind, tail)| (kind, Vec::new(), tail));
    (
        prop_oneof![7 => info.boxed(), 2 => other.boxed()],
        prop_oneof![
            3 => Just([0xffu8; 8]),
            2 => any::<[u8; 8]>(),
            1 => Just(*b"dp\0\0\0\0\xff\xff"),
            1 => Just([0x04, 0, 0, 0, 0, 0, 0, 0]),
            1 => Just([0x21, 0, 0, 0, 0, 0, 0, 0]),
        ],
        proptest::option::weighted(0.3, prop_oneof![2 => any::<u16>(), 1 => 0xfff0u16..=0xffff, 1 => 0u16..600]),
        proptest::option::weighted(
            0.25,
            (any::<u16>(), prop_oneof![Just(0u8), Just(b'-'), Just(b'9'), Just(0x80), Just(0xff), any::<u8>()])
        ),
    )
        .prop_map(|((kind, toks, tail), pre, cut, patch)| DgCase {
            kind,
            pre,
            toks,
            tail,
            cut,
            patch,
        })
}

fn random_datagram() -> impl Strategy<Value = Vec<u8>> {
    let head = prop_oneof![
        6 => (proptest::sample::select(KINDS.to_vec()), any::<[u8; 8]>()).prop_map(|(k, pre)| header(k, &pre)),
        1 => proptest::collection::vec(any::<u8>(), 0..20),
        1 => (proptest::sample::select(KINDS.to_vec()), any::<[u8; 8]>(), any::<u16>()).prop_map(|(k, pre, c)| {
            let mut h = header(k, &pre);
            let n = pick(c, h.len() + 1);
            h.truncate(n);
            h
        }),
    ];
    let alphabet: Vec<u8> = vec![
        0, 0, 0, 0, 0, 0, b'0', b'1', b'2', b'3', b'4', b'5', b'6', b'7', b'8', b'9', b'9', b'-', b'+', b'a', b' ', 0xff, 0x80, 0xc3, 0xa9, 0x40, 0x3f,
    ];
    let body = prop_oneof![
        3 => proptest::collection::vec(proptest::sample::select(alphabet.clone()), 0..160),
        1 => proptest::collection::vec(any::<u8>(), 0..160),
    ];
    let random = (head, body).prop_map(|(mut h, b)| {
        h.extend_from_slice(&b);
        h
    });
    // a well-formed payload (of the header's kind or of another one) with a few bytes overwritten
    let spliced = (
        proptest::sample::select(KINDS.to_vec()),
        proptest::option::weighted(0.3, proptest::sample::select(INFO_KINDS.to_vec())),
        any::<[u8; 8]>(),
        proptest::sample::select(vec![0usize, 1, 2, 3, 17]),
        proptest::collection::vec((any::<u16>(), proptest::sample::select(alphabet)), 0..=6),
        proptest::option::weighted(0.2, any::<u16>()),
    )
        .prop_map(|(k, other, pre, n, patches, cut)| {
            let mut body = base_payload(other.unwrap_or(k), n);
            for (pos, b) in patches {
                if !body.is_empty() {
                    let i = pick(pos, body.len());
                    body[i] = b;
                }
            }
            if let Some(c) = cut {
                let n = pick(c, body.len() + 1);
                body.truncate(n);
            }
            datagram(k, &pre, &body)
        });
    prop_oneof![1 => random.boxed(), 1 => spliced.boxed()]
}

fn check_dg_case(c: &DgCase, excl: Excl) -> PResult {
    let data = dg_bytes(c);
    let st = check_datagram_tolerant(&data, excl)?;
    let o = Outcome::nt(st.routed.is_some() && !st.excluded && (st.value || data.len() > 24))
        .class_if(st.excluded, "excluded_known")
        .class_if(st.routed.is_none(), "not_routed")
        .class_if(st.routed == Some(c.kind), "routed_as_built")
        .class_if(st.routed.map(|k| k.is_info()).unwrap_or(false) && st.value, "info_value")
        .class_if(st.routed.map(|k| k.is_info()).unwrap_or(false) && !st.value, "info_refused")
        .class_if(st.complete_partial, "partial_complete")
        .class_if(st.cross_values > 0, "value_as_other_kind")
        .class_if(st.clients >= 17, "clients_17_plus")
        .class_if(st.clients >= 64, "clients_64_plus")
        .class_if(c.cut.is_some(), "truncated")
        .class_if(c.patch.is_some(), "patched");
    Ok(match st.routed {
        Some(k) => o.class(k.name()),
        None => o,
    })
}

// ---------------------------------------------------------------------------
// Merging

#[derive(Clone, Debug, Hash, Serialize, Deserialize)]
pub struct MergeCase {
    /// extended (`iext` + `iex+`) or legacy 64-player (`dtsf`)
    pub ex: bool,
    pub token: i32,
    pub version: String,
    pub name: String,
    pub map: String,
    pub game_type: String,
    pub map_crc: i32,
    pub map_size: i32,
    pub flags: i32,
    pub clients: Vec<Cl>,
    /// max_clients = num_clients + slack (capped)
    pub slack: u8,
    pub num_players: u16,
    pub max_players: u16,
    /// extended: number of clients in the main packet = pick(main_n, n + 1)
    pub main_n: u16,
    /// extended: sizes of the `iex+` packets
    pub sizes: Vec<u8>,
    /// arrival order of the parts: sorted by (keys[i], i)
    pub keys: Vec<u32>,
    /// repeats: (position in the schedule, part)
    pub dups: Vec<(u16, u16)>,
    /// parts that do not belong to this info: (position, part, 0 = other token / 1 = other layout)
    pub foreign: Vec<(u16, u16, u8)>,
}

#[derive(Clone, Copy, Debug, PartialEq, Eq)]
pub enum Step {
    Part(usize),
    ForeignToken(usize),
    ForeignLayout(usize),
}

pub struct Built {
    pub srv: Srv,
    /// datagrams of the parts, part 0 is the main packet / offset 0
    pub parts: Vec<Vec<u8>>,
    pub foreign_token: Vec<Vec<u8>>,
    pub foreign_layout: Vec<Vec<u8>>,
    pub expected: ServerInfo,
}

/// `sizes`: number of clients in part i (1..=24, the format's maximum per packet); parts beyond the
/// list are cut the way the reference server does (24 per packet). Any cut is legal: a part names
/// the slot of its first client in its offset field.
fn legacy_parts(srv: &Srv, clients: &[Cl], sizes: &[u8]) -> Vec<Vec<u8>> {
    let mut parts = Vec::new();
    let mut off = 0;
    loop {
        let want = sizes.get(parts.len()).copied().unwrap_or(24).clamp(1, 24) as usize;
        let end = (off + want).min(clients.len());
        parts.push(datagram(
            Info664,
            &PRE,
            &render(false, &info_toks(Info664, srv, off as i32, 0, &clients[off..end])),
        ));
        off = end;
        if off >= clients.len() {
            break;
        }
    }
    parts
}

fn extended_parts(srv: &Srv, clients: &[Cl], main_n: usize, sizes: &[u8]) -> Vec<Vec<u8>> {
    let main_n = main_n.min(clients.len());
    let mut parts = vec![datagram(
        Info6Ex,
        &PRE,
        &render(false, &info_toks(Info6Ex, srv, 0, 0, &clients[..main_n])),
    )];
    let mut off = main_n;
    let mut no = 1;
    while off < clients.len() {
        let want = sizes.get(no - 1).copied().unwrap_or(1).max(1) as usize;
        // packet numbers 1..=63 fit the 64-bit mask; the last packet takes what is left
        let end = if no == 63 { clients.len() } else { (off + want).min(clients.len()) };
        parts.push(datagram(
            Info6ExMore,
            &PRE,
            &render(false, &info_toks(Info6ExMore, srv, 0, no as i32, &clients[off..end])),
        ));
        off = end;
        no += 1;
    }
    parts
}

pub fn build(c: &MergeCase) -> Built {
    let n = c.clients.len() as i32;
    let cap = if c.ex { 128 } else { 64 };
    let max_clients = (n + c.slack as i32).min(cap).max(n);
    let num_players = pick(c.num_players, n as usize + 1) as i32;
    let max_players = num_players + pick(c.max_players, (max_clients - num_players) as usize + 1) as i32;
    let srv = Srv {
        token: c.token,
        version: c.version.clone(),
        name: c.name.clone(),
        hostname: String::new(),
        map: c.map.clone(),
        map_crc: c.map_crc,
        map_size: c.map_size & i32::MAX,
        game_type: c.game_type.clone(),
        flags: c.flags,
        progression: 0,
        skill: 0,
        num_players,
        max_players,
        num_clients: n,
        max_clients,
    };
    let main_n = pick(c.main_n, c.clients.len() + 1);
    let parts = if c.ex {
        extended_parts(&srv, &c.clients, main_n, &c.sizes)
    } else {
        legacy_parts(&srv, &c.clients, &c.sizes)
    };
    let mut other = srv.clone();
    other.token = srv.token.wrapping_add(1);
    let (foreign_token, foreign_layout) = if c.ex {
        // the same server answering in the legacy layout: counts within that layout's limits
        let mut legacy = srv.clone();
        legacy.max_clients = srv.max_clients.min(64);
        legacy.num_clients = srv.num_clients.min(64);
        legacy.max_players = srv.max_players.min(64);
        legacy.num_players = srv.num_players.min(64);
        (
            extended_parts(&other, &c.clients, main_n, &c.sizes),
            legacy_parts(&legacy, &c.clients[..c.clients.len().min(64)], &[]),
        )
    } else {
        (
            legacy_parts(&other, &c.clients, &c.sizes),
            extended_parts(&srv, &c.clients, c.clients.len().min(3), &[5; 64]),
        )
    };
    let mut clients: Vec<ClientInfo> = c
        .clients
        .iter()
        .map(|cl| ClientInfo {
            name: truncated_arraystring(&cl.name),
            clan: truncated_arraystring(&cl.clan),
            country: cl.country,
            score: cl.score,
            flags: if cl.flags == 0 { sb::CLIENTINFO_FLAG_SPECTATOR } else { 0 },
        })
        .collect();
    clients.sort();
    let expected = ServerInfo {
        info_version: if c.ex { ServerInfoVersion::V6Ex } else { ServerInfoVersion::V664 },
        token: srv.token,
        version: truncated_arraystring(&srv.version),
        name: truncated_arraystring(&srv.name),
        hostname: None,
        map: truncated_arraystring(&srv.map),
        map_crc: if c.ex { Some(srv.map_crc as u32) } else { None },
        map_size: if c.ex { Some(srv.map_size as u32) } else { None },
        game_type: truncated_arraystring(&srv.game_type),
        flags: srv.flags,
        progression: None,
        skill_level: None,
        num_players,
        max_players,
        num_clients: n,
        max_clients,
        clients,
    };
    Built {
        srv,
        parts,
        foreign_token,
        foreign_layout,
        expected,
    }
}

pub fn schedule_of(c: &MergeCase, k: usize) -> Vec<Step> {
    let mut order: Vec<usize> = (0..k).collect();
    order.sort_by_key(|&i| (c.keys.get(i).copied().unwrap_or(0), i));
    let mut s: Vec<Step> = order.into_iter().map(Step::Part).collect();
    for &(pos, part) in &c.dups {
        let at = pick(pos, s.len() + 1);
        s.insert(at, Step::Part(pick(part, k)));
    }
    for &(pos, part, kind) in &c.foreign {
        let at = pick(pos, s.len() + 1);
        s.insert(
            at,
            if kind == 0 {
                Step::ForeignToken(part as usize)
            } else {
                Step::ForeignLayout(part as usize)
            },
        );
    }
    s
}

/// Datagram -> part, the way the callers (stats-browser, httphook) do it.
pub fn parse_part(d: &[u8]) -> Result<PartialServerInfo, String> {
    let r = guard_s("parse_response on a model part", || sb::parse_response(d))?;
    let p = match r {
        Some(Response::Info664(x)) => guard_s("Info664Response::parse on a model part", || x.parse())?,
        Some(Response::Info6Ex(x)) => guard_s("Info6ExResponse::parse on a model part", || x.parse())?,
        Some(Response::Info6ExMore(x)) => guard_s("Info6ExMoreResponse::parse on a model part", || x.parse())?,
        Some(other) => return Err(format!("model part was taken for a {} response", routed_kind(&other).name())),
        None => return Err(format!("model part was not recognised as a response: [{}]", hex(&d[..d.len().min(48)]))),
    };
    p.ok_or_else(|| format!("well-formed model part was refused: [{}]", hex(&d[..d.len().min(200)])))
}

#[derive(Default, Debug)]
pub struct MergeStats {
    pub steps: usize,
    pub repeats: usize,
    pub foreign: usize,
    pub completed_at: Option<usize>,
    pub steps_after_complete: usize,
}

/// Run one schedule against the library and check the model after every step.
pub fn run_schedule(b: &Built, schedule: &[Step]) -> Result<MergeStats, String> {
    let k = b.parts.len();
    let parsed: Vec<PartialServerInfo> = b.parts.iter().map(|d| parse_part(d)).collect::<Result<_, _>>()?;
    // reference: in order, every part once
    {
        let mut r = parsed[0].clone();
        for (i, p) in parsed.iter().enumerate().skip(1) {
            let p = p.clone();
            let res = guard_s("merge (in-order reference)", || r.merge(p))?;
            ensure!(res.is_ok(), "in-order merge of part {} of {} failed: {:?}", i, k, res);
        }
        let got = guard_s("get_info (in-order reference)", || r.get_info().cloned())?;
        ensure_eq!(
            got.as_ref(),
            Some(&b.expected),
            "in-order duplicate-free merge of all {} parts does not give the model's info",
            k
        );
    }
    let mut st = MergeStats::default();
    let mut have = vec![false; k];
    let mut partial: Option<PartialServerInfo> = None;
    let describe = |upto: usize| -> String {
        let s: Vec<String> = schedule[..=upto]
            .iter()
            .map(|s| match s {
                Step::Part(i) => format!("{}", i),
                Step::ForeignToken(i) => format!("T{}", i),
                Step::ForeignLayout(i) => format!("L{}", i),
            })
            .collect();
        format!("{} parts, arrival order [{}]", k, s.join(","))
    };
    for (si, step) in schedule.iter().enumerate() {
        let mut first_time = false;
        let incoming = match *step {
            Step::Part(i) => {
                if have[i] {
                    st.repeats += 1;
                } else {
                    first_time = true;
                }
                have[i] = true;
                parsed[i].clone()
            }
            Step::ForeignToken(i) => {
                if partial.is_none() {
                    continue; // the callers only keep a first part whose token they asked for
                }
                st.foreign += 1;
                parse_part(&b.foreign_token[i % b.foreign_token.len()])?
            }
            Step::ForeignLayout(i) => {
                if partial.is_none() {
                    continue;
                }
                st.foreign += 1;
                parse_part(&b.foreign_layout[i % b.foreign_layout.len()])?
            }
        };
        st.steps += 1;
        match &mut partial {
            None => partial = Some(incoming),
            Some(p) => {
                let res = guard(|| p.merge(incoming)).map_err(|e| format!("merge: {} ({})", e, describe(si)))?;
                // (what merge answers for a repeated or foreign part is not part of the property - only the state is)
                if let (true, Err(e)) = (first_time, &res) {
                    return Err(format!("merge refused a part that had not been merged before with {:?} ({})", e, describe(si)));
                }
            }
        }
        let p = partial.as_mut().unwrap();
        let got = guard(|| p.get_info().cloned()).map_err(|e| format!("get_info: {} ({})", e, describe(si)))?;
        let all = have.iter().all(|&h| h);
        if all != got.is_some() {
            let missing: Vec<usize> = (0..k).filter(|&i| !have[i]).collect();
            return Err(if all {
                format!(
                    "every part has been merged at least once but the info is not reported complete ({})",
                    describe(si)
                )
            } else {
                format!(
                    "info reported complete although parts {:?} have not been merged ({}); reported: {:?}",
                    missing,
                    describe(si),
                    got
                )
            });
        }
        if let Some(info) = got {
            ensure_eq!(info, b.expected, "complete info differs from the model ({})", describe(si));
            if st.completed_at.is_none() {
                st.completed_at = Some(si);
            } else {
                st.steps_after_complete += 1;
            }
        }
    }
    if let Some(mut p) = partial {
        let complete = have.iter().all(|&h| h);
        let taken = guard_s("take_info at the end of the schedule", || p.take_info())?;
        ensure_eq!(
            taken.as_ref(),
            if complete { Some(&b.expected) } else { None },
            "take_info at the end of the schedule"
        );
        let again = parsed[0].clone();
        guard_s("merge/get_info after take_info", move || {
            let _ = p.merge(again);
            let _ = p.get_info().is_some();
        })?;
    }
    Ok(st)
}

fn has_repeat(schedule: &[Step]) -> bool {
    let mut seen = Vec::new();
    for s in schedule {
        if let Step::Part(i) = s {
            if seen.contains(i) {
                return true;
            }
            seen.push(*i);
        }
    }
    false
}

fn check_merge_case(c: &MergeCase, skip_repeats: bool) -> PResult {
    let b = build(c);
    let k = b.parts.len();
    let mut schedule = schedule_of(c, k);
    let mut excluded = false;
    if skip_repeats && has_repeat(&schedule) {
        // known finding: take the repeats out, the rest of the schedule is still checked
        let mut seen = vec![false; k];
        schedule.retain(|s| match s {
            Step::Part(i) => !std::mem::replace(&mut seen[*i], true),
            _ => true,
        });
        excluded = true;
    }
    let st = run_schedule(&b, &schedule)?;
    let order: Vec<usize> = schedule
        .iter()
        .filter_map(|s| if let Step::Part(i) = s { Some(*i) } else { None })
        .fold(Vec::new(), |mut v, i| {
            if !v.contains(&i) {
                v.push(i);
            }
            v
        });
    let identity = order.iter().enumerate().all(|(a, b)| a == *b);
    Ok(Outcome::nt(k >= 3 && (!identity || st.repeats > 0))
        .class(if c.ex { "extended" } else { "legacy_64" })
        .class_if(excluded, "repeats_removed_known_finding")
        .class_if(k == 1, "parts_1")
        .class_if(k == 2, "parts_2")
        .class_if(k == 3, "parts_3")
        .class_if((4..=8).contains(&k), "parts_4_8")
        .class_if((9..=32).contains(&k), "parts_9_32")
        .class_if((33..=63).contains(&k), "parts_33_63")
        .class_if(k == 64, "parts_64_max")
        .class_if(!identity, "permuted")
        .class_if(order.first() != Some(&0), "main_not_first")
        .class_if(st.repeats > 0, "repeats")
        .class_if(st.repeats >= 4, "repeats_4_plus")
        .class_if(st.foreign > 0, "foreign_parts")
        .class_if(st.steps_after_complete > 0, "steps_after_complete")
        .class_if(c.clients.len() == 64, "clients_64")
        .class_if(c.clients.is_empty(), "clients_0"))
}

fn honest_text(max: usize) -> BoxedStrategy<String> {
    prop_oneof![
        6 => proptest::string::string_regex(&format!("[a-zA-Z0-9 _.\\-]{{0,{}}}", max)).unwrap(),
        1 => (0..=max + 3, proptest::sample::select(vec!["\u{e9}", "\u{20ac}", "\u{1f600}"])).prop_map(|(n, ch)| format!("{}{}", "a".repeat(n), ch)),
    ]
    .boxed()
}

fn honest_client() -> impl Strategy<Value = Cl> {
    prop_oneof![
        5 => (honest_text(15), honest_text(11), -1i32..300, prop_oneof![4 => -20i32..2000, 1 => any::<i32>()], 0i32..=1).prop_map(
            |(name, clan, country, score, flags)| Cl {
                name,
                clan,
                country,
                score,
                flags,
            }
        ),
        1 => (0usize..3).prop_map(|i| Cl {
            name: ["(connecting)", "nameless tee", ""][i].to_string(),
            clan: String::new(),
            country: -1,
            score: 0,
            flags: (i == 1) as i32,
        }),
    ]
}

fn merge_strategy(with_repeats: bool) -> impl Strategy<Value = MergeCase> {
    let shape = prop_oneof![
        // (extended, clients, main_n, sizes)
        2 => (proptest::collection::vec(honest_client(), 0..=24)).prop_map(|c| (false, c, 0u16, vec![])),
        3 => (proptest::collection::vec(honest_client(), 25..=48)).prop_map(|c| (false, c, 0u16, vec![])),
        5 => (proptest::collection::vec(honest_client(), 49..=64)).prop_map(|c| (false, c, 0u16, vec![])),
        // legacy infos cut unevenly (offsets that are not multiples of 24), down to one client per part
        4 => (proptest::collection::vec(honest_client(), 2..=64), proptest::collection::vec(1u8..=24, 64)).prop_map(|(c, s)| (false, c, 0u16, s)),
        3 => (proptest::collection::vec(honest_client(), 8..=64), proptest::collection::vec(1u8..=9, 64)).prop_map(|(c, s)| (false, c, 0u16, s)),
        1 => (proptest::collection::vec(honest_client(), 40..=64), Just(vec![1u8; 64])).prop_map(|(c, s)| (false, c, 0u16, s)),
        6 => (proptest::collection::vec(honest_client(), 0..=12), any::<u16>(), proptest::collection::vec(1u8..=4, 64))
            .prop_map(|(c, m, s)| (true, c, m, s)),
        5 => (proptest::collection::vec(honest_client(), 0..=64), any::<u16>(), proptest::collection::vec(1u8..=30, 64))
            .prop_map(|(c, m, s)| (true, c, m, s)),
        3 => (proptest::collection::vec(honest_client(), 30..=64), any::<u16>(), proptest::collection::vec(1u8..=3, 64))
            .prop_map(|(c, m, s)| (true, c, m, s)),
        2 => (proptest::collection::vec(honest_client(), 36..=64), any::<u16>(), proptest::collection::vec(1u8..=2, 64))
            .prop_map(|(c, m, s)| (true, c, (m >> 3), s)),
        // the maximum: 64 parts (main + packet numbers 1..=63)
        2 => (proptest::collection::vec(honest_client(), 63..=64), 0u16..=1500, Just(vec![1u8; 64]))
            .prop_map(|(c, m, s)| (true, c, m, s)),
    ];
    let dups = if with_repeats {
        prop_oneof![
            2 => Just(Vec::new()).boxed(),
            4 => proptest::collection::vec((any::<u16>(), any::<u16>()), 1..=3).boxed(),
            3 => proptest::collection::vec((any::<u16>(), any::<u16>()), 4..=12).boxed(),
            1 => proptest::collection::vec((any::<u16>(), any::<u16>()), 30..=190).boxed(),
        ]
        .boxed()
    } else {
        Just(Vec::new()).boxed()
    };
    (
        shape,
        (any::<i32>(), honest_text(32), honest_text(64), honest_text(32), honest_text(32)),
        (any::<i32>(), any::<i32>(), any::<i32>(), 0u8..6, any::<u16>(), any::<u16>()),
        prop_oneof![
            1 => Just(vec![0u32; 64]),
            6 => proptest::collection::vec(any::<u32>(), 64),
            1 => Just((0..64u32).rev().collect::<Vec<_>>()),
        ],
        dups,
        prop_oneof![
            3 => Just(Vec::new()).boxed(),
            2 => proptest::collection::vec((any::<u16>(), 0u16..64, 0u8..=1), 1..=3).boxed(),
        ],
    )
        .prop_map(
            |((ex, clients, main_n, sizes), (token, version, name, map, game_type), (map_crc, map_size, flags, slack, np, mp), keys, dups, foreign)| MergeCase {
                ex,
                token,
                version,
                name,
                map,
                game_type,
                map_crc,
                map_size,
                flags,
                clients,
                slack,
                num_players: np,
                max_players: mp,
                main_n,
                sizes,
                keys,
                dups,
                foreign,
            },
        )
}

// exhaustive: every arrival sequence of length <= L over the k parts plus one foreign part

#[derive(Clone, Debug)]
struct SeqPlan {
    ex: bool,
    k: usize,
    variant: usize,
    max_len: usize,
}

fn seq_case(p: &SeqPlan) -> MergeCase {
    // number of clients so that exactly k parts result
    let (n, main_n, sizes): (usize, u16, Vec<u8>) = if p.ex {
        let main = if p.variant == 0 { 0 } else { 2 };
        let per = if p.variant == 0 { 1 } else { 2 };
        (main + (p.k - 1) * per, pick_inverse(main, main + (p.k - 1) * per + 1), vec![per as u8; 64])
    } else {
        let n = match (p.k, p.variant) {
            (1, 0) => 0,
            (1, _) => 24,
            (2, 0) => 25,
            (2, _) => 48,
            (_, 0) => 49,
            _ => 64,
        };
        (n, 0, vec![])
    };
    MergeCase {
        ex: p.ex,
        token: 0x1234 + p.k as i32,
        version: "0.6.4, 16.1".into(),
        name: "exhaustive schedules".into(),
        map: "Kobra 4".into(),
        game_type: "DDraceNetwork".into(),
        map_crc: -2,
        map_size: 123456,
        flags: 0,
        clients: (0..n).map(|i| if i % 5 == 4 { base_client(3) } else { base_client(i) }).collect(),
        slack: 1,
        num_players: 0x8000,
        max_players: 0x8000,
        main_n,
        sizes,
        keys: vec![],
        dups: vec![],
        foreign: vec![],
    }
}

/// smallest 16-bit index that `pick` maps to `want` in `0..len`
fn pick_inverse(want: usize, len: usize) -> u16 {
    let mut i = ((want << 16) / len) as u32;
    while pick(i as u16, len) < want {
        i += 1;
    }
    i as u16
}

fn seq_count(alphabet: u64, max_len: usize) -> u64 {
    (0..=max_len as u32).map(|l| alphabet.pow(l)).sum()
}

fn seq_decode(alphabet: u64, max_len: usize, mut idx: u64) -> Vec<usize> {
    for l in 0..=max_len as u32 {
        let n = alphabet.pow(l);
        if idx < n {
            let mut v = Vec::new();
            for _ in 0..l {
                v.push((idx % alphabet) as usize);
                idx /= alphabet;
            }
            return v;
        }
        idx -= n;
    }
    unreachable!()
}

fn seq_plans(thorough: bool) -> Blocks<SeqPlan> {
    let mut items = Vec::new();
    let add = thorough as usize * 2;
    for variant in 0..2 {
        for k in 1..=3usize {
            let max_len = (if k == 3 { 6 } else { 7 }) + add;
            let p = SeqPlan {
                ex: false,
                k,
                variant,
                max_len,
            };
            items.push((p, seq_count(k as u64 + 1, max_len)));
        }
        for k in 1..=(if thorough { 6usize } else { 5 }) {
            let max_len = match k {
                1..=3 => 7 + add,
                4 => 6 + add,
                5 => 5 + add,
                _ => 6,
            };
            let p = SeqPlan {
                ex: true,
                k,
                variant,
                max_len,
            };
            items.push((p, seq_count(k as u64 + 1, max_len)));
        }
    }
    Blocks::new(items)
}

fn seq_schedule(p: &SeqPlan, sub: u64) -> Vec<Step> {
    seq_decode(p.k as u64 + 1, p.max_len, sub)
        .into_iter()
        .map(|d| if d == p.k { Step::ForeignToken(0) } else { Step::Part(d) })
        .collect()
}

// ---------------------------------------------------------------------------
// Probes for the known findings

fn probe_dup() -> Result<(), String> {
    let mut c = seq_case(&SeqPlan {
        ex: true,
        k: 2,
        variant: 0,
        max_len: 3,
    });
    c.clients.truncate(1);
    let b = build(&c);
    ensure_eq!(b.parts.len(), 2, "probe construction");
    run_schedule(&b, &[Step::Part(0), Step::Part(1), Step::Part(1)]).map(|_| ())
}

fn probe_pkt64() -> Result<(), String> {
    let toks = info_toks(Info6ExMore, &base_srv(Info6ExMore, 0), 0, 64, &[]);
    check_datagram(&datagram(Info6ExMore, &PRE, &render(false, &toks)))
}

fn probe_slot64() -> Result<(), String> {
    let toks = info_toks(Info664, &base_srv(Info664, 1), 64, 0, &[base_client(0)]);
    check_datagram(&datagram(Info664, &PRE, &render(false, &toks)))
}

// ---------------------------------------------------------------------------

pub fn run(ctx: &Ctx) {
    ctx.set_rule(
        "totality: model-server datagrams of all 13 response kinds - every truncation and single-byte patch of base datagrams, \
         every numeric field swept over 46 boundary values, count quadruples / offset x clients / packet number x clients \
         products, proptest-generated hostile field lists (boundary integers, malformed number texts, invalid UTF-8, deleted / \
         duplicated / inserted fields, cut, patched) and random bytes behind real headers (non-trivial = parse_response \
         recognised the datagram and a value was returned or more than 24 bytes were parsed). merging: every arrival sequence \
         up to length 5..7 over the 1..5 parts (plus a part of another token) of legacy and extended infos, and generated \
         schedules (random permutation, 0..190 repeats, foreign parts) over infos of 0..64 clients in 1..64 parts, model \
         checked after every step (non-trivial = >= 3 parts and not the identity order or a repeated part; distinct by case hash)",
    );
    ctx.assume("the expected strings are cut to the library's field widths with libtw2_common::str::truncated_arraystring (truncation is not part of this property)");
    ctx.assume("an iex+ packet of a real server carries at least one client; the main packet and every dtsf packet carry the full header");
    ctx.assume("a returned info must satisfy the count sanity check the parser documents (0 <= players <= clients <= max_clients <= version maximum)");

    let excl = Excl {
        slot64: ctx.known_open(KEY_SLOT64),
        pkt64: ctx.known_open(KEY_PKT64),
    };
    let skip_repeats = ctx.known_open(KEY_DUP);

    if skip_repeats {
        ctx.note(format!(
            "known finding {}: schedules are generated without repeated parts (merge_schedules) / sequences with a repeated part are skipped and counted in excluded_known (merge_all_sequences)",
            KEY_DUP
        ));
    }
    if excl.slot64 || excl.pkt64 {
        ctx.note("known shift findings: dtsf payloads that can reach client slot 64 / iex+ payloads announcing packet 64 are not handed to the library (counted in excluded_known for the exhaustive sections, class excluded_known in the generated ones)".to_string());
    }
    ctx.probe(KEY_DUP, probe_dup);
    ctx.probe(KEY_PKT64, probe_pkt64);
    ctx.probe(KEY_SLOT64, probe_slot64);

    let tally = Tally::new();

    // every truncation of base datagrams of all kinds
    {
        let bases = base_datagrams(&[0, 1, 2, 3, 17, 64]);
        let blocks = Blocks::new(bases.into_iter().map(|(k, d)| { let n = d.len() as u64 + 1; ((k, d), n) }).collect());
        ctx.exhaustive(
            "truncations",
            blocks.total,
            |i| {
                let ((_, d), cut) = blocks.get(i);
                tally.run(&d[..cut as usize], excl)
            },
            |i| {
                let ((k, d), cut) = blocks.get(i);
                json!({"kind": k.name(), "datagram": hex(&d[..cut as usize])})
            },
        );
    }
    // every single-byte patch
    {
        const PATCH: [u8; 6] = [0x00, b'-', b'9', 0x80, 0xff, 0x21];
        let bases = base_datagrams(&[0, 2, 17]);
        let blocks = Blocks::new(
            bases
                .into_iter()
                .map(|(k, d)| { let n = d.len() as u64 * PATCH.len() as u64; ((k, d), n) })
                .collect(),
        );
        let make = |i: u64| -> (Kind, Vec<u8>) {
            let ((k, d), sub) = blocks.get(i);
            let mut d = d.clone();
            d[(sub / PATCH.len() as u64) as usize] = PATCH[(sub % PATCH.len() as u64) as usize];
            (*k, d)
        };
        ctx.exhaustive(
            "byte_patches",
            blocks.total,
            |i| tally.run(&make(i).1, excl),
            |i| {
                let (k, d) = make(i);
                json!({"kind": k.name(), "datagram": hex(&d)})
            },
        );
    }
    // every numeric field over the boundary values
    {
        let mut items = Vec::new();
        for kind in INFO_KINDS {
            for n in [0usize, 1, 2, 16, 24, 64] {
                let l = base_layout(kind, n);
                for pos in int_positions(&l) {
                    items.push(((kind, n, pos), B.len() as u64));
                }
            }
        }
        let blocks = Blocks::new(items);
        let make = |i: u64| -> (Kind, Vec<u8>, String) {
            let (&(kind, n, pos), sub) = blocks.get(i);
            let l = base_layout(kind, n);
            let v = B[sub as usize];
            let d = datagram(kind, &PRE, &render(kind.packed_ints(), &set_int(&l, &[(pos, v)])));
            (kind, d, format!("{} with {} clients, field #{} ({:?}) = {}", kind.name(), n, pos, l[pos].0, v))
        };
        ctx.exhaustive(
            "numeric_single",
            blocks.total,
            |i| tally.run(&make(i).1, excl),
            |i| {
                let (_, d, what) = make(i);
                json!({"what": what, "datagram": hex(&d[..d.len().min(300)])})
            },
        );
    }
    {
        let blocks = pair_plans(!ctx.quick());
        let make = |i: u64| -> (Vec<u8>, String) {
            let (plan, sub) = blocks.get(i);
            let (kind, toks, what) = pair_datagram(plan, sub);
            (datagram(kind, &PRE, &render(kind.packed_ints(), &toks)), what)
        };
        ctx.exhaustive(
            "numeric_products",
            blocks.total,
            |i| tally.run(&make(i).0, excl),
            |i| {
                let (d, what) = make(i);
                json!({"what": what, "datagram": hex(&d[..d.len().min(300)])})
            },
        );
    }
    tally.flush(ctx);

    ctx.prop("hostile_datagrams", ctx.n(100_000, 4_000_000), dg_strategy, |c: &DgCase| check_dg_case(c, excl));
    ctx.prop("random_datagrams", ctx.n(60_000, 1_500_000), random_datagram, |d: &Vec<u8>| {
        let st = check_datagram_tolerant(d, excl)?;
        let o = Outcome::nt(st.routed.is_some() && !st.excluded)
            .class_if(st.excluded, "excluded_known")
            .class_if(st.value && st.routed.map(|k| k.is_info()).unwrap_or(false), "info_value")
            .class_if(st.cross_values > 0 && st.routed.is_none(), "unrouted_payload_value");
        Ok(match st.routed {
            Some(k) => o.class(k.name()),
            None => o.class("not_routed"),
        })
    });

    // merging: all short arrival sequences
    {
        let blocks = seq_plans(!ctx.quick());
        let built: Vec<Built> = blocks.items.iter().map(|(p, _)| build(&seq_case(p))).collect();
        for ((p, _), b) in blocks.items.iter().zip(&built) {
            assert_eq!(b.parts.len(), p.k, "exhaustive plan {:?} must have exactly k parts", p);
        }
        let excluded = AtomicU64::new(0);
        let plan_index = |i: u64| -> (usize, u64) { blocks.locate(i) };
        ctx.exhaustive(
            "merge_all_sequences",
            blocks.total,
            |i| {
                let (pi, sub) = plan_index(i);
                let p = &blocks.items[pi].0;
                let s = seq_schedule(p, sub);
                if skip_repeats && has_repeat(&s) {
                    excluded.fetch_add(1, Ordering::Relaxed);
                    return Ok(false);
                }
                let st = run_schedule(&built[pi], &s)?;
                let parts: Vec<usize> = s.iter().filter_map(|x| if let Step::Part(i) = x { Some(*i) } else { None }).collect();
                let identity = parts.iter().enumerate().all(|(a, b)| a == *b);
                Ok(p.k >= 3 && parts.len() >= 3 && (!identity || st.repeats > 0))
            },
            |i| {
                let (pi, sub) = plan_index(i);
                let p = &blocks.items[pi].0;
                json!({"plan": format!("{:?}", p), "schedule": format!("{:?}", seq_schedule(p, sub))})
            },
        );
        ctx.add_excluded_known(excluded.into_inner());
    }
    ctx.prop(
        "merge_schedules",
        ctx.n(20_000, 600_000),
        || merge_strategy(!skip_repeats),
        |c: &MergeCase| check_merge_case(c, skip_repeats),
    );
}

/// Well-formed datagrams of every response kind (seed corpus for the fuzz target).
pub fn seed_datagrams() -> Vec<Vec<u8>> {
    let mut v = Vec::new();
    for kind in KINDS {
        for n in [0usize, 2, 5] {
            v.push(datagram(kind, &PRE, &base_payload(kind, n)));
        }
    }
    v
}
