//! C12 - multi-part snapshot transfer reassembles exactly once.
//!
//! Generator: transfers (tick, base tick, data length 0..=32*900, crc) cut into messages by the
//! library's own `delta_chunks`, delivered to one `DeltaReceiver` in generated / enumerated orders
//! with duplicates, interleaved with the messages of other (older and newer) ticks and with
//! arbitrary ("hostile") messages whose tick is older than the newest one seen.
//!
//! Oracle: a reference model of the receiver contract (newest tick seen, set of parts received
//! for it, completed flag) decides for every call whether it has to hand out the transfer
//! (`Ok(Some(..))` with the original tick, absolute base tick, data and crc) or must not; the
//! warning sink has to stay empty for consistent transfers; a twin run of the same schedule
//! without the old-tick messages has to give the same result for every remaining call.

use crate::util::Warnings;
use crate::{burn, ensure, ensure_eq, guard_s, pick, set_fuel, unlimited_fuel, Ctx, Outcome};
use libtw2_gamenet_snap as msg;
use libtw2_gamenet_snap::SnapMsg;
use libtw2_snapshot::snap::delta_chunks;
use libtw2_snapshot::DeltaReceiver;
use proptest::prelude::*;
use serde::{Deserialize, Serialize};
use serde_json::json;
use std::collections::BTreeSet;

pub const PART: usize = 900;
pub const MAX_PARTS: usize = 32;
pub const KEY_ATTR: &str = "multipart-base-tick-compared-relative";

// ---------------------------------------------------------------------------
// Case types

#[derive(Clone, Debug, Hash, Serialize, Deserialize, PartialEq)]
pub struct Transfer {
    pub tick: i32,
    pub base: i32,
    pub len: u32,
    pub seed: u8,
    pub crc: i32,
}

#[derive(Clone, Debug, Hash, Serialize, Deserialize, PartialEq)]
pub enum Deliv {
    /// message `p` (0 for the empty/single form) of transfer `t`
    Part { t: u8, p: u8 },
    /// an arbitrary message for a tick strictly older than the newest tick seen so far
    /// (`newest - 1 - back`); skipped when nothing was seen yet or the subtraction overflows
    Old {
        back: u16,
        form: u8,
        delta_tick: i32,
        num_parts: i32,
        part: i32,
        crc: i32,
        len: u16,
    },
}

#[derive(Clone, Debug, Hash, Serialize, Deserialize, PartialEq)]
pub struct HistCase {
    pub transfers: Vec<Transfer>,
    pub sched: Vec<Deliv>,
}

// ---------------------------------------------------------------------------
// Sender side

pub fn make_data(len: usize, seed: u8) -> Vec<u8> {
    (0..len)
        .map(|i| ((i / PART) * 37 + (i % PART) * 7 + (i % PART) / 256 + seed as usize) as u8)
        .collect()
}

#[derive(Clone, Debug, PartialEq)]
pub enum OMsg {
    Empty { tick: i32, delta_tick: i32 },
    Single { tick: i32, delta_tick: i32, crc: i32, data: Vec<u8> },
    Part { tick: i32, delta_tick: i32, num_parts: i32, part: i32, crc: i32, data: Vec<u8> },
}

impl OMsg {
    pub fn from_msg(m: &SnapMsg) -> OMsg {
        match *m {
            SnapMsg::SnapEmpty(e) => OMsg::Empty { tick: e.tick, delta_tick: e.delta_tick },
            SnapMsg::SnapSingle(s) => OMsg::Single {
                tick: s.tick,
                delta_tick: s.delta_tick,
                crc: s.crc,
                data: s.data.to_vec(),
            },
            SnapMsg::Snap(s) => OMsg::Part {
                tick: s.tick,
                delta_tick: s.delta_tick,
                num_parts: s.num_parts,
                part: s.part,
                crc: s.crc,
                data: s.data.to_vec(),
            },
        }
    }
    pub fn tick(&self) -> i32 {
        match *self {
            OMsg::Empty { tick, .. } | OMsg::Single { tick, .. } | OMsg::Part { tick, .. } => tick,
        }
    }
}

pub static NONMINIMAL_SPLITS: std::sync::atomic::AtomicU64 = std::sync::atomic::AtomicU64::new(0);

/// Cuts the transfer into messages with the library's `delta_chunks` and checks the sender-side
/// premise of the property: the messages are consistent (same tick, base tick and checksum, parts
/// numbered 0..n-1 of n) and their data concatenates to the original data. How the data is cut is the
/// sender's business: a split other than the minimal one (ceil(len/900) non-empty parts, empty / single
/// form for 0 / 1 part) is only counted.
pub fn sender_msgs(tr: &Transfer, data: &[u8]) -> Result<Vec<OMsg>, String> {
    ensure!(
        tr.tick.checked_sub(tr.base).is_some(),
        "generator error: tick - base overflows ({} - {})",
        tr.tick,
        tr.base
    );
    let msgs: Vec<OMsg> = guard_s("delta_chunks", || {
        let mut out = Vec::new();
        for m in delta_chunks(tr.tick, tr.base, data, tr.crc) {
            burn();
            out.push(OMsg::from_msg(&m));
        }
        out
    })?;
    let n = (data.len() + PART - 1) / PART;
    ensure!(!msgs.is_empty(), "delta_chunks produced no message for {} bytes", data.len());
    let mut minimal = msgs.len() == n.max(1);
    let wire = tr.tick - tr.base;
    let mut cat = Vec::with_capacity(data.len());
    for (i, m) in msgs.iter().enumerate() {
        match m {
            OMsg::Empty { tick, delta_tick } => {
                ensure!(msgs.len() == 1, "empty form among {} messages", msgs.len());
                ensure_eq!((*tick, *delta_tick), (tr.tick, wire), "attributes of the empty form");
            }
            OMsg::Single { tick, delta_tick, crc, data: d } => {
                ensure!(msgs.len() == 1, "single form among {} messages", msgs.len());
                ensure_eq!((*tick, *delta_tick, *crc), (tr.tick, wire, tr.crc), "attributes of the single form");
                minimal &= n == 1;
                cat.extend_from_slice(d);
            }
            OMsg::Part { tick, delta_tick, num_parts, part, crc, data: d } => {
                ensure_eq!(
                    (*tick, *delta_tick, *crc, *num_parts, *part),
                    (tr.tick, wire, tr.crc, msgs.len() as i32, i as i32),
                    "attributes of part {}",
                    i
                );
                minimal &= n >= 2 && !d.is_empty() && d.len() <= PART;
                cat.extend_from_slice(d);
            }
        }
    }
    ensure!(cat == data, "the parts in order do not concatenate to the data ({} bytes)", data.len());
    if !minimal {
        NONMINIMAL_SPLITS.fetch_add(1, std::sync::atomic::Ordering::Relaxed);
    }
    Ok(msgs)
}

// ---------------------------------------------------------------------------
// Receiver side

#[derive(Clone, Debug, PartialEq)]
pub enum Res {
    Done { tick: i32, delta_tick: i32, data: Option<(Vec<u8>, i32)> },
    Pending,
    Err(String),
}

fn short(r: &Res) -> String {
    match r {
        Res::Done { tick, delta_tick, data } => format!(
            "Ok(Some(tick={}, delta_tick={}, data={}))",
            tick,
            delta_tick,
            match data {
                None => "None".to_string(),
                Some((d, c)) => format!("{} bytes, crc={}", d.len(), c),
            }
        ),
        Res::Pending => "Ok(None)".into(),
        Res::Err(e) => format!("Err({})", e),
    }
}

/// Compact but complete rendering (data as length + 64-bit FNV hash) for the twin-run comparison.
fn render(r: &Res) -> String {
    match r {
        Res::Done { data: Some((d, _)), .. } => {
            let mut h: u64 = 0xcbf29ce484222325;
            for &b in d {
                h = (h ^ b as u64).wrapping_mul(0x100000001b3);
            }
            format!("{} fnv={:016x}", short(r), h)
        }
        _ => short(r),
    }
}

pub fn feed(r: &mut DeltaReceiver, w: &mut Warnings, m: &OMsg) -> Result<Res, String> {
    guard_s("DeltaReceiver call", || {
        let res = match m {
            OMsg::Empty { tick, delta_tick } => r.snap_empty(w, msg::SnapEmpty { tick: *tick, delta_tick: *delta_tick }),
            OMsg::Single { tick, delta_tick, crc, data } => r.snap_single(
                w,
                msg::SnapSingle { tick: *tick, delta_tick: *delta_tick, crc: *crc, data },
            ),
            OMsg::Part { tick, delta_tick, num_parts, part, crc, data } => r.snap(
                w,
                msg::Snap {
                    tick: *tick,
                    delta_tick: *delta_tick,
                    num_parts: *num_parts,
                    part: *part,
                    crc: *crc,
                    data,
                },
            ),
        };
        match res {
            Ok(Some(d)) => Res::Done {
                tick: d.tick,
                delta_tick: d.delta_tick,
                data: d.data_and_crc.map(|(b, c)| (b.to_vec(), c)),
            },
            Ok(None) => Res::Pending,
            Err(e) => Res::Err(format!("{:?}", e)),
        }
    })
}

#[derive(Default, Debug, Clone)]
pub struct Stats {
    pub completed: usize,
    pub completed_multi_shuffled: usize,
    pub old_msgs: usize,
    pub old_hostile: usize,
    pub dups: usize,
    pub max_parts: usize,
    pub abandoned: usize,
    pub calls: usize,
}

/// Feeds the schedule to a fresh receiver, checking every call against the model. Returns the
/// rendered result of every call that was not for an old tick (for the twin run).
fn run_hist(c: &HistCase, skip_old: bool) -> Result<(Vec<(usize, String)>, Stats), String> {
    let datas: Vec<Vec<u8>> = c.transfers.iter().map(|t| make_data(t.len as usize, t.seed)).collect();
    let mut msgs: Vec<Vec<OMsg>> = Vec::new();
    for (t, d) in c.transfers.iter().zip(&datas) {
        msgs.push(sender_msgs(t, d)?);
    }
    for (i, a) in c.transfers.iter().enumerate() {
        for b in &c.transfers[..i] {
            ensure!(a.tick != b.tick, "generator error: two transfers for tick {}", a.tick);
        }
    }
    let mut recv = DeltaReceiver::new();
    let mut st = Stats::default();
    // model
    let mut newest: Option<i32> = None;
    let mut got: BTreeSet<u8> = BTreeSet::new();
    let mut arrival: Vec<u8> = Vec::new();
    let mut had_dup = false;
    let mut completed = false;
    let mut done_ticks: BTreeSet<i32> = BTreeSet::new();
    let mut out = Vec::new();
    // Schedules are generated for the minimal split (ceil(len/900) messages). Should the sender cut the
    // data differently, they are mapped onto what it produced: surplus messages follow the last regular
    // one, indices beyond the end wrap around (and count as duplicates).
    let mut sched: Vec<(usize, Deliv)> = Vec::with_capacity(c.sched.len());
    for (si, d) in c.sched.iter().enumerate() {
        match d {
            Deliv::Part { t, p } => {
                let ti = *t as usize;
                ensure!(ti < msgs.len(), "generator error: bad schedule entry");
                let minimal = ((datas[ti].len() + PART - 1) / PART).max(1);
                let have = msgs[ti].len();
                ensure!((*p as usize) < minimal, "generator error: bad schedule entry");
                sched.push((si, Deliv::Part { t: *t, p: (*p as usize % have) as u8 }));
                if *p as usize == minimal - 1 {
                    for extra in minimal..have {
                        sched.push((si, Deliv::Part { t: *t, p: extra.min(255) as u8 }));
                    }
                }
            }
            other => sched.push((si, other.clone())),
        }
    }
    for (si, d) in sched.iter() {
        let si = *si;
        burn();
        let (m, consistent_of): (OMsg, Option<(usize, u8)>) = match d {
            Deliv::Part { t, p } => {
                let ti = *t as usize;
                (msgs[ti][*p as usize].clone(), Some((ti, *p)))
            }
            Deliv::Old { back, form, delta_tick, num_parts, part, crc, len } => {
                let Some(n) = newest else { continue };
                let Some(tick) = n.checked_sub(1).and_then(|x| x.checked_sub(*back as i32)) else { continue };
                let data = make_data(*len as usize, *crc as u8);
                let m = match form % 3 {
                    0 => OMsg::Empty { tick, delta_tick: *delta_tick },
                    1 => OMsg::Single { tick, delta_tick: *delta_tick, crc: *crc, data },
                    _ => OMsg::Part { tick, delta_tick: *delta_tick, num_parts: *num_parts, part: *part, crc: *crc, data },
                };
                (m, None)
            }
        };
        let tick = m.tick();
        let old = newest.map(|n| tick < n).unwrap_or(false);
        if old {
            st.old_msgs += 1;
            if consistent_of.is_none() {
                st.old_hostile += 1;
            }
            if skip_old {
                continue;
            }
        }
        let mut w = Warnings::new();
        let res = feed(&mut recv, &mut w, &m)?;
        st.calls += 1;
        if old {
            ensure!(
                !matches!(res, Res::Done { .. }),
                "call #{} ({:?}) is for tick {} which is older than the newest tick seen ({}), but it completed a transfer: {}",
                si,
                d,
                tick,
                newest.unwrap(),
                short(&res)
            );
            continue;
        }
        let (ti, p) = consistent_of.expect("hostile messages are old by construction");
        let tr = &c.transfers[ti];
        let nmsgs = msgs[ti].len();
        if newest.map(|n| tick > n).unwrap_or(true) {
            if newest.is_some() && !completed {
                st.abandoned += 1;
            }
            newest = Some(tick);
            got.clear();
            arrival.clear();
            had_dup = false;
            completed = false;
        }
        let mut expect_done = false;
        if completed {
            st.dups += 1;
        } else if got.contains(&p) {
            st.dups += 1;
            had_dup = true;
        } else {
            got.insert(p);
            arrival.push(p);
            if got.len() == nmsgs {
                expect_done = true;
                completed = true;
            }
        }
        if !w.is_empty() {
            return Err(format!(
                "call #{} (message {} of {} of the consistent transfer {:?}) raised warnings {:?} (result {})",
                si, p, nmsgs, tr, w.0, short(&res)
            ));
        }
        if expect_done {
            ensure!(
                done_ticks.insert(tick),
                "model error: tick {} completed twice",
                tick
            );
            let want = Res::Done {
                tick: tr.tick,
                delta_tick: tr.base,
                data: if tr.len == 0 { None } else { Some((datas[ti].clone(), tr.crc)) },
            };
            if res != want {
                let detail = match (&res, &want) {
                    (Res::Done { data: Some((g, _)), .. }, Res::Done { data: Some((e, _)), .. }) if g != e => {
                        let at = g.iter().zip(e.iter()).position(|(a, b)| a != b).unwrap_or(g.len().min(e.len()));
                        format!(" (data differs at byte {}, arrival order of parts {:?})", at, arrival)
                    }
                    _ => String::new(),
                };
                return Err(format!(
                    "call #{} delivered the last missing message ({} of {}) of {:?} while it was the newest tick: expected {} but got {}{}",
                    si, p, nmsgs, tr, short(&want), short(&res), detail
                ));
            }
            st.completed += 1;
            st.max_parts = st.max_parts.max(nmsgs);
            let in_order = arrival.windows(2).all(|x| x[0] < x[1]);
            if nmsgs >= 2 && (!in_order || had_dup) {
                st.completed_multi_shuffled += 1;
            }
        } else {
            ensure!(
                !matches!(res, Res::Done { .. }),
                "call #{} (message {} of {} of {:?}; parts received before: {:?}, already completed: {}) must not hand out a transfer but returned {}",
                si,
                p,
                nmsgs,
                tr,
                got,
                completed && !expect_done,
                short(&res)
            );
        }
        out.push((si, format!("{} warnings={:?}", render(&res), w.0)));
    }
    Ok((out, st))
}

pub fn check_hist(c: &HistCase) -> Result<Stats, String> {
    set_fuel(200_000);
    let r = check_hist_inner(c);
    unlimited_fuel();
    r
}

fn check_hist_inner(c: &HistCase) -> Result<Stats, String> {
    let (a, st) = run_hist(c, false)?;
    if st.old_msgs > 0 {
        let (b, _) = run_hist(c, true)?;
        ensure_eq!(a.len(), b.len(), "twin run without the old-tick messages: number of calls");
        for (x, y) in a.iter().zip(b.iter()) {
            if x != y {
                return Err(format!(
                    "call #{} gives a different result when the messages for older ticks are left out of the schedule: with them {} / without them {}",
                    x.0, x.1, y.1
                ));
            }
        }
    }
    Ok(st)
}

fn coincidence(t: &Transfer) -> bool {
    t.tick.checked_sub(t.base) == Some(t.base)
}

fn hist_outcome(c: &HistCase, st: &Stats) -> Outcome {
    let multi: Vec<&Transfer> = c.transfers.iter().filter(|t| t.len as usize > PART).collect();
    Outcome::nt(st.completed_multi_shuffled > 0)
        .class_if(st.completed > 0, "some_transfer_completed")
        .class_if(st.completed >= 2, "two_or_more_completed")
        .class_if(st.completed_multi_shuffled > 0, "multipart_completed_shuffled_or_dup")
        .class_if(st.max_parts >= 2 && st.max_parts <= 4, "completed_2_4_parts")
        .class_if(st.max_parts >= 5 && st.max_parts <= 16, "completed_5_16_parts")
        .class_if(st.max_parts >= 17, "completed_17_32_parts")
        .class_if(st.max_parts == 32, "completed_32_parts")
        .class_if(st.dups > 0, "duplicate_delivered")
        .class_if(st.old_msgs > 0, "old_tick_messages")
        .class_if(st.old_hostile > 0, "old_tick_hostile_messages")
        .class_if(st.abandoned > 0, "transfer_abandoned_for_newer_tick")
        .class_if(!multi.is_empty() && multi.iter().all(|t| coincidence(t)), "multipart_only_with_tick_minus_base_eq_base")
        .class_if(multi.iter().any(|t| !coincidence(t)), "multipart_with_tick_minus_base_ne_base")
        .class_if(c.transfers.iter().any(|t| t.tick > i32::MAX - 8), "tick_near_i32_max")
        .class_if(c.transfers.iter().any(|t| t.tick < 0), "negative_tick")
        .class_if(c.transfers.iter().any(|t| t.len == 0), "empty_form")
        .class_if(c.transfers.iter().any(|t| t.len >= 1 && t.len as usize <= PART), "single_form")
}

// ---------------------------------------------------------------------------
// Generators

fn len_strategy() -> BoxedStrategy<u32> {
    prop_oneof![
        1 => Just(0u32),
        2 => prop_oneof![Just(1u32), Just(899), Just(900), Just(901), Just(1799), Just(1800), Just(1801)],
        3 => (0u32..=MAX_PARTS as u32, -1i32..=1).prop_map(|(k, d)| {
            ((k as i32 * PART as i32 + d).max(0) as u32).min((MAX_PARTS * PART) as u32)
        }),
        3 => 901u32..=4500,
        2 => 0u32..=(MAX_PARTS * PART) as u32,
        1 => ((MAX_PARTS - 3) * PART) as u32..=(MAX_PARTS * PART) as u32,
    ]
    .boxed()
}

/// (tick, base) with `tick - base` not overflowing.
fn tick_pair_strategy() -> BoxedStrategy<(i32, i32)> {
    fn fix(tick: i32, base: i32) -> (i32, i32) {
        if tick.checked_sub(base).is_some() {
            (tick, base)
        } else {
            (tick, 0)
        }
    }
    prop_oneof![
        4 => (0i32..60).prop_flat_map(|t| (Just(t), -1i32..=t)),
        3 => (0i32..=i32::MAX).prop_flat_map(|t| (Just(t), -1i32..=t)).prop_map(|(t, b)| fix(t, b)),
        2 => (0i32..8, 0i32..40).prop_map(|(a, b)| fix(i32::MAX - a, i32::MAX - a - b - 1)),
        1 => (0i32..8, -1i32..3).prop_map(|(a, b)| fix(i32::MAX - a, b)),
        1 => (0i32..1_000_000).prop_map(|b| (2 * b, b)),
        1 => (any::<i32>(), any::<i32>()).prop_map(|(t, b)| fix(t, b)),
    ]
    .boxed()
}

#[derive(Clone, Debug)]
struct RawOld {
    pos: u16,
    back: u16,
    form: u8,
    delta_tick: i32,
    num_parts: i32,
    part: i32,
    crc: i32,
    len: u16,
}

fn old_strategy() -> impl Strategy<Value = RawOld> {
    let small_or_any = || prop_oneof![3 => -2i32..40, 1 => any::<i32>()];
    (
        any::<u16>(),
        prop_oneof![3 => 0u16..4, 1 => any::<u16>()],
        0u8..3,
        small_or_any(),
        small_or_any(),
        small_or_any(),
        any::<i32>(),
        0u16..40,
    )
        .prop_map(|(pos, back, form, delta_tick, num_parts, part, crc, len)| RawOld {
            pos,
            back,
            form,
            delta_tick,
            num_parts,
            part,
            crc,
            len,
        })
}

const WINDOWS: [u64; 7] = [0, 20_000, 60_000, 65_536, 100_000, 200_000, 400_000];

fn hist_strategy(force_coincidence: bool) -> impl Strategy<Value = HistCase> {
    let transfer = (-6i32..=6, 0u8..6, any::<u16>(), len_strategy(), any::<u8>(), any::<i32>());
    (
        tick_pair_strategy(),
        proptest::collection::vec(transfer, 1..=4),
        any::<bool>(),
        0usize..WINDOWS.len(),
        proptest::collection::vec(any::<u16>(), 4 * MAX_PARTS),
        proptest::collection::vec((any::<u16>(), any::<u16>(), any::<bool>()), 0..6),
        proptest::collection::vec(old_strategy(), 0..3),
        0u8..4,
    )
        .prop_map(move |((tick0, base0), raw, ascending, win, keys, dups, olds, ascend_sel)| {
            // transfers with distinct ticks
            let mut transfers: Vec<Transfer> = Vec::new();
            for (j, (off, base_mode, base_r, len, seed, crc)) in raw.into_iter().enumerate() {
                let tick = if j == 0 { Some(tick0) } else { tick0.checked_add(off) };
                let Some(tick) = tick else { continue };
                if transfers.iter().any(|t| t.tick == tick) {
                    continue;
                }
                let mut base = if j == 0 {
                    base0
                } else {
                    match base_mode {
                        0 => -1,
                        1 => tick.wrapping_sub(1),
                        2 => transfers.last().map(|t| t.tick).unwrap_or(-1),
                        3 => tick / 2,
                        _ => {
                            if tick >= 0 {
                                (pick(base_r, tick as usize + 2) as i64 - 1) as i32
                            } else {
                                tick.wrapping_sub(base_r as i32)
                            }
                        }
                    }
                };
                if tick.checked_sub(base).is_none() {
                    base = 0;
                }
                let mut t = Transfer { tick, base, len, seed, crc };
                if force_coincidence && t.len as usize > PART && !coincidence(&t) {
                    // known finding open: keep multi-part transfers inside the class the receiver handles
                    if t.tick % 2 != 0 {
                        match t.tick.checked_sub(1) {
                            Some(e) if !transfers.iter().any(|x| x.tick == e) => t.tick = e,
                            _ => t.len = (t.len % PART as u32).max(1),
                        }
                    }
                    if t.tick % 2 == 0 {
                        t.base = t.tick / 2;
                    }
                }
                transfers.push(t);
            }
            if ascending || ascend_sel == 0 {
                transfers.sort_by_key(|t| t.tick);
            }
            // positions
            let w = WINDOWS[win];
            let mut entries: Vec<(u64, usize, Deliv)> = Vec::new();
            let mut ord = 0;
            for (j, t) in transfers.iter().enumerate() {
                let n = ((t.len as usize + PART - 1) / PART).max(1);
                for p in 0..n {
                    let pos = j as u64 * 65_536 + keys[j * MAX_PARTS + p] as u64 * w / 65_536;
                    entries.push((pos, ord, Deliv::Part { t: j as u8, p: p as u8 }));
                    ord += 1;
                }
            }
            let span = transfers.len() as u64 * 65_536 + w;
            let base_entries = entries.clone();
            for (which, key, near) in dups {
                let (pos0, _, d) = base_entries[pick(which, base_entries.len())].clone();
                let pos = if near { pos0 + (key as u64 & 0x3ff) } else { key as u64 * span / 65_536 };
                entries.push((pos, ord, d));
                ord += 1;
            }
            for o in olds {
                let pos = o.pos as u64 * span / 65_536;
                entries.push((
                    pos,
                    ord,
                    Deliv::Old {
                        back: o.back,
                        form: o.form,
                        delta_tick: o.delta_tick,
                        num_parts: o.num_parts,
                        part: o.part,
                        crc: o.crc,
                        len: o.len,
                    },
                ));
                ord += 1;
            }
            entries.sort_by_key(|e| (e.0, e.1));
            HistCase {
                transfers,
                sched: entries.into_iter().map(|e| e.2).collect(),
            }
        })
}

// ---------------------------------------------------------------------------
// Enumerations

fn factorial(n: usize) -> u64 {
    (1..=n as u64).product::<u64>().max(1)
}

/// The `idx`-th permutation of 0..n (factorial number system).
fn nth_perm(n: usize, mut idx: u64) -> Vec<u8> {
    let mut pool: Vec<u8> = (0..n as u8).collect();
    let mut out = Vec::with_capacity(n);
    for i in (1..=n).rev() {
        let f = factorial(i - 1);
        let k = (idx / f) as usize;
        idx %= f;
        out.push(pool.remove(k));
    }
    out
}

fn tick_pairs(coinc_only: bool) -> Vec<(i32, i32)> {
    if coinc_only {
        vec![(2, 1), (10, 5), (2147483646, 1073741823)]
    } else {
        vec![(10, 7), (2, 1), (i32::MAX, 5), (0, -1)]
    }
}

/// Single transfer: every permutation of its messages x every single duplicate insertion.
struct PermSpace {
    blocks: Vec<(u64, usize, u32, (i32, i32))>, // (first index, n, len, pair)
    total: u64,
}

fn perm_variants(n: usize) -> u64 {
    let m = n.max(1);
    factorial(m) * (1 + (m * (m + 1)) as u64)
}

fn perm_space(max_parts: usize, coinc_only: bool) -> PermSpace {
    let mut blocks = Vec::new();
    let mut total = 0;
    for n in 0..=max_parts {
        let lens: Vec<u32> = match n {
            0 => vec![0],
            1 => vec![1, 900],
            _ => vec![((n - 1) * PART + 1) as u32, (n * PART) as u32],
        };
        for len in lens {
            for pair in tick_pairs(coinc_only && n >= 2) {
                blocks.push((total, n, len, pair));
                total += perm_variants(n);
            }
        }
    }
    PermSpace { blocks, total }
}

fn perm_case(sp: &PermSpace, idx: u64) -> HistCase {
    let b = sp.blocks.iter().rev().find(|b| b.0 <= idx).unwrap();
    let (n, len, (tick, base)) = (b.1, b.2, b.3);
    let m = n.max(1);
    let local = idx - b.0;
    let dupv = (1 + m * (m + 1)) as u64;
    let perm = nth_perm(m, local / dupv);
    let dv = (local % dupv) as usize;
    let mut sched: Vec<Deliv> = perm.iter().map(|&p| Deliv::Part { t: 0, p }).collect();
    if dv > 0 {
        let d = (dv - 1) / (m + 1);
        let pos = (dv - 1) % (m + 1);
        sched.insert(pos, Deliv::Part { t: 0, p: d as u8 });
    }
    HistCase {
        transfers: vec![Transfer { tick, base, len, seed: (idx % 251) as u8, crc: (idx as i32).wrapping_mul(0x01000193) ^ 0x5bd1e995 }],
        sched,
    }
}

/// Two transfers (older / newer tick): every ordering of all their messages.
struct InterSpace {
    blocks: Vec<(u64, usize, usize, usize)>, // (first index, nA, nB, tick variant)
    total: u64,
}

fn inter_space(max_parts: usize) -> InterSpace {
    let mut blocks = Vec::new();
    let mut total = 0;
    for na in 0..=max_parts {
        for nb in 0..=max_parts {
            for v in 0..2 {
                blocks.push((total, na, nb, v));
                total += factorial(na.max(1) + nb.max(1));
            }
        }
    }
    InterSpace { blocks, total }
}

fn inter_case(sp: &InterSpace, idx: u64, coinc_only: bool) -> HistCase {
    let b = sp.blocks.iter().rev().find(|b| b.0 <= idx).unwrap();
    let (na, nb, v) = (b.1, b.2, b.3);
    let (ma, mb) = (na.max(1), nb.max(1));
    let len = |n: usize| -> u32 {
        match n {
            0 => 0,
            1 => 5,
            _ => ((n - 1) * PART + 17) as u32,
        }
    };
    let ticks: [((i32, i32), (i32, i32)); 2] = if coinc_only {
        [((10, 5), (12, 6)), ((2147483640, 1073741820), (2147483646, 1073741823))]
    } else {
        [((10, 7), (12, 10)), ((i32::MAX - 1, -1), (i32::MAX, i32::MAX - 1))]
    };
    let (a, bt) = ticks[v];
    let perm = nth_perm(ma + mb, idx - b.0);
    let sched = perm
        .iter()
        .map(|&k| {
            if (k as usize) < ma {
                Deliv::Part { t: 0, p: k }
            } else {
                Deliv::Part { t: 1, p: k - ma as u8 }
            }
        })
        .collect();
    HistCase {
        transfers: vec![
            Transfer { tick: a.0, base: a.1, len: len(na), seed: 3, crc: 0x1234_5678 },
            Transfer { tick: bt.0, base: bt.1, len: len(nb), seed: 200, crc: -7 },
        ],
        sched,
    }
}

/// Every data length once: in order, reversed and rotated delivery.
fn length_case(len: u32, coinc_only: bool) -> Vec<HistCase> {
    let n = ((len as usize + PART - 1) / PART).max(1);
    let (tick, base) = if coinc_only { (2 * (len as i32 + 1), len as i32 + 1) } else { (len as i32 + 3, (len as i32 % 7) - 1) };
    let tr = Transfer { tick, base, len, seed: (len % 256) as u8, crc: (len as i32).wrapping_mul(-1640531535) };
    let orders: Vec<Vec<u8>> = vec![
        (0..n as u8).collect(),
        (0..n as u8).rev().collect(),
        (0..n as u8).map(|i| ((i as usize + n / 2 + 1) % n) as u8).collect(),
    ];
    orders
        .into_iter()
        .map(|o| HistCase {
            transfers: vec![tr.clone()],
            sched: o.into_iter().map(|p| Deliv::Part { t: 0, p }).collect(),
        })
        .collect()
}

// ---------------------------------------------------------------------------

fn probe_attr() -> Result<(), String> {
    let c = HistCase {
        transfers: vec![Transfer { tick: 10, base: 7, len: 901, seed: 0, crc: 3 }],
        sched: vec![Deliv::Part { t: 0, p: 0 }, Deliv::Part { t: 0, p: 1 }],
    };
    check_hist(&c).map(|_| ())
}

pub fn run(ctx: &Ctx) {
    ctx.set_rule(
        "transfers = (tick, base tick with tick-base not overflowing, data length 0..=28800, crc) cut by the library's delta_chunks; \
         schedules: (perm_exhaustive) one transfer of 0..=N parts, every permutation of its messages x every single-duplicate insertion x \
         4 tick pairs x 2 tail lengths; (interleave_exhaustive) an older and a newer transfer of 0..=M parts each, every ordering of all their \
         messages; (every_length) each data length 0..=28800 delivered in order, reversed and rotated; (histories) 1-4 transfers of distinct \
         ticks, positions drawn per message with a generated amount of overlap between ticks, up to 5 extra duplicates, up to 2 arbitrary \
         old-tick messages. Non-trivial = a transfer of >= 2 parts was completed after out-of-order delivery or a duplicate (histories: \
         distinct by case hash).",
    );
    ctx.assume("the sender side is the library's own delta_chunks; the premise checked on its output is consistency (same tick / base / crc, parts numbered 0..n-1 of n, data concatenates to the original); a split other than the minimal ceil(len/900) one is delivered completely and only counted");
    ctx.assume("the reference model treats a tick as 'seen' when any message for it was passed to the receiver");
    let open = ctx.known_open(KEY_ATTR);
    ctx.probe(KEY_ATTR, probe_attr);
    if open {
        ctx.note(format!(
            "known finding {} is open: multi-part transfers are generated only with tick - base == base",
            KEY_ATTR
        ));
    }

    let n_perm = if ctx.quick() { 5 } else { 7 };
    let sp = perm_space(n_perm, open);
    if open {
        // number of enumerated multi-part schedules dropped because of the open finding
        let full = perm_space(n_perm, false).total;
        ctx.add_excluded_known(full - sp.total);
    }
    ctx.exhaustive(
        "perm_exhaustive",
        sp.total,
        |i| {
            let c = perm_case(&sp, i);
            check_hist(&c).map(|st| st.completed_multi_shuffled > 0)
        },
        |i| serde_json::to_value(perm_case(&sp, i)).unwrap(),
    );

    let n_inter = if ctx.quick() { 3 } else { 5 };
    let isp = inter_space(n_inter);
    ctx.exhaustive(
        "interleave_exhaustive",
        isp.total,
        |i| {
            let c = inter_case(&isp, i, open);
            check_hist(&c).map(|st| st.completed_multi_shuffled > 0 || (st.old_msgs > 0 && st.completed > 0))
        },
        |i| serde_json::to_value(inter_case(&isp, i, open)).unwrap(),
    );

    ctx.exhaustive(
        "every_length",
        (MAX_PARTS * PART) as u64 + 1,
        |i| {
            let mut nt = false;
            for c in length_case(i as u32, open) {
                let st = check_hist(&c)?;
                ensure_eq!(st.completed, 1, "transfer of {} bytes: completions", i);
                nt |= st.completed_multi_shuffled > 0;
            }
            Ok(nt)
        },
        |i| json!({"len": i, "orders": ["in order", "reversed", "rotated"]}),
    );

    ctx.prop(
        "histories",
        ctx.n(30_000, 1_000_000),
        || hist_strategy(open),
        |c: &HistCase| {
            let st = check_hist(c)?;
            Ok(hist_outcome(c, &st))
        },
    );
    ctx.extra("sender_splits_other_than_minimal", serde_json::json!(NONMINIMAL_SPLITS.load(std::sync::atomic::Ordering::Relaxed)));
}
