//! C13 - client and server snapshot state never diverge silently.
//!
//! Closed-loop simulation: a sender driving `Storage` exactly like `server/src/main.rs`
//! (`new_builder` -> `add_item`* -> `finish` -> `add_snap` -> `Delta::write` -> `delta_chunks`, acks
//! applied with `set_delta_tick`), a lossy/duplicating/reordering channel in both directions, and a
//! receiving `Manager`. Oracle: every snapshot the `Manager` accepts equals, item for item, the
//! snapshot the sender built for that tick (and has its crc); `Manager::ack_tick()` only ever names
//! a tick whose snapshot was accepted (so it never advances to a tick whose message returned an
//! error); neither side panics.

use crate::c12_receiver::OMsg;
use crate::util::Warnings;
use crate::{burn, ensure, guard_s, pick, set_fuel, unlimited_fuel, Ctx, Outcome, PResult};
use libtw2_gamenet_snap as msg;
use libtw2_packer::with_packer;
use libtw2_snapshot::format::TypeId;
use libtw2_snapshot::snap::delta_chunks;
use libtw2_snapshot::{Manager, Snap, Storage};
use proptest::prelude::*;
use serde::{Deserialize, Serialize};
use std::collections::{BTreeMap, BTreeSet};

pub const KEY_UUID_SIZES: &str = "sender-panics-when-uuid-type-numbers-shift";
pub const KEY_UUID_LOOKUP: &str = "uuid-item-lookup-on-received-snapshot";

// ---------------------------------------------------------------------------
// Item universe

const UUIDS: [[u8; 16]; 4] = [
    [0x1a, 0x3f, 0xcc, 0x94, 0x1e, 0x53, 0x46, 0x1e, 0x91, 0x2e, 0x21, 0x20, 0x08, 0x82, 0x02, 0x4b],
    [0xff, 0xff, 0xff, 0xff, 0xff, 0xff, 0x4f, 0xff, 0xbf, 0xff, 0xff, 0xff, 0xff, 0xff, 0xff, 0xff],
    [0x00, 0x00, 0x00, 0x00, 0x00, 0x00, 0x40, 0x00, 0x80, 0x00, 0x00, 0x00, 0x00, 0x00, 0x00, 0x01],
    [0x80, 0x00, 0x00, 0x00, 0x7f, 0xff, 0x31, 0x00, 0x80, 0x00, 0x00, 0x01, 0x00, 0x00, 0x00, 0x00],
];
pub const NUM_TYPES: u8 = 9;

#[derive(Clone, Debug, PartialEq, Eq, PartialOrd, Ord)]
pub enum TKey {
    Ord(u16),
    Uuid([u8; 16]),
}

fn tkey(ty: u8) -> TKey {
    match ty {
        0 => TKey::Ord(1),
        1 => TKey::Ord(2),
        2 => TKey::Ord(5),
        3 => TKey::Ord(6),
        4 => TKey::Ord(0x3fff),
        n => TKey::Uuid(UUIDS[(n as usize - 5) % 4]),
    }
}

fn type_id(k: &TKey) -> TypeId {
    match k {
        TKey::Ord(o) => TypeId::Ordinal(*o),
        TKey::Uuid(u) => TypeId::Uuid(uuid::Uuid::from_bytes(*u)),
    }
}

fn tkey_of(t: TypeId) -> TKey {
    match t {
        TypeId::Ordinal(o) => TKey::Ord(o),
        TypeId::Uuid(u) => TKey::Uuid(*u.as_bytes()),
    }
}

/// Sizes agreed in advance between both sides (like `obj_size` of the gamenet crates).
fn object_size(raw_type_id: u16) -> Option<u32> {
    match raw_type_id {
        1 => Some(3),
        2 => Some(1),
        5 => Some(10),
        _ => None,
    }
}

/// The sender keeps the size of an item constant per key (the contract `Delta::create` documents).
fn item_size(ty: u8, id: u16, uuid_same_size: bool) -> usize {
    match ty {
        0 => 3,
        1 => 1,
        2 => 10,
        3 => (id % 4) as usize,
        4 => 2,
        5 => 2,
        _ if uuid_same_size => 2,
        6 => 3,
        7 => 5,
        _ => 0,
    }
}

// ---------------------------------------------------------------------------
// Case

#[derive(Clone, Debug, Hash, Serialize, Deserialize, PartialEq)]
pub enum Mut {
    Set { ty: u8, id: u16, vals: Vec<i32> },
    Tweak { pick: u16, word: u8, delta: i32 },
    Remove { pick: u16 },
    /// reverse the words of an item (keeps the crc)
    Swap { pick: u16 },
    /// move an amount from word 1 to word 0 of an item (keeps the crc)
    Move { pick: u16, amount: i32 },
    RemoveType { ty: u8 },
    Clear,
    Bulk { ty: u8, first: u16, count: u16, seed: u32 },
}

#[derive(Clone, Debug, Hash, Serialize, Deserialize, PartialEq)]
pub struct Step {
    pub inc: u8,
    pub muts: Vec<Mut>,
    /// fate of the snapshot messages of this tick (cycled over the parts)
    pub fates: Vec<u8>,
    /// delayed snapshot messages released before this tick's messages
    pub release: Vec<u16>,
    pub ack_fate: u8,
    pub ack_release: Vec<u16>,
}

/// Fault rates in 1/256 per message.
#[derive(Clone, Debug, Hash, Serialize, Deserialize, PartialEq, Default)]
pub struct Profile {
    pub drop: u8,
    pub dup: u8,
    pub delay: u8,
    pub ack_drop: u8,
    pub ack_dup: u8,
    pub ack_delay: u8,
    /// crc field of the message altered (only used by the `closed_loop_badcrc` section)
    pub badcrc: u8,
}

#[derive(Clone, Debug, Hash, Serialize, Deserialize, PartialEq)]
pub struct LoopCase {
    pub start_tick: i32,
    pub profile: Profile,
    /// all acknowledgements of steps start..start+len are lost
    pub blackout: (u16, u16),
    /// send the empty message form when the new snapshot is identical to the base snapshot
    pub empty_form: bool,
    pub uuid_same_size: bool,
    pub steps: Vec<Step>,
}

#[derive(Copy, Clone, Debug, PartialEq)]
enum Fate {
    Deliver,
    Drop,
    Dup,
    Delay,
    DupDelay,
    BadCrc,
}

fn fate(f: u8, drop: u8, dup: u8, delay: u8, badcrc: u8) -> Fate {
    let x = f as u32;
    let mut lo = 256u32.saturating_sub(drop as u32);
    if x >= lo {
        return Fate::Drop;
    }
    let hi = lo;
    lo = hi.saturating_sub(dup as u32);
    if x >= lo {
        return Fate::Dup;
    }
    let hi = lo;
    lo = hi.saturating_sub(delay as u32);
    if x >= lo {
        return if x % 2 == 0 { Fate::Delay } else { Fate::DupDelay };
    }
    let hi = lo;
    lo = hi.saturating_sub(badcrc as u32);
    if x >= lo {
        return Fate::BadCrc;
    }
    Fate::Deliver
}

// ---------------------------------------------------------------------------
// Interpreter

type Items = Vec<(TKey, u16, Vec<i32>)>;

struct Truth {
    items: Items,
    crc: i32,
    base: i32,
    parts: usize,
}

#[derive(Default, Debug)]
pub struct LoopStats {
    pub ticks: usize,
    pub accepted: usize,
    pub accepted_nonempty_base: usize,
    pub accepted_multipart: usize,
    pub accepted_empty_form: usize,
    pub accepted_with_uuid: usize,
    pub accepted_out_of_order_parts: usize,
    pub lost: usize,
    pub duplicated: usize,
    pub delayed_delivered: usize,
    pub crc_faults: usize,
    pub client_errors: BTreeMap<String, usize>,
    pub client_warned: usize,
    pub stale_acks: usize,
    pub acks_applied: usize,
    pub full_after_delta: usize,
    pub max_parts: usize,
    pub max_items: usize,
    pub items_refused: usize,
    pub uuid_lookup_skipped: usize,
}

fn apply_mut(world: &mut BTreeMap<(u8, u16), Vec<i32>>, m: &Mut, same: bool) {
    let nth_key = |world: &BTreeMap<(u8, u16), Vec<i32>>, p: u16| -> Option<(u8, u16)> {
        if world.is_empty() {
            None
        } else {
            world.keys().nth(pick(p, world.len())).copied()
        }
    };
    match m {
        Mut::Set { ty, id, vals } => {
            let ty = *ty % NUM_TYPES;
            let n = item_size(ty, *id, same);
            let mut v = vals.clone();
            v.resize(n, 0);
            world.insert((ty, *id), v);
        }
        Mut::Tweak { pick: p, word, delta } => {
            if let Some(k) = nth_key(world, *p) {
                let v = world.get_mut(&k).unwrap();
                if !v.is_empty() {
                    let i = *word as usize % v.len();
                    v[i] = v[i].wrapping_add(*delta);
                }
            }
        }
        Mut::Remove { pick: p } => {
            if let Some(k) = nth_key(world, *p) {
                world.remove(&k);
            }
        }
        Mut::Swap { pick: p } => {
            if let Some(k) = nth_key(world, *p) {
                world.get_mut(&k).unwrap().reverse();
            }
        }
        Mut::Move { pick: p, amount } => {
            if let Some(k) = nth_key(world, *p) {
                let v = world.get_mut(&k).unwrap();
                if v.len() >= 2 {
                    v[0] = v[0].wrapping_add(*amount);
                    v[1] = v[1].wrapping_sub(*amount);
                }
            }
        }
        Mut::RemoveType { ty } => {
            let ty = *ty % NUM_TYPES;
            world.retain(|k, _| k.0 != ty);
        }
        Mut::Clear => world.clear(),
        Mut::Bulk { ty, first, count, seed } => {
            let ty = *ty % NUM_TYPES;
            for i in 0..*count {
                let id = first.wrapping_add(i);
                let n = item_size(ty, id, same);
                let v: Vec<i32> = (0..n)
                    .map(|k| {
                        let h = (*seed as u64 ^ ((id as u64) << 20) ^ k as u64).wrapping_mul(0x9E37_79B9_7F4A_7C15);
                        (h >> 29) as i32
                    })
                    .collect();
                world.insert((ty, id), v);
            }
        }
    }
}

fn collect_items(s: &Snap) -> Items {
    let mut v: Items = Vec::new();
    for it in s.items() {
        burn();
        v.push((tkey_of(it.type_id), it.id, it.data.to_vec()));
    }
    v.sort();
    v
}

fn describe_diff(got: &Items, want: &Items) -> String {
    let g: BTreeMap<(&TKey, u16), &Vec<i32>> = got.iter().map(|(t, i, d)| ((t, *i), d)).collect();
    let w: BTreeMap<(&TKey, u16), &Vec<i32>> = want.iter().map(|(t, i, d)| ((t, *i), d)).collect();
    for (k, d) in &w {
        match g.get(k) {
            None => return format!("item {:?} id {} (data {:?}) is missing on the receiving side", k.0, k.1, d),
            Some(x) if x != d => {
                return format!("item {:?} id {}: receiver has {:?}, sender built {:?}", k.0, k.1, x, d)
            }
            _ => {}
        }
    }
    for (k, d) in &g {
        if !w.contains_key(k) {
            return format!("receiver has the extra item {:?} id {} (data {:?})", k.0, k.1, d);
        }
    }
    format!("same item sets but different multiplicity: {} vs {} items", got.len(), want.len())
}

enum CRes {
    Accepted { items: Items, crc: i32, lookup_fail: Option<String> },
    Pending,
    Error(String),
}

fn client_call(client: &mut Manager, w: &mut Warnings, m: &OMsg, truth: Option<&Truth>, lookup_uuid: bool) -> Result<CRes, String> {
    guard_s("receiving side (Manager::snap*)", || {
        let r = match m {
            OMsg::Empty { tick, delta_tick } => {
                client.snap_empty(w, object_size, msg::SnapEmpty { tick: *tick, delta_tick: *delta_tick })
            }
            OMsg::Single { tick, delta_tick, crc, data } => client.snap_single(
                w,
                object_size,
                msg::SnapSingle { tick: *tick, delta_tick: *delta_tick, crc: *crc, data },
            ),
            OMsg::Part { tick, delta_tick, num_parts, part, crc, data } => client.snap(
                w,
                object_size,
                msg::Snap {
                    tick: *tick,
                    delta_tick: *delta_tick,
                    num_parts: *num_parts,
                    part: *part,
                    crc: *crc,
                    data,
                },
            ),
        };
        match r {
            Ok(Some(s)) => {
                let mut lookup_fail = None;
                if let Some(t) = truth {
                    for (k, id, d) in &t.items {
                        burn();
                        if matches!(k, TKey::Uuid(_)) && !lookup_uuid {
                            continue;
                        }
                        let got = s.item(type_id(k), *id);
                        if got != Some(&d[..]) {
                            lookup_fail = Some(format!(
                                "Snap::item({:?}, {}) on the accepted snapshot returns {:?}, the sender's snapshot has {:?}",
                                k, id, got, d
                            ));
                            break;
                        }
                    }
                }
                CRes::Accepted { items: collect_items(s), crc: s.crc(), lookup_fail }
            }
            Ok(None) => CRes::Pending,
            Err(e) => CRes::Error(format!("{:?}", e)),
        }
    })
}

fn with_bad_crc(m: &OMsg) -> OMsg {
    let mut m = m.clone();
    match &mut m {
        OMsg::Empty { .. } => {}
        OMsg::Single { crc, .. } | OMsg::Part { crc, .. } => *crc = crc.wrapping_add(1),
    }
    m
}

pub fn run_loop(c: &LoopCase, lookup_uuid: bool) -> Result<LoopStats, String> {
    set_fuel(50_000_000);
    let r = run_loop_inner(c, lookup_uuid);
    unlimited_fuel();
    r
}

fn run_loop_inner(c: &LoopCase, lookup_uuid: bool) -> Result<LoopStats, String> {
    let mut st = LoopStats::default();
    let mut server = Storage::new();
    let mut client = Manager::new();
    let mut world: BTreeMap<(u8, u16), Vec<i32>> = BTreeMap::new();
    let mut truth: BTreeMap<i32, Truth> = BTreeMap::new();
    let mut ints: BTreeMap<i32, Vec<i32>> = BTreeMap::new();
    let mut accepted: BTreeSet<i32> = BTreeSet::new();
    let mut arrival: BTreeMap<i32, Vec<i32>> = BTreeMap::new();
    let mut pool: Vec<OMsg> = Vec::new();
    let mut ack_pool: Vec<i32> = Vec::new();
    let mut buf: Vec<u8> = Vec::new();
    let mut ibuf: Vec<i32> = Vec::new();
    let mut tick = c.start_tick;
    ensure!(tick >= 0, "generator error: negative start tick");
    let p = &c.profile;
    let mut had_delta_base = false;

    for (si, step) in c.steps.iter().enumerate() {
        burn();
        tick = match tick.checked_add(step.inc.max(1) as i32) {
            Some(t) if t < i32::MAX => t,
            _ => break,
        };
        st.ticks += 1;
        for m in &step.muts {
            apply_mut(&mut world, m, c.uuid_same_size);
        }
        // ---- sender, as in server/src/main.rs::send_snapshots
        let delta_tick = server.delta_tick().unwrap_or(-1);
        if delta_tick >= 0 {
            had_delta_base = true;
        } else if had_delta_base {
            st.full_after_delta += 1;
            had_delta_base = false;
        }
        let (snap, added) = guard_s(&format!("sending side, tick {} (Storage::new_builder / Builder::add_item / finish)", tick), || {
            let mut b = server.new_builder();
            let mut added: Items = Vec::new();
            let mut refused = 0;
            for (&(ty, id), data) in &world {
                burn();
                let k = tkey(ty);
                match b.add_item(type_id(&k), id, data) {
                    Ok(()) => added.push((k, id, data.clone())),
                    Err(_) => refused += 1,
                }
            }
            (b.finish(), (added, refused))
        })?;
        let (mut added, refused) = added;
        st.items_refused += refused;
        added.sort();
        let built = collect_items(&snap);
        if built != added {
            return Err(format!(
                "sending side, tick {}: the snapshot the builder finished differs from the items added: {}",
                tick,
                describe_diff(&built, &added)
            ));
        }
        let crc = snap.crc();
        st.max_items = st.max_items.max(built.len());
        if c.empty_form {
            let mut out = vec![0i32; 2 + 2 * 1024 + 16 * 1024 + 16];
            let n = snap
                .write_to_ints(&mut ibuf, &mut out)
                .map_err(|_| format!("tick {}: Snap::write_to_ints does not fit {} ints", tick, 2 + 2 * 1024 + 16 * 1024 + 16))?
                .len();
            out.truncate(n);
            ints.insert(tick, out);
        }
        buf.clear();
        buf.reserve(1 << 20);
        guard_s(
            &format!("sending side, tick {} against base {} (Storage::add_snap / Delta::write)", tick, delta_tick),
            || {
                let delta = server.add_snap(tick, snap);
                with_packer(&mut buf, |p| delta.write(object_size, p).map(|w| w.len()))
            },
        )?
        .map_err(|_| format!("tick {}: delta does not fit a 1 MiB buffer", tick))?;
        let mut data: &[u8] = &buf;
        if c.empty_form {
            let same = if delta_tick >= 0 {
                ints.get(&delta_tick) == ints.get(&tick)
            } else {
                built.is_empty() && ints.get(&tick).map(|v| v.len()) == Some(2)
            };
            if same {
                data = &[];
            }
        }
        let msgs: Vec<OMsg> = guard_s("delta_chunks", || {
            delta_chunks(tick, delta_tick, data, crc).map(|m| OMsg::from_msg(&m)).collect()
        })?;
        st.max_parts = st.max_parts.max(msgs.len());
        truth.insert(tick, Truth { items: built, crc, base: delta_tick, parts: msgs.len() });

        // ---- channel towards the receiver
        let mut deliver: Vec<OMsg> = Vec::new();
        for r in &step.release {
            if !pool.is_empty() {
                let m = pool.remove(pick(*r, pool.len()));
                st.delayed_delivered += 1;
                deliver.push(m);
            }
        }
        for (i, m) in msgs.into_iter().enumerate() {
            let f = step.fates.get(i % step.fates.len().max(1)).copied().unwrap_or(0);
            match fate(f, p.drop, p.dup, p.delay, p.badcrc) {
                Fate::Deliver => deliver.push(m),
                Fate::Drop => st.lost += 1,
                Fate::Dup => {
                    st.duplicated += 1;
                    deliver.push(m.clone());
                    deliver.push(m);
                }
                Fate::Delay => pool.push(m),
                Fate::DupDelay => {
                    st.duplicated += 1;
                    deliver.push(m.clone());
                    pool.push(m);
                }
                Fate::BadCrc => {
                    st.crc_faults += 1;
                    deliver.push(with_bad_crc(&m));
                }
            }
        }
        while pool.len() > 48 {
            pool.remove(0);
            st.lost += 1;
        }

        // ---- receiver
        for m in &deliver {
            burn();
            let t = m.tick();
            let tr = truth.get(&t);
            let mut w = Warnings::new();
            let res = client_call(&mut client, &mut w, m, tr, lookup_uuid)?;
            if !w.is_empty() {
                st.client_warned += 1;
            }
            if let OMsg::Part { part, .. } = m {
                arrival.entry(t).or_default().push(*part);
            }
            let ack = client.ack_tick();
            match res {
                CRes::Accepted { items, crc, lookup_fail } => {
                    let tr = tr.ok_or_else(|| format!("receiver accepted a snapshot for tick {} which was never sent", t))?;
                    if items != tr.items {
                        return Err(format!(
                            "step {}: the receiving side accepted a snapshot for tick {} (base {}, {} message(s)) that differs from the one the sender built: {}",
                            si, t, tr.base, tr.parts, describe_diff(&items, &tr.items)
                        ));
                    }
                    ensure!(
                        crc == tr.crc,
                        "step {}: accepted snapshot for tick {} has crc {} but the sender's has {}",
                        si,
                        t,
                        crc,
                        tr.crc
                    );
                    if let Some(l) = lookup_fail {
                        return Err(format!("step {}: tick {}: {}", si, t, l));
                    }
                    accepted.insert(t);
                    st.accepted += 1;
                    if tr.base >= 0 && truth.get(&tr.base).map(|b| !b.items.is_empty()).unwrap_or(false) {
                        st.accepted_nonempty_base += 1;
                    }
                    if tr.parts >= 2 {
                        st.accepted_multipart += 1;
                        let arr = arrival.get(&t).cloned().unwrap_or_default();
                        if !arr.windows(2).all(|x| x[0] < x[1]) {
                            st.accepted_out_of_order_parts += 1;
                        }
                    }
                    if matches!(m, OMsg::Empty { .. }) {
                        st.accepted_empty_form += 1;
                    }
                    if tr.items.iter().any(|i| matches!(i.0, TKey::Uuid(_))) {
                        st.accepted_with_uuid += 1;
                        if !lookup_uuid {
                            st.uuid_lookup_skipped += 1;
                        }
                    }
                }
                CRes::Pending => {}
                CRes::Error(e) => {
                    *st.client_errors.entry(e.clone()).or_insert(0) += 1;
                    ensure!(
                        ack != Some(t) || accepted.contains(&t),
                        "step {}: the message for tick {} was answered with the error {} but Manager::ack_tick() is now {:?}",
                        si,
                        t,
                        e,
                        ack
                    );
                }
            }
            if let Some(a) = ack {
                ensure!(
                    accepted.contains(&a),
                    "step {}: after the message {} Manager::ack_tick() is {} although no snapshot for that tick was accepted",
                    si,
                    brief(m),
                    a
                );
            }
        }

        // ---- acknowledgement path
        let blackout = (si as u64) >= c.blackout.0 as u64 && (si as u64) < c.blackout.0 as u64 + c.blackout.1 as u64;
        let mut acks: Vec<i32> = Vec::new();
        if !blackout {
            for r in &step.ack_release {
                if !ack_pool.is_empty() {
                    acks.push(ack_pool.remove(pick(*r, ack_pool.len())));
                }
            }
        }
        let a = client.ack_tick().unwrap_or(-1);
        if blackout {
            st.lost += 1;
        } else {
            match fate(step.ack_fate, p.ack_drop, p.ack_dup, p.ack_delay, 0) {
                Fate::Deliver | Fate::BadCrc => acks.push(a),
                Fate::Drop => st.lost += 1,
                Fate::Dup => {
                    st.duplicated += 1;
                    acks.push(a);
                    acks.push(a);
                }
                Fate::Delay => ack_pool.push(a),
                Fate::DupDelay => {
                    st.duplicated += 1;
                    acks.push(a);
                    ack_pool.push(a);
                }
            }
        }
        while ack_pool.len() > 32 {
            ack_pool.remove(0);
            st.lost += 1;
        }
        for a in acks {
            let mut w = Warnings::new();
            let r = guard_s(&format!("sending side, Storage::set_delta_tick({})", a), || server.set_delta_tick(&mut w, a))?;
            st.acks_applied += 1;
            if r.is_err() {
                st.stale_acks += 1;
            }
        }
    }
    Ok(st)
}

fn brief(m: &OMsg) -> String {
    match m {
        OMsg::Empty { tick, delta_tick } => format!("SnapEmpty(tick={}, delta_tick={})", tick, delta_tick),
        OMsg::Single { tick, delta_tick, data, .. } => {
            format!("SnapSingle(tick={}, delta_tick={}, {} bytes)", tick, delta_tick, data.len())
        }
        OMsg::Part { tick, delta_tick, num_parts, part, data, .. } => format!(
            "Snap(tick={}, delta_tick={}, part {}/{}, {} bytes)",
            tick,
            delta_tick,
            part,
            num_parts,
            data.len()
        ),
    }
}

fn outcome(c: &LoopCase, st: &LoopStats) -> Outcome {
    let faults = st.lost + st.delayed_delivered + st.duplicated;
    let err = |k: &str| st.client_errors.keys().any(|e| e.contains(k));
    Outcome::nt(st.accepted_nonempty_base >= 1 && (st.lost + st.delayed_delivered) >= 1)
        .class_if(st.accepted_nonempty_base >= 1, "delta_against_nonempty_base_accepted")
        .class_if(st.accepted >= 1 && faults == 0, "fault_free_history")
        .class_if(st.accepted_multipart >= 1, "multipart_snapshot_accepted")
        .class_if(st.accepted_out_of_order_parts >= 1, "multipart_accepted_parts_out_of_order")
        .class_if(st.max_parts >= 8, "snapshot_of_8_or_more_parts")
        .class_if(st.max_parts > 32, "snapshot_over_32_parts")
        .class_if(st.accepted_empty_form >= 1, "empty_form_accepted")
        .class_if(st.accepted_with_uuid >= 1, "uuid_items_accepted")
        .class_if(st.stale_acks >= 1, "ack_for_dropped_snapshot")
        .class_if(st.full_after_delta >= 1, "sender_fell_back_to_full_snapshot")
        .class_if(err("UnknownSnap"), "client_unknown_snap")
        .class_if(err("InvalidCrc"), "client_invalid_crc")
        .class_if(err("OldDelta"), "client_old_delta")
        .class_if(err("DuplicatePart"), "client_duplicate_part")
        .class_if(err("InvalidNumParts"), "client_invalid_num_parts")
        .class_if(st.client_warned >= 1, "client_warned")
        .class_if(st.items_refused >= 1, "builder_refused_items")
        .class_if(st.max_items >= 200, "snapshot_of_200_or_more_items")
        .class_if(st.ticks >= 100, "history_of_100_or_more_ticks")
        .class_if(c.blackout.1 > 100, "ack_blackout_over_100_ticks")
        .class_if(st.crc_faults >= 1, "crc_field_altered")
        .class_if(c.start_tick > i32::MAX - 1000, "ticks_near_i32_max")
}

// ---------------------------------------------------------------------------
// Generators

fn word_strategy() -> BoxedStrategy<i32> {
    prop_oneof![
        4 => Just(0i32),
        3 => -3i32..=3,
        2 => any::<i32>(),
        1 => prop_oneof![Just(i32::MIN), Just(i32::MAX), Just(-1), Just(1 << 20)],
    ]
    .boxed()
}

fn id_strategy() -> BoxedStrategy<u16> {
    prop_oneof![7 => 0u16..6, 1 => any::<u16>(), 1 => prop_oneof![Just(0xffffu16), Just(0x4000), Just(255), Just(256)]].boxed()
}

fn mut_strategy(big: bool) -> BoxedStrategy<Mut> {
    let count = if big {
        prop_oneof![5 => 1u16..30, 3 => 30u16..150, 1 => 150u16..700].boxed()
    } else {
        (1u16..12).boxed()
    };
    prop_oneof![
        7 => (0u8..NUM_TYPES, id_strategy(), proptest::collection::vec(word_strategy(), 0..=10))
            .prop_map(|(ty, id, vals)| Mut::Set { ty, id, vals }),
        3 => (any::<u16>(), 0u8..10, word_strategy()).prop_map(|(pick, word, delta)| Mut::Tweak { pick, word, delta }),
        3 => any::<u16>().prop_map(|pick| Mut::Remove { pick }),
        1 => any::<u16>().prop_map(|pick| Mut::Swap { pick }),
        1 => (any::<u16>(), word_strategy()).prop_map(|(pick, amount)| Mut::Move { pick, amount }),
        1 => (0u8..NUM_TYPES).prop_map(|ty| Mut::RemoveType { ty }),
        1 => (prop_oneof![Just(2u8), Just(3), Just(4), Just(6)], 0u16..1500, count, any::<u32>())
            .prop_map(|(ty, first, count, seed)| Mut::Bulk { ty, first, count, seed }),
        1 => prop_oneof![9 => any::<u16>().prop_map(|pick| Mut::Remove { pick }), 1 => Just(Mut::Clear)],
    ]
    .boxed()
}

fn step_strategy(big: bool) -> impl Strategy<Value = Step> {
    (
        prop_oneof![6 => Just(1u8), 2 => Just(2u8), 1 => 3u8..=50],
        proptest::collection::vec(mut_strategy(big), 0..4),
        proptest::collection::vec(any::<u8>(), 1..5),
        proptest::collection::vec(any::<u16>(), 0..3),
        any::<u8>(),
        proptest::collection::vec(any::<u16>(), 0..2),
    )
        .prop_map(|(inc, muts, fates, release, ack_fate, ack_release)| Step { inc, muts, fates, release, ack_fate, ack_release })
}

fn profile_strategy(badcrc: bool) -> BoxedStrategy<Profile> {
    let bc = if badcrc { (8u8..60).boxed() } else { Just(0u8).boxed() };
    let rates = prop_oneof![
        2 => Just((0u8, 0u8, 0u8, 0u8, 0u8, 0u8)),
        3 => (0u8..30, 0u8..20, 0u8..30, 0u8..40, 0u8..20, 0u8..40),
        2 => (20u8..90, 0u8..50, 0u8..70, 0u8..120, 0u8..40, 0u8..80),
        1 => (0u8..8, 0u8..8, 0u8..8, 40u8..200, 0u8..20, 0u8..30),
        1 => (0u8..20, 0u8..20, 60u8..160, 0u8..20, 0u8..20, 60u8..160),
    ];
    (rates, bc)
        .prop_map(|((drop, dup, delay, ack_drop, ack_dup, ack_delay), badcrc)| Profile {
            drop,
            dup,
            delay,
            ack_drop,
            ack_dup,
            ack_delay,
            badcrc,
        })
        .boxed()
}

fn start_tick_strategy() -> BoxedStrategy<i32> {
    prop_oneof![3 => 0i32..10, 2 => 0i32..1_000_000, 1 => (0i32..3000).prop_map(|d| i32::MAX - 3000 + d - 200)].boxed()
}

fn case_strategy(max_steps: usize, force_same_size: bool, badcrc: bool) -> BoxedStrategy<LoopCase> {
    let general = (
        start_tick_strategy(),
        profile_strategy(badcrc),
        any::<bool>(),
        prop_oneof![3 => Just(false), 1 => Just(true)],
        prop_oneof![
            4 => proptest::collection::vec(step_strategy(true), 1..25),
            3 => proptest::collection::vec(step_strategy(true), 1..(max_steps * 2 / 3).max(26)),
            1 => proptest::collection::vec(step_strategy(false), 1..=max_steps.max(27)),
        ],
    )
        .prop_map(move |(start_tick, profile, empty_form, same, steps)| LoopCase {
            start_tick,
            profile,
            blackout: (0, 0),
            empty_form,
            uuid_same_size: same || force_same_size,
            steps,
        });
    // acknowledgements lost for more than 100 ticks while snapshots keep arriving: the receiver
    // drops the base the sender still uses (UnknownSnap recovery path)
    let blackout = (
        0i32..1000,
        profile_strategy(badcrc),
        (1u16..8, 101u16..118),
        any::<bool>(),
        proptest::collection::vec(step_strategy(false), 125..=max_steps.max(126)),
        any::<bool>(),
    )
        .prop_map(move |(start_tick, mut profile, blackout, empty_form, steps, clean)| {
            if clean {
                profile = Profile { badcrc: profile.badcrc / 4, ..Profile::default() };
            } else {
                profile.drop /= 8;
                profile.delay /= 8;
            }
            LoopCase { start_tick, profile, blackout, empty_form, uuid_same_size: true, steps }
        });
    prop_oneof![14 => general, 1 => blackout].boxed()
}

// ---------------------------------------------------------------------------

fn set(ty: u8, id: u16, vals: &[i32]) -> Mut {
    Mut::Set { ty, id, vals: vals.to_vec() }
}

fn clean_step(muts: Vec<Mut>) -> Step {
    Step { inc: 1, muts, fates: vec![0], release: vec![], ack_fate: 0, ack_release: vec![] }
}

/// Minimal history for the UUID renumbering panic: two UUID types of different size, the first
/// one disappears after the receiver acknowledged the snapshot holding both.
fn probe_uuid_sizes() -> Result<(), String> {
    let c = LoopCase {
        start_tick: 0,
        profile: Profile::default(),
        blackout: (0, 0),
        empty_form: false,
        uuid_same_size: false,
        steps: vec![
            clean_step(vec![set(5, 0, &[1, 2]), set(6, 0, &[3, 4, 5])]),
            clean_step(vec![Mut::RemoveType { ty: 5 }]),
        ],
    };
    run_loop(&c, false).map(|_| ())
}

fn probe_uuid_lookup() -> Result<(), String> {
    let c = LoopCase {
        start_tick: 0,
        profile: Profile::default(),
        blackout: (0, 0),
        empty_form: false,
        uuid_same_size: true,
        steps: vec![clean_step(vec![set(5, 7, &[1, 2])])],
    };
    let st = run_loop(&c, true)?;
    ensure!(st.accepted == 1, "probe history: the single snapshot was not accepted");
    Ok(())
}

pub fn run(ctx: &Ctx) {
    ctx.set_rule(
        "history = start tick + fault profile + up to N steps; each step advances the tick, mutates the world (items of 5 ordinal and 4 UUID \
         types set / tweaked / removed / crc-neutral rearranged / bulk-added for multi-part deltas), builds and sends the snapshot through the \
         Storage API, delivers / drops / duplicates / delays each snapshot message and the acknowledgement by generated fates, releases \
         generated delayed messages. Non-trivial = at least one delta against a non-empty base snapshot was accepted AND at least one message \
         was lost or delivered late (distinct by case hash).",
    );
    ctx.assume("the sender is the sequence of Storage calls of server/src/main.rs; item sizes are constant per (type, id); ticks ascend and stay below i32::MAX");
    ctx.assume("the empty message form is sent only when the serialized new snapshot equals the serialized base snapshot (what the protocol's reference server does)");
    ctx.assume("closed_loop_badcrc additionally alters the crc field of delivered messages; only the clauses 'accepted => equal' and 'error => ack_tick not that tick' are evaluated, as everywhere");
    let sizes_open = ctx.known_open(KEY_UUID_SIZES);
    let lookup_open = ctx.known_open(KEY_UUID_LOOKUP);
    ctx.probe(KEY_UUID_SIZES, probe_uuid_sizes);
    ctx.probe(KEY_UUID_LOOKUP, probe_uuid_lookup);
    if sizes_open {
        ctx.note(format!("known finding {} is open: all UUID-typed items are generated with the same size", KEY_UUID_SIZES));
    }
    if lookup_open {
        ctx.note(format!("known finding {} is open: Snap::item() is not evaluated for UUID-typed items", KEY_UUID_LOOKUP));
    }
    let max_steps = if ctx.quick() { 135 } else { 400 };
    let check = |c: &LoopCase| -> PResult {
        let st = run_loop(c, !lookup_open)?;
        Ok(outcome(c, &st))
    };
    ctx.prop(
        "closed_loop",
        ctx.n(1500, 30_000),
        || case_strategy(max_steps, sizes_open, false),
        check,
    );
    ctx.prop(
        "closed_loop_badcrc",
        ctx.n(500, 8_000),
        || case_strategy(max_steps, sizes_open, true),
        check,
    );
}
