//! C17 - teehistorian reading is independent of stream fragmentation; tick numbering and running
//! sums follow doc/teehistorian.md.
//!
//! Generator: a teehistorian writer (header JSON + messages) written from doc/teehistorian.md, fed by
//! a random server history; fragmentation schedules for the `read_at_most` callback.
//! Oracles: (1) metamorphic - every fragmentation yields the same header/items/end as the one-piece
//! read; (2) the document's tick pseudo-code assigns a tick to every message, the reader's
//! TickStart/TickEnd items must nest, increase strictly and enclose every message in the documented
//! tick; (3) positions/inputs are the wrapping running sums; (4) arbitrary bytes: items or an error,
//! no panic, bounded callback invocations (fuel).

use crate::util::hex;
use crate::{burn, ensure, ensure_eq, guard, pick, set_fuel, unlimited_fuel, Ctx, Outcome, PResult};
use libtw2_teehistorian::verif::{Buffer, Callback, Item, Reader};
use libtw2_teehistorian::Header;
use proptest::prelude::*;
use serde::{Deserialize, Serialize};
use serde_json::json;
use std::collections::{BTreeMap, BTreeSet};
use std::sync::atomic::{AtomicU64, Ordering};

/// Key of the known finding: TICK_SKIP does not reset the implicit-tick client id.
const KEY_TICKSKIP: &str = "tickskip-keeps-prev-cid";

/// PLAYER_NEW / INPUT_NEW client ids above this make the reader's `VecMap` allocate
/// `cid * 12..44` bytes: resource exhaustion, not the stated property. Excluded from hostile streams.
const CID_LIMIT: i32 = 1 << 16;

// ---------------------------------------------------------------------------
// Wire format (doc/teehistorian.md, doc/int.md)

/// 699db17b-8efb-34ff-b1d8-da6f60c15dd1
const MAGIC: [u8; 16] = [
    0x69, 0x9d, 0xb1, 0x7b, 0x8e, 0xfb, 0x34, 0xff, 0xb1, 0xd8, 0xda, 0x6f, 0x60, 0xc1, 0x5d, 0xd1,
];

#[derive(Clone, Copy, Debug, PartialEq)]
enum F {
    Int,
    Str,
    Uuid,
    Rest,
}

/// Known extension messages: (name, uuid, layout of `data`). The first 15 are listed in
/// doc/teehistorian.md; the last 5 (undocumented) follow teehistorian/src/format/item.rs.
const EX: &[(&str, &str, &[F])] = &[
    ("ddnetver_old", "41b49541-f26f-325d-8715-9baf4b544ef9", &[F::Int, F::Int]),
    ("ddnetver", "1397b63e-ee4e-3919-b86a-b058887fcaf5", &[F::Int, F::Uuid, F::Int, F::Str]),
    ("auth_init", "60daba5c-52c4-3aeb-b8ba-b2953fb55a17", &[F::Int, F::Int, F::Str]),
    ("auth_login", "37ecd3b8-9218-3bb9-a71b-a935b86f6a81", &[F::Int, F::Int, F::Str]),
    ("auth_logout", "d4f5abe8-edd2-3fb9-abd8-1c8bb84f4a63", &[F::Int]),
    ("joinver6", "1899a382-71e3-36da-937d-c9de6bb95b1d", &[F::Int]),
    ("joinver7", "59239b05-0540-318d-bea4-9aa1e80e7d2b", &[F::Int]),
    ("team_save_success", "4560c756-da29-3036-81d4-90a50f0182cd", &[F::Int, F::Uuid, F::Str]),
    ("team_save_failure", "b29901d5-1244-3bd0-bbde-23d04b1f7ba9", &[F::Int]),
    ("team_load_success", "e05408d3-a313-33df-9eb3-ddb990ab954a", &[F::Int, F::Uuid, F::Str]),
    ("team_load_failure", "ef8905a2-c695-3591-a1cd-53d2015992dd", &[F::Int]),
    ("player_team", "a111c04e-1ea8-38e0-90b1-d7f993ca0da9", &[F::Int, F::Int]),
    ("team_practice", "5792834e-81d1-34c9-a29b-b5ff25dac3bc", &[F::Int, F::Int]),
    ("player_ready", "638587c9-3f75-3887-918e-a3c2614ffaa0", &[F::Int]),
    ("player_swap", "5de9b633-49cf-3e99-9a25-d4a78e9717d7", &[F::Int, F::Int]),
    ("antibot", "866bfdac-fb49-3c0b-a887-5fe1f3ea00b8", &[F::Rest]),
    ("player_finish", "68943c01-2348-3e01-9490-3f27f8269d94", &[F::Int, F::Int]),
    ("player_name", "d016f9b9-4151-3b87-87e5-3a6087eb5f26", &[F::Int, F::Str]),
    ("player_rejoin", "c1e921d5-96f5-37bb-8a45-7a06f163d27e", &[F::Int]),
    ("team_finish", "9588b9af-3fdc-3760-8043-82deeee317a5", &[F::Int, F::Int]),
];

/// TEST(teehistorian-test@ddnet.tw) from the document: unknown to the library.
const UUID_TEST: &str = "6bb8ba88-0f0b-382e-8dae-dbf4052b8b7d";

fn parse_uuid(s: &str) -> [u8; 16] {
    let h: String = s.chars().filter(|c| *c != '-').collect();
    let v = crate::util::unhex(&h);
    let mut out = [0u8; 16];
    out.copy_from_slice(&v);
    out
}

fn ex_lookup(uuid: &[u8; 16]) -> Option<usize> {
    EX.iter().position(|e| parse_uuid(e.1) == *uuid)
}

fn put_int(out: &mut Vec<u8>, v: i32) {
    let sign = v < 0;
    let mut bits: u32 = if sign { !(v as u32) } else { v as u32 };
    out.push(((bits & 0x3f) as u8) | if sign { 0x40 } else { 0 });
    bits >>= 6;
    while bits != 0 {
        *out.last_mut().unwrap() |= 0x80;
        out.push((bits & 0x7f) as u8);
        bits >>= 7;
    }
}

fn put_str(out: &mut Vec<u8>, s: &[u8]) {
    out.extend(s.iter().map(|&b| if b == 0 { 1 } else { b }));
    out.push(0);
}

fn put_data(out: &mut Vec<u8>, d: &[u8]) {
    put_int(out, d.len() as i32);
    out.extend_from_slice(d);
}

/// One concrete teehistorian message.
#[derive(Clone, Debug, PartialEq)]
enum Msg {
    PlayerDiff { cid: i32, dx: i32, dy: i32 },
    PlayerNew { cid: i32, x: i32, y: i32 },
    PlayerOld { cid: i32 },
    TickSkip { dt: i32 },
    InputDiff { cid: i32, d: [i32; 10] },
    InputNew { cid: i32, v: [i32; 10] },
    Message { cid: i32, msg: Vec<u8> },
    Join { cid: i32 },
    Drop { cid: i32, reason: Vec<u8> },
    Console { cid: i32, flags: i32, cmd: Vec<u8>, args: Vec<Vec<u8>> },
    Ex { uuid: [u8; 16], data: Vec<u8> },
    Finish,
}

impl Msg {
    fn player_cid(&self) -> Option<i32> {
        match *self {
            Msg::PlayerDiff { cid, .. } | Msg::PlayerNew { cid, .. } | Msg::PlayerOld { cid } => Some(cid),
            _ => None,
        }
    }
}

/// Appends the message; returns the number of bytes of its "kind" part (id, plus cid for
/// PLAYER_NEW/PLAYER_OLD), which the reader parses separately from the rest.
fn encode_msg(out: &mut Vec<u8>, m: &Msg) -> usize {
    let start = out.len();
    let mut kind_len = 0;
    match m {
        Msg::PlayerDiff { cid, dx, dy } => {
            put_int(out, *cid);
            kind_len = out.len() - start;
            put_int(out, *dx);
            put_int(out, *dy);
        }
        Msg::Finish => put_int(out, -1),
        Msg::TickSkip { dt } => {
            put_int(out, -2);
            kind_len = out.len() - start;
            put_int(out, *dt);
        }
        Msg::PlayerNew { cid, x, y } => {
            put_int(out, -3);
            put_int(out, *cid);
            kind_len = out.len() - start;
            put_int(out, *x);
            put_int(out, *y);
        }
        Msg::PlayerOld { cid } => {
            put_int(out, -4);
            put_int(out, *cid);
        }
        Msg::InputDiff { cid, d } => {
            put_int(out, -5);
            kind_len = out.len() - start;
            put_int(out, *cid);
            d.iter().for_each(|v| put_int(out, *v));
        }
        Msg::InputNew { cid, v } => {
            put_int(out, -6);
            kind_len = out.len() - start;
            put_int(out, *cid);
            v.iter().for_each(|v| put_int(out, *v));
        }
        Msg::Message { cid, msg } => {
            put_int(out, -7);
            kind_len = out.len() - start;
            put_int(out, *cid);
            put_data(out, msg);
        }
        Msg::Join { cid } => {
            put_int(out, -8);
            kind_len = out.len() - start;
            put_int(out, *cid);
        }
        Msg::Drop { cid, reason } => {
            put_int(out, -9);
            kind_len = out.len() - start;
            put_int(out, *cid);
            put_str(out, reason);
        }
        Msg::Console { cid, flags, cmd, args } => {
            put_int(out, -10);
            kind_len = out.len() - start;
            put_int(out, *cid);
            put_int(out, *flags);
            put_str(out, cmd);
            put_int(out, args.len() as i32);
            args.iter().for_each(|a| put_str(out, a));
        }
        Msg::Ex { uuid, data } => {
            put_int(out, -11);
            kind_len = out.len() - start;
            out.extend_from_slice(uuid);
            put_data(out, data);
        }
    }
    if kind_len == 0 {
        kind_len = out.len() - start;
    }
    kind_len
}

// ---------------------------------------------------------------------------
// Owned mirror of the reader's items

#[derive(Clone, Debug, PartialEq)]
enum Val {
    I(i32),
    B(Vec<u8>),
    U([u8; 16]),
}

#[derive(Clone, Debug, PartialEq)]
enum MItem {
    TickStart(i32),
    TickEnd(i32),
    PlayerNew { cid: i32, x: i32, y: i32 },
    PlayerChange { cid: i32, x: i32, y: i32, ox: i32, oy: i32 },
    PlayerOld { cid: i32, x: i32, y: i32 },
    Input { cid: i32, input: [i32; 10] },
    Message { cid: i32, msg: Vec<u8> },
    Join { cid: i32 },
    Drop { cid: i32, reason: Vec<u8> },
    Console { cid: i32, flag_mask: u32, cmd: Vec<u8>, args: Vec<Vec<u8>> },
    Ex { name: &'static str, fields: Vec<Val> },
    UnknownEx { uuid: [u8; 16], data: Vec<u8> },
}

fn short<T: std::fmt::Debug>(t: &T) -> String {
    let mut s = format!("{:?}", t);
    if s.len() > 400 {
        let mut cut = 400;
        while !s.is_char_boundary(cut) {
            cut -= 1;
        }
        s.truncate(cut);
        s.push_str("...");
    }
    s
}

fn own(item: &Item) -> MItem {
    use Val::{B, I, U};
    fn ex(name: &'static str, fields: Vec<Val>) -> MItem {
        MItem::Ex { name, fields }
    }
    match item {
        Item::TickStart(t) => MItem::TickStart(*t),
        Item::TickEnd(t) => MItem::TickEnd(*t),
        Item::PlayerNew(p) => MItem::PlayerNew { cid: p.cid, x: p.pos.x, y: p.pos.y },
        Item::PlayerChange(p) => MItem::PlayerChange {
            cid: p.cid,
            x: p.pos.x,
            y: p.pos.y,
            ox: p.old_pos.x,
            oy: p.old_pos.y,
        },
        Item::PlayerOld(p) => MItem::PlayerOld { cid: p.cid, x: p.pos.x, y: p.pos.y },
        Item::Input(i) => MItem::Input { cid: i.cid, input: i.input },
        Item::Message(m) => MItem::Message { cid: m.cid, msg: m.msg.to_vec() },
        Item::Join(j) => MItem::Join { cid: j.cid },
        Item::Drop(d) => MItem::Drop { cid: d.cid, reason: d.reason.to_vec() },
        Item::ConsoleCommand(c) => MItem::Console {
            cid: c.cid,
            flag_mask: c.flag_mask,
            cmd: c.cmd.to_vec(),
            args: c.args.iter().map(|a| a.to_vec()).collect(),
        },
        Item::Antibot(a) => ex("antibot", vec![B(a.data.to_vec())]),
        Item::AuthInit(a) => ex("auth_init", vec![I(a.cid), I(a.level), B(a.identity.to_vec())]),
        Item::AuthLogin(a) => ex("auth_login", vec![I(a.cid), I(a.level), B(a.identity.to_vec())]),
        Item::AuthLogout(a) => ex("auth_logout", vec![I(a.cid)]),
        Item::Ddnetver(d) => ex(
            "ddnetver",
            vec![I(d.cid), U(*d.connection_id.as_bytes()), I(d.ddnet_version), B(d.ddnet_version_str.to_vec())],
        ),
        Item::DdnetverOld(d) => ex("ddnetver_old", vec![I(d.cid), I(d.ddnet_version)]),
        Item::Joinver6(j) => ex("joinver6", vec![I(j.cid)]),
        Item::Joinver7(j) => ex("joinver7", vec![I(j.cid)]),
        Item::PlayerFinish(p) => ex("player_finish", vec![I(p.cid), I(p.time_ticks)]),
        Item::PlayerName(p) => ex("player_name", vec![I(p.cid), B(p.name.to_vec())]),
        Item::PlayerReady(p) => ex("player_ready", vec![I(p.cid)]),
        Item::PlayerRejoin(p) => ex("player_rejoin", vec![I(p.cid)]),
        Item::PlayerSwap(p) => ex("player_swap", vec![I(p.cid1), I(p.cid2)]),
        Item::PlayerTeam(p) => ex("player_team", vec![I(p.cid), I(p.team)]),
        Item::TeamFinish(t) => ex("team_finish", vec![I(t.team), I(t.time_ticks)]),
        Item::TeamLoadFailure(t) => ex("team_load_failure", vec![I(t.team)]),
        Item::TeamLoadSuccess(t) => {
            ex("team_load_success", vec![I(t.team), U(*t.save_uuid.as_bytes()), B(t.save.to_vec())])
        }
        Item::TeamPractice(t) => ex("team_practice", vec![I(t.team), I(t.practice)]),
        Item::TeamSaveFailure(t) => ex("team_save_failure", vec![I(t.team)]),
        Item::TeamSaveSuccess(t) => {
            ex("team_save_success", vec![I(t.team), U(*t.save_uuid.as_bytes()), B(t.save.to_vec())])
        }
        Item::UnknownEx(u) => MItem::UnknownEx { uuid: *u.uuid.as_bytes(), data: u.data.to_vec() },
    }
}

// ---------------------------------------------------------------------------
// Byte-level decoder written from the documents (used for hostile streams)

#[derive(Clone, Copy, Debug, PartialEq)]
enum DStop {
    /// FINISH was read.
    Finish,
    /// The stream ends inside a message or without FINISH.
    Truncated,
    /// The documents do not define what follows (the reader is free to fail).
    Undefined(&'static str),
}

struct Dec<'a> {
    b: &'a [u8],
    p: usize,
    /// an int with non-zero padding bits was read (doc/int.md: "must always be zeroed")
    soft: bool,
}

struct Trunc;

impl<'a> Dec<'a> {
    fn int(&mut self) -> Result<i32, Trunc> {
        let mut src = *self.b.get(self.p).ok_or(Trunc)?;
        self.p += 1;
        let sign = src & 0x40 != 0;
        let mut bits: u32 = (src & 0x3f) as u32;
        for i in 0..4 {
            if src & 0x80 == 0 {
                break;
            }
            src = *self.b.get(self.p).ok_or(Trunc)?;
            self.p += 1;
            if i == 3 && src & 0xf0 != 0 {
                self.soft = true;
            }
            bits |= ((src & 0x7f) as u32) << (6 + 7 * i);
        }
        Ok((if sign { !bits } else { bits }) as i32)
    }
    fn string(&mut self) -> Result<&'a [u8], Trunc> {
        let rest = &self.b[self.p..];
        let n = rest.iter().position(|&b| b == 0).ok_or(Trunc)?;
        self.p += n + 1;
        Ok(&rest[..n])
    }
    fn raw(&mut self, n: usize) -> Result<&'a [u8], Trunc> {
        let rest = &self.b[self.p..];
        if rest.len() < n {
            return Err(Trunc);
        }
        self.p += n;
        Ok(&rest[..n])
    }
    fn ints10(&mut self) -> Result<[i32; 10], Trunc> {
        let mut out = [0; 10];
        for o in out.iter_mut() {
            *o = self.int()?;
        }
        Ok(out)
    }
}

impl From<Trunc> for DStop {
    fn from(_: Trunc) -> DStop {
        DStop::Truncated
    }
}

fn decode_one(d: &mut Dec, version: u8) -> Result<Msg, DStop> {
    let id = d.int()?;
    Ok(match id {
        i if i >= 0 => Msg::PlayerDiff { cid: i, dx: d.int()?, dy: d.int()? },
        -1 => Msg::Finish,
        -2 => Msg::TickSkip { dt: d.int()? },
        -3 => Msg::PlayerNew { cid: d.int()?, x: d.int()?, y: d.int()? },
        -4 => Msg::PlayerOld { cid: d.int()? },
        -5 => Msg::InputDiff { cid: d.int()?, d: d.ints10()? },
        -6 => Msg::InputNew { cid: d.int()?, v: d.ints10()? },
        -7 => {
            let cid = d.int()?;
            let size = d.int()?;
            if size < 0 {
                return Err(DStop::Undefined("negative message size"));
            }
            Msg::Message { cid, msg: d.raw(size as usize)?.to_vec() }
        }
        -8 => Msg::Join { cid: d.int()? },
        -9 => Msg::Drop { cid: d.int()?, reason: d.string()?.to_vec() },
        -10 => {
            let cid = d.int()?;
            let flags = d.int()?;
            let cmd = d.string()?.to_vec();
            let n = d.int()?;
            if n < 0 {
                return Err(DStop::Undefined("negative num_args"));
            }
            if n > 16 {
                return Err(DStop::Undefined("more than 16 console arguments (library limit)"));
            }
            let mut args = Vec::new();
            for _ in 0..n {
                args.push(d.string()?.to_vec());
            }
            Msg::Console { cid, flags, cmd, args }
        }
        -11 if version >= 2 => {
            let mut uuid = [0u8; 16];
            uuid.copy_from_slice(d.raw(16)?);
            let size = d.int()?;
            if size < 0 {
                return Err(DStop::Undefined("negative ex size"));
            }
            Msg::Ex { uuid, data: d.raw(size as usize)?.to_vec() }
        }
        _ => return Err(DStop::Undefined("unknown message id")),
    })
}

struct Decoded {
    msgs: Vec<Msg>,
    /// byte offset where each message starts
    starts: Vec<usize>,
    /// number of messages decoded before the first int with non-zero padding was seen
    firm: usize,
    stop: DStop,
}

/// Decodes messages from `b[start..]` until FINISH, the end or something undefined.
fn decode_body(b: &[u8], start: usize, version: u8) -> Decoded {
    let mut d = Dec { b, p: start, soft: false };
    let mut out = Decoded { msgs: Vec::new(), starts: Vec::new(), firm: 0, stop: DStop::Truncated };
    loop {
        let at = d.p;
        match decode_one(&mut d, version) {
            Ok(m) => {
                if !d.soft {
                    out.firm = out.msgs.len() + 1;
                }
                let fin = m == Msg::Finish;
                out.msgs.push(m);
                out.starts.push(at);
                if fin {
                    out.stop = DStop::Finish;
                    return out;
                }
            }
            Err(stop) => {
                out.stop = stop;
                return out;
            }
        }
    }
}

/// Offset of the first message: 16 bytes magic, NUL-terminated JSON.
fn body_start(b: &[u8]) -> Option<usize> {
    if b.len() < 16 {
        return None;
    }
    b[16..].iter().position(|&x| x == 0).map(|n| 16 + n + 1)
}

// ---------------------------------------------------------------------------
// Model of doc/teehistorian.md: ticks (pseudo-code), running sums

#[derive(Default)]
struct DocModel {
    version: u8,
    tick: i64,
    implicit_cid: Option<i32>,
    /// what the library's `prev_player_cid` holds if it is not reset by TICK_SKIP (known finding)
    stale_cid: Option<i32>,
    players: BTreeMap<i32, (i32, i32)>,
    inputs: BTreeMap<i32, [i32; 10]>,
    /// (documented tick, item) for every message that produces an item
    out: Vec<(i32, MItem)>,
    n_implicit: u32,
    n_skip: u32,
    n_ex: u32,
    n_unknown_ex: u32,
    n_wrap_pos: u32,
    n_wrap_input: u32,
    n_reinput: u32,
    defect_hits: u32,
    stop_at_defect: bool,
    max_tick: i64,
}

const STOP_KNOWN: &str = "input class of known finding tickskip-keeps-prev-cid";

fn ex_item(uuid: &[u8; 16], data: &[u8]) -> Result<(MItem, bool), &'static str> {
    let Some(k) = ex_lookup(uuid) else {
        return Ok((MItem::UnknownEx { uuid: *uuid, data: data.to_vec() }, false));
    };
    let (name, _, layout) = EX[k];
    let mut d = Dec { b: data, p: 0, soft: false };
    let mut fields = Vec::new();
    for f in layout {
        let v = match f {
            F::Int => d.int().map(Val::I),
            F::Str => d.string().map(|s| Val::B(s.to_vec())),
            F::Uuid => d.raw(16).map(|u| {
                let mut a = [0u8; 16];
                a.copy_from_slice(u);
                Val::U(a)
            }),
            F::Rest => {
                let r = d.b[d.p..].to_vec();
                d.p = d.b.len();
                Ok(Val::B(r))
            }
        };
        match v {
            Ok(v) => fields.push(v),
            Err(Trunc) => return Err("extension data shorter than its documented fields"),
        }
    }
    Ok((MItem::Ex { name, fields }, d.soft))
}

impl DocModel {
    fn new(version: u8, stop_at_defect: bool) -> DocModel {
        DocModel { version, stop_at_defect, ..DocModel::default() }
    }
    /// Err(reason): the documents do not define this message in this state.
    fn feed(&mut self, m: &Msg) -> Result<(), &'static str> {
        if let Some(cid) = m.player_cid() {
            if cid < 0 {
                return Err("negative client id");
            }
            let defect = self.implicit_cid.is_none() && self.stale_cid.map_or(false, |p| cid <= p);
            if defect {
                if self.stop_at_defect {
                    return Err(STOP_KNOWN);
                }
                self.defect_hits += 1;
            }
            let advance = self.implicit_cid.map_or(false, |p| cid <= p);
            let tick = self.tick + advance as i64;
            if tick > i32::MAX as i64 {
                return Err("tick exceeds i32");
            }
            let item = match *m {
                Msg::PlayerNew { x, y, .. } => {
                    if self.players.contains_key(&cid) {
                        return Err("PLAYER_NEW for an existing player");
                    }
                    self.players.insert(cid, (x, y));
                    MItem::PlayerNew { cid, x, y }
                }
                Msg::PlayerDiff { dx, dy, .. } => {
                    let Some(p) = self.players.get_mut(&cid) else {
                        return Err("PLAYER_DIFF without player");
                    };
                    let (ox, oy) = *p;
                    if ox.checked_add(dx).is_none() || oy.checked_add(dy).is_none() {
                        self.n_wrap_pos += 1;
                    }
                    *p = (ox.wrapping_add(dx), oy.wrapping_add(dy));
                    MItem::PlayerChange { cid, x: p.0, y: p.1, ox, oy }
                }
                Msg::PlayerOld { .. } => {
                    let Some((x, y)) = self.players.remove(&cid) else {
                        return Err("PLAYER_OLD without player");
                    };
                    MItem::PlayerOld { cid, x, y }
                }
                _ => unreachable!(),
            };
            if advance {
                self.n_implicit += 1;
            }
            self.tick = tick;
            self.max_tick = self.max_tick.max(tick);
            self.implicit_cid = Some(cid);
            self.stale_cid = Some(cid);
            self.out.push((tick as i32, item));
            return Ok(());
        }
        let item = match m {
            Msg::TickSkip { dt } => {
                if *dt < 0 {
                    return Err("negative dt");
                }
                let tick = self.tick + 1 + *dt as i64;
                if tick > i32::MAX as i64 {
                    return Err("tick exceeds i32");
                }
                self.tick = tick;
                self.max_tick = self.max_tick.max(tick);
                self.implicit_cid = None;
                self.n_skip += 1;
                return Ok(());
            }
            Msg::Finish => return Ok(()),
            Msg::InputNew { cid, v } => {
                if *cid < 0 {
                    return Err("negative client id");
                }
                if self.inputs.insert(*cid, *v).is_some() {
                    self.n_reinput += 1;
                }
                MItem::Input { cid: *cid, input: *v }
            }
            Msg::InputDiff { cid, d } => {
                let Some(cur) = self.inputs.get_mut(cid) else {
                    return Err("INPUT_DIFF without INPUT_NEW");
                };
                let mut wrapped = false;
                for (c, d) in cur.iter_mut().zip(d.iter()) {
                    wrapped |= c.checked_add(*d).is_none();
                    *c = c.wrapping_add(*d);
                }
                if wrapped {
                    self.n_wrap_input += 1;
                }
                MItem::Input { cid: *cid, input: *cur }
            }
            Msg::Message { cid, msg } => MItem::Message { cid: *cid, msg: msg.clone() },
            Msg::Join { cid } => MItem::Join { cid: *cid },
            Msg::Drop { cid, reason } => MItem::Drop { cid: *cid, reason: reason.clone() },
            Msg::Console { cid, flags, cmd, args } => {
                if args.len() > 16 {
                    return Err("more than 16 console arguments (library limit)");
                }
                MItem::Console { cid: *cid, flag_mask: *flags as u32, cmd: cmd.clone(), args: args.clone() }
            }
            Msg::Ex { uuid, data } => {
                if self.version < 2 {
                    return Err("EX in a version 1 stream");
                }
                let (item, soft) = ex_item(uuid, data)?;
                if soft {
                    return Err("int with non-zero padding inside extension data");
                }
                self.n_ex += 1;
                if matches!(item, MItem::UnknownEx { .. }) {
                    self.n_unknown_ex += 1;
                }
                item
            }
            _ => unreachable!(),
        };
        self.out.push((self.tick as i32, item));
        Ok(())
    }
}

// ---------------------------------------------------------------------------
// Driving the incremental reader

/// Read callback serving `data` in pieces: first the listed piece sizes (0 = a zero-length read, as
/// the file reader produces on EINTR), then `then` bytes per call (0 = as much as offered).
struct Cb<'s> {
    data: &'s [u8],
    pos: usize,
    pieces: &'s [u32],
    pi: usize,
    rem: usize,
    then: usize,
    reads: u32,
    zero_reads: u32,
    empty_offers: u32,
    cuts: Vec<usize>,
    record_cuts: bool,
}

impl<'s> Callback for Cb<'s> {
    type Error = ();
    fn read_at_most(&mut self, buf: &mut [u8]) -> Result<Option<usize>, ()> {
        burn();
        if buf.is_empty() {
            self.empty_offers += 1;
        }
        let want = if self.rem > 0 {
            self.rem
        } else if self.pi < self.pieces.len() {
            let p = self.pieces[self.pi] as usize;
            self.pi += 1;
            if p == 0 {
                self.zero_reads += 1;
                return Ok(Some(0));
            }
            self.rem = p;
            p
        } else if self.then == 0 {
            usize::MAX
        } else {
            self.then
        };
        let avail = self.data.len() - self.pos;
        if avail == 0 {
            return Ok(None);
        }
        let n = want.min(avail).min(buf.len());
        buf[..n].copy_from_slice(&self.data[self.pos..self.pos + n]);
        self.pos += n;
        self.rem -= n.min(self.rem);
        if n > 0 {
            self.reads += 1;
            if self.record_cuts {
                self.cuts.push(self.pos);
            }
        }
        Ok(Some(n))
    }
}

#[derive(Clone, Debug, PartialEq)]
enum End {
    Finished,
    Err(String),
}

#[derive(Debug)]
struct RunOut {
    /// rendered header, None if reading the header failed (then `end` is that error)
    header: Option<String>,
    items: Vec<MItem>,
    end: End,
    reads: u32,
    cuts: Vec<usize>,
}

fn summarize(h: &Header) -> String {
    let mut cfg: Vec<(String, String)> = h.config.iter().map(|(k, v)| (k.to_string(), v.to_string())).collect();
    cfg.sort();
    format!(
        "version={} game_uuid={} time={} port={} map_name={:?} map_size={} sha256={} crc={:08x} config={:?}",
        h.version,
        hex(h.game_uuid.as_bytes()),
        h.timestamp.to_rfc3339(),
        h.server_port,
        h.map_name,
        h.map_size,
        h.map_sha256.map(|s| format!("{}", s)).unwrap_or_else(|| "-".into()),
        h.map_crc,
        cfg
    )
}

type Observer<'o> = &'o mut dyn FnMut(&Reader, &MItem) -> Result<(), String>;

/// Reads the whole stream under one fragmentation. Err = panic / fuel exhaustion / observer failure.
fn run_reader(stream: &[u8], pieces: &[u32], then: u32, record_cuts: bool, mut obs: Option<Observer>) -> Result<RunOut, String> {
    let mut cb = Cb {
        data: stream,
        pos: 0,
        pieces,
        pi: 0,
        rem: 0,
        then: then as usize,
        reads: 0,
        zero_reads: 0,
        empty_offers: 0,
        cuts: Vec::new(),
        record_cuts,
    };
    let mut buffer = Buffer::new();
    // callback invocations are bounded by the number of bytes + zero-length pieces + 1 (EOF); every
    // item costs one more unit below
    set_fuel(8 * stream.len() as i64 + 2 * pieces.len() as i64 + 256);
    let r = run_reader_inner(&mut cb, &mut buffer, &mut obs);
    unlimited_fuel();
    let (header, items, end) = r.map_err(|e| format!("{} [fragmentation: pieces {:?} then {}]", e, short(&pieces), then))?;
    Ok(RunOut { header, items, end, reads: cb.reads, cuts: cb.cuts })
}

fn run_reader_inner(cb: &mut Cb, buffer: &mut Buffer, obs: &mut Option<Observer>) -> Result<(Option<String>, Vec<MItem>, End), String> {
    let r = guard(|| Reader::new(&mut *cb, &mut *buffer).map(|(h, r)| (summarize(&h), r)));
    let (header, mut reader) = match r {
        Err(p) => return Err(format!("Reader::new: {}", p)),
        Ok(Err(e)) => return Ok((None, Vec::new(), End::Err(format!("{:?}", e)))),
        Ok(Ok(x)) => x,
    };
    let mut items = Vec::new();
    loop {
        burn();
        let r = guard(|| reader.read(&mut *cb, &mut *buffer).map(|o| o.map(|it| own(&it))));
        match r {
            Err(p) => return Err(format!("Reader::read after {} items: {}", items.len(), p)),
            Ok(Err(e)) => return Ok((Some(header), items, End::Err(format!("{:?}", e)))),
            Ok(Ok(None)) => return Ok((Some(header), items, End::Finished)),
            Ok(Ok(Some(it))) => {
                if let Some(o) = obs.as_mut() {
                    o(&reader, &it)?;
                }
                items.push(it);
            }
        }
    }
}

fn same_as_ref(reference: &RunOut, got: &RunOut, what: &str) -> Result<(), String> {
    ensure_eq!(got.header, reference.header, "{}: header differs from the one-piece read", what);
    for (i, (a, b)) in got.items.iter().zip(reference.items.iter()).enumerate() {
        ensure!(a == b, "{}: item #{} is {} but the one-piece read gave {}", what, i, short(a), short(b));
    }
    ensure_eq!(got.items.len(), reference.items.len(), "{}: number of items differs from the one-piece read (end {:?} vs {:?})", what, got.end, reference.end);
    ensure_eq!(got.end, reference.end, "{}: final result differs from the one-piece read", what);
    Ok(())
}

/// Proper nesting, strictly increasing tick numbers, every other item inside a pair. Returns the
/// message items with the number of the enclosing tick.
fn nest(items: &[MItem], finished: bool) -> Result<Vec<(i32, &MItem)>, String> {
    let mut open: Option<i32> = None;
    let mut last: Option<i32> = None;
    let mut out = Vec::new();
    for (i, it) in items.iter().enumerate() {
        match it {
            MItem::TickStart(t) => {
                ensure!(open.is_none(), "item #{}: TickStart({}) while tick {:?} is still open", i, t, open);
                ensure!(last.map_or(true, |l| *t > l), "item #{}: TickStart({}) does not exceed the previous tick {:?}", i, t, last);
                open = Some(*t);
                last = Some(*t);
            }
            MItem::TickEnd(t) => {
                ensure!(open == Some(*t), "item #{}: TickEnd({}) but the open tick is {:?}", i, t, open);
                open = None;
            }
            other => match open {
                Some(t) => out.push((t, other)),
                None => return Err(format!("item #{} ({}) is outside any TickStart/TickEnd pair", i, short(other))),
            },
        }
    }
    if finished {
        ensure!(open.is_none(), "stream finished while tick {:?} is still open", open);
    }
    Ok(out)
}

/// `model` must be a prefix of (or, if `exact`, equal to) what the reader reported.
fn compare_with_model(model: &[(i32, MItem)], lib: &[(i32, &MItem)], exact: bool) -> Result<(), String> {
    for (i, (m, l)) in model.iter().zip(lib.iter()).enumerate() {
        ensure!(
            m.1 == *l.1,
            "message item #{}: reader reported {} but the recorded message yields {}",
            i,
            short(l.1),
            short(&m.1)
        );
        ensure!(
            m.0 == l.0,
            "message item #{} ({}): reader puts it in tick {} but doc/teehistorian.md assigns tick {}",
            i,
            short(&m.1),
            l.0,
            m.0
        );
    }
    ensure!(
        lib.len() >= model.len(),
        "reader reported {} message items, the stream defines at least {} (next would be {})",
        lib.len(),
        model.len(),
        short(&model[lib.len().min(model.len() - 1)])
    );
    if exact {
        ensure!(lib.len() == model.len(), "reader reported {} message items, the stream holds {}", lib.len(), model.len());
    }
    Ok(())
}

// ---------------------------------------------------------------------------
// Generators: header, history, fragmentation schedules

#[derive(Clone, Debug, Hash, Serialize, Deserialize)]
pub struct Hdr {
    pub version: u8,
    pub game_uuid: [u8; 16],
    /// year, month, day, hour, minute, second
    pub time: (u16, u8, u8, u8, u8, u8),
    /// offset west?, hours, half hour
    pub tz: (bool, u8, bool),
    pub port: u16,
    pub map_name: String,
    pub map_size: u32,
    pub sha256: Option<[u8; 32]>,
    pub crc: u32,
    pub config: Vec<(String, String)>,
    /// bit mask of additional (ignored) members
    pub extra: u8,
    /// rotation of the member order
    pub rot: u8,
    /// length of one long config value (0 = none); > 8192 makes the header outgrow the initial buffer
    pub long_value: u16,
}

fn js(s: &str) -> String {
    serde_json::to_string(s).unwrap()
}

impl Hdr {
    fn rfc3339(&self) -> String {
        let (y, mo, d, h, mi, s) = self.time;
        let (west, th, half) = self.tz;
        let zero = th == 0 && !half;
        format!(
            "{:04}-{:02}-{:02}T{:02}:{:02}:{:02}{}{:02}:{:02}",
            y,
            mo,
            d,
            h,
            mi,
            s,
            if west && !zero { '-' } else { '+' },
            th,
            if half { 30 } else { 0 }
        )
    }
    fn config_map(&self) -> BTreeMap<String, String> {
        let mut m: BTreeMap<String, String> = self.config.iter().cloned().collect();
        if self.long_value > 0 {
            m.insert("sv_motd".into(), "m".repeat(self.long_value as usize));
        }
        m
    }
    fn json(&self) -> String {
        let (y, mo, d, h, mi, s) = self.time;
        let (west, th, half) = self.tz;
        let zero = th == 0 && !half;
        let start_time = if self.version == 1 {
            format!(
                "{:04}-{:02}-{:02} {:02}:{:02}:{:02} {}{:02}{:02}",
                y,
                mo,
                d,
                h,
                mi,
                s,
                if west && !zero { '-' } else { '+' },
                th,
                if half { 30 } else { 0 }
            )
        } else {
            self.rfc3339()
        };
        let u = hex(&self.game_uuid);
        let uuid = format!("{}-{}-{}-{}-{}", &u[0..8], &u[8..12], &u[12..16], &u[16..20], &u[20..32]);
        let cfg: Vec<String> = self.config_map().iter().map(|(k, v)| format!("{}:{}", js(k), js(v))).collect();
        let mut members: Vec<(String, String)> = vec![
            ("version".into(), js(&self.version.to_string())),
            ("game_uuid".into(), js(&uuid)),
            ("start_time".into(), js(&start_time)),
            ("server_port".into(), js(&self.port.to_string())),
            ("map_name".into(), js(&self.map_name)),
            ("map_size".into(), js(&self.map_size.to_string())),
            ("map_crc".into(), js(&format!("{:08x}", self.crc))),
            ("config".into(), format!("{{{}}}", cfg.join(","))),
        ];
        if let Some(sha) = &self.sha256 {
            members.push(("map_sha256".into(), js(&hex(sha))));
        }
        if self.extra & 1 != 0 {
            members.push(("comment".into(), js("teehistorian@ddnet.tw")));
        }
        if self.extra & 2 != 0 {
            members.push(("version_minor".into(), js("4")));
        }
        if self.extra & 4 != 0 {
            members.push(("tuning".into(), "{\"gravity\":\"50\",\"nested\":{\"a\":[1,2.5,null,true]}}".into()));
        }
        if self.extra & 8 != 0 {
            members.push(("uuids".into(), "[\"teehistorian-test@ddnet.tw\",\"\\u0000 \\\\ \\\" \\ud83d\\ude00\"]".into()));
        }
        if self.extra & 16 != 0 {
            members.push(("server_name".into(), js("unnamed \u{1F600} server\u{0}")));
        }
        let n = members.len();
        members.rotate_left(self.rot as usize % n);
        let body: Vec<String> = members.iter().map(|(k, v)| format!("{}:{}", js(k), v)).collect();
        format!("{{{}}}", body.join(","))
    }
    fn bytes(&self) -> Vec<u8> {
        let mut out = MAGIC.to_vec();
        let j = self.json();
        debug_assert!(!j.as_bytes().contains(&0));
        out.extend_from_slice(j.as_bytes());
        out.push(0);
        out
    }
    /// what `summarize` must give for this header
    fn expected_summary(&self) -> String {
        let cfg: Vec<(String, String)> = self.config_map().into_iter().collect();
        format!(
            "version={} game_uuid={} time={} port={} map_name={:?} map_size={} sha256={} crc={:08x} config={:?}",
            self.version,
            hex(&self.game_uuid),
            self.rfc3339(),
            self.port,
            self.map_name,
            self.map_size,
            self.sha256.map(|s| hex(&s)).unwrap_or_else(|| "-".into()),
            self.crc,
            cfg
        )
    }
}

fn text_strategy(max: usize) -> BoxedStrategy<String> {
    let ch = prop_oneof![
        6 => (0x20u8..0x7f).prop_map(|b| b as char),
        1 => any::<char>(),
        1 => prop_oneof![Just('"'), Just('\\'), Just('\u{0}'), Just('\n'), Just('\u{1F600}')],
    ];
    proptest::collection::vec(ch, 0..=max).prop_map(|v| v.into_iter().collect()).boxed()
}

fn hdr_strategy() -> BoxedStrategy<Hdr> {
    let a = (
        prop_oneof![3 => Just(2u8), 1 => Just(1u8)],
        any::<[u8; 16]>(),
        (1970u16..2100, 1u8..=12, 1u8..=28, 0u8..24, 0u8..60, 0u8..60),
        (any::<bool>(), 0u8..=13, any::<bool>()),
        any::<u16>(),
        text_strategy(12),
        any::<u32>(),
    );
    let b = (
        proptest::option::weighted(0.6, any::<[u8; 32]>()),
        any::<u32>(),
        proptest::collection::vec((text_strategy(8), text_strategy(16)), 0..4),
        0u8..32,
        any::<u8>(),
        prop_oneof![12 => Just(0u16), 1 => 1u16..300, 1 => 8000u16..10000],
    );
    (a, b)
        .prop_map(|((version, game_uuid, time, tz, port, map_name, map_size), (sha256, crc, config, extra, rot, long_value))| Hdr {
            version,
            game_uuid,
            time,
            tz,
            port,
            map_name,
            map_size,
            sha256,
            crc,
            config,
            extra,
            rot,
            long_value,
        })
        .boxed()
}

/// Byte payload: explicit head plus `pad` generated bytes (cheap to generate and to shrink).
#[derive(Clone, Debug, Hash, Serialize, Deserialize)]
pub struct Blob {
    pub head: Vec<u8>,
    pub pad: u16,
}

impl Blob {
    fn bytes(&self) -> Vec<u8> {
        let mut v = self.head.clone();
        v.extend((0..self.pad as u32).map(|i| (i.wrapping_mul(31).wrapping_add(7) >> 1) as u8));
        v
    }
    fn text(&self) -> Vec<u8> {
        self.bytes().into_iter().map(|b| if b == 0 { 1 } else { b }).collect()
    }
}

fn blob_strategy() -> BoxedStrategy<Blob> {
    (
        proptest::collection::vec(any::<u8>(), 0..20),
        prop_oneof![80 => Just(0u16), 16 => 1u16..400, 2 => 8100u16..11000, 1 => 16500u16..40000],
    )
        .prop_map(|(head, pad)| Blob { head, pad })
        .boxed()
}

fn small_blob_strategy() -> BoxedStrategy<Blob> {
    (proptest::collection::vec(any::<u8>(), 0..12), prop_oneof![9 => Just(0u16), 1 => 1u16..80])
        .prop_map(|(head, pad)| Blob { head, pad })
        .boxed()
}

#[derive(Clone, Debug, Hash, Serialize, Deserialize)]
pub enum Op {
    /// PLAYER_NEW if the player does not exist, else PLAYER_OLD (`leave`) or PLAYER_DIFF
    Player { cid: u8, leave: bool, a: i32, b: i32 },
    TickSkip { dt: i32 },
    /// INPUT_NEW if there is no input yet (or `renew`), else INPUT_DIFF
    Input { cid: u8, renew: bool, vals: [i32; 10] },
    Message { cid: i32, msg: Blob },
    Join { cid: i32 },
    Drop { cid: i32, reason: Blob },
    Console { cid: i32, flags: i32, cmd: Blob, args: Vec<Blob> },
    /// a known extension message (index into EX scaled from u8), fields drawn from the parts
    Ex { kind: u8, ints: [i32; 3], text: Blob, uuid: [u8; 16] },
    /// unknown extension; `test_uuid` uses the document's TEST uuid
    UnknownEx { test_uuid: bool, uuid: [u8; 16], data: Blob },
}

fn i32_strategy() -> BoxedStrategy<i32> {
    prop_oneof![
        3 => any::<i32>(),
        3 => -70i32..70,
        2 => (0u32..32, any::<bool>(), -2i32..=2).prop_map(|(s, neg, d)| {
            let b = ((1i64 << s) + d as i64) as i32;
            if neg { b.wrapping_neg() } else { b }
        }),
        1 => prop_oneof![Just(i32::MIN), Just(i32::MAX), Just(0), Just(-1)],
    ]
    .boxed()
}

fn player_cid_strategy() -> BoxedStrategy<u8> {
    prop_oneof![6 => 0u8..6, 2 => 0u8..64].boxed()
}

fn any_cid_strategy() -> BoxedStrategy<i32> {
    prop_oneof![6 => 0i32..8, 2 => 0i32..64, 1 => Just(-1), 1 => any::<i32>()].boxed()
}

fn op_strategy(blob: fn() -> BoxedStrategy<Blob>) -> BoxedStrategy<Op> {
    prop_oneof![
        8 => (player_cid_strategy(), proptest::bool::weighted(0.15), i32_strategy(), i32_strategy())
            .prop_map(|(cid, leave, a, b)| Op::Player { cid, leave, a, b }),
        3 => prop_oneof![4 => 0i32..3, 2 => 0i32..1000, 1 => 0i32..=i32::MAX].prop_map(|dt| Op::TickSkip { dt }),
        4 => (player_cid_strategy(), proptest::bool::weighted(0.1), proptest::array::uniform10(i32_strategy()))
            .prop_map(|(cid, renew, vals)| Op::Input { cid, renew, vals }),
        2 => (any_cid_strategy(), blob()).prop_map(|(cid, msg)| Op::Message { cid, msg }),
        1 => any_cid_strategy().prop_map(|cid| Op::Join { cid }),
        1 => (any_cid_strategy(), blob()).prop_map(|(cid, reason)| Op::Drop { cid, reason }),
        1 => (any_cid_strategy(), i32_strategy(), small_blob_strategy(), proptest::collection::vec(small_blob_strategy(), 0..=16))
            .prop_map(|(cid, flags, cmd, args)| Op::Console { cid, flags, cmd, args }),
        3 => (any::<u8>(), proptest::array::uniform3(i32_strategy()), small_blob_strategy(), any::<[u8; 16]>())
            .prop_map(|(kind, ints, text, uuid)| Op::Ex { kind, ints, text, uuid }),
        1 => (proptest::bool::weighted(0.3), any::<[u8; 16]>(), blob())
            .prop_map(|(test_uuid, uuid, data)| Op::UnknownEx { test_uuid, uuid, data }),
    ]
    .boxed()
}

fn ex_data(kind: usize, ints: &[i32; 3], text: &Blob, uuid: &[u8; 16]) -> Vec<u8> {
    let mut out = Vec::new();
    let mut ni = 0;
    for f in EX[kind].2 {
        match f {
            F::Int => {
                put_int(&mut out, ints[ni % 3]);
                ni += 1;
            }
            F::Str => put_str(&mut out, &text.text()),
            F::Uuid => out.extend_from_slice(uuid),
            F::Rest => out.extend_from_slice(&text.bytes()),
        }
    }
    out
}

/// Interprets the ops against the server state so that every message is one the format allows in
/// that state (PLAYER_DIFF/OLD only for existing players, INPUT_DIFF only after INPUT_NEW, ticks
/// within i32, EX only in version 2). Ends with FINISH.
fn build_msgs(version: u8, ops: &[Op]) -> Vec<Msg> {
    let mut players: BTreeSet<i32> = BTreeSet::new();
    let mut inputs: BTreeSet<i32> = BTreeSet::new();
    let mut tick: i64 = 0;
    let mut implicit: Option<i32> = None;
    let mut out = Vec::new();
    for op in ops {
        match op {
            Op::Player { cid, leave, a, b } => {
                let cid = *cid as i32;
                let adv = implicit.map_or(false, |p| cid <= p) as i64;
                if tick + adv > i32::MAX as i64 {
                    continue;
                }
                tick += adv;
                implicit = Some(cid);
                if players.contains(&cid) {
                    if *leave {
                        players.remove(&cid);
                        out.push(Msg::PlayerOld { cid });
                    } else {
                        out.push(Msg::PlayerDiff { cid, dx: *a, dy: *b });
                    }
                } else {
                    players.insert(cid);
                    out.push(Msg::PlayerNew { cid, x: *a, y: *b });
                }
            }
            Op::TickSkip { dt } => {
                let room = i32::MAX as i64 - tick - 1;
                if room < 0 {
                    continue;
                }
                let dt = (*dt as i64).min(room);
                tick += 1 + dt;
                implicit = None;
                out.push(Msg::TickSkip { dt: dt as i32 });
            }
            Op::Input { cid, renew, vals } => {
                let cid = *cid as i32;
                if inputs.contains(&cid) && !*renew {
                    out.push(Msg::InputDiff { cid, d: *vals });
                } else {
                    inputs.insert(cid);
                    out.push(Msg::InputNew { cid, v: *vals });
                }
            }
            Op::Message { cid, msg } => out.push(Msg::Message { cid: *cid, msg: msg.bytes() }),
            Op::Join { cid } => out.push(Msg::Join { cid: *cid }),
            Op::Drop { cid, reason } => {
                // (strings are re-scanned on every refill: keep the byte-by-byte read affordable)
                let mut reason = reason.text();
                reason.truncate(12000);
                out.push(Msg::Drop { cid: *cid, reason })
            }
            Op::Console { cid, flags, cmd, args } => out.push(Msg::Console {
                cid: *cid,
                flags: *flags,
                cmd: cmd.text(),
                args: args.iter().map(|a| a.text()).collect(),
            }),
            Op::Ex { kind, ints, text, uuid } => {
                if version >= 2 {
                    let k = (*kind as usize * EX.len()) >> 8;
                    out.push(Msg::Ex { uuid: parse_uuid(EX[k].1), data: ex_data(k, ints, text, uuid) });
                }
            }
            Op::UnknownEx { test_uuid, uuid, data } => {
                if version >= 2 {
                    let uuid = if *test_uuid { parse_uuid(UUID_TEST) } else { *uuid };
                    out.push(Msg::Ex { uuid, data: data.bytes() });
                }
            }
        }
    }
    out.push(Msg::Finish);
    out
}

/// Exclusion of the input class of the known finding, by construction: a player record that follows
/// a TICK_SKIP and whose client id does not exceed the last player record's id. The TICK_SKIPs in
/// between are removed (the record then advances the tick implicitly, which is a different, valid
/// history). Returns the number of removed TICK_SKIPs.
fn avoid_tickskip_class(msgs: &mut Vec<Msg>) -> u64 {
    let mut out: Vec<Msg> = Vec::with_capacity(msgs.len());
    let mut skips: Vec<usize> = Vec::new();
    let mut last: Option<i32> = None;
    let mut removed = 0;
    for m in msgs.drain(..) {
        if let Some(cid) = m.player_cid() {
            if !skips.is_empty() && last.map_or(false, |p| cid <= p) {
                for &i in skips.iter().rev() {
                    out.remove(i);
                    removed += 1;
                }
            }
            skips.clear();
            last = Some(cid);
        } else if matches!(m, Msg::TickSkip { .. }) {
            skips.push(out.len());
        }
        out.push(m);
    }
    *msgs = out;
    removed
}

struct Stream {
    bytes: Vec<u8>,
    header_len: usize,
    /// (start offset, kind length, total length) per message
    layout: Vec<(usize, usize, usize)>,
}

fn build_stream(hdr: &Hdr, msgs: &[Msg]) -> Stream {
    let mut bytes = hdr.bytes();
    let header_len = bytes.len();
    let mut layout = Vec::with_capacity(msgs.len());
    for m in msgs {
        let start = bytes.len();
        let k = encode_msg(&mut bytes, m);
        layout.push((start, k, bytes.len() - start));
    }
    Stream { bytes, header_len, layout }
}

#[derive(Clone, Debug, Hash, Serialize, Deserialize)]
pub struct Sched {
    pub pieces: Vec<u32>,
    pub then: u32,
}

fn sched_strategy() -> BoxedStrategy<Sched> {
    let piece = prop_oneof![
        1 => Just(0u32),
        3 => 1u32..4,
        3 => 1u32..40,
        2 => 1u32..600,
        1 => 1000u32..9000,
    ];
    let then = prop_oneof![
        3 => Just(0u32),
        2 => 1u32..4,
        2 => 4u32..64,
        1 => 64u32..1000,
        1 => prop_oneof![Just(8191u32), Just(8192u32), Just(4096u32)],
    ];
    (proptest::collection::vec(piece, 0..12), then).prop_map(|(pieces, then)| Sched { pieces, then }).boxed()
}

// ---------------------------------------------------------------------------
// Section: valid histories (doc model + every fragmentation)

#[derive(Clone, Debug, Hash, Serialize, Deserialize)]
pub struct HistCase {
    pub hdr: Hdr,
    pub ops: Vec<Op>,
    pub scheds: Vec<Sched>,
    /// split points for streams too long for the complete two-piece enumeration
    pub splits: Vec<u16>,
}

fn hist_strategy() -> BoxedStrategy<HistCase> {
    let ops = prop_oneof![
        10 => proptest::collection::vec(op_strategy(blob_strategy), 0..40),
        1 => proptest::collection::vec(op_strategy(small_blob_strategy), 300..700),
    ];
    (
        hdr_strategy(),
        ops,
        proptest::collection::vec(sched_strategy(), 6),
        proptest::collection::vec(any::<u16>(), 16),
    )
        .prop_map(|(hdr, ops, scheds, splits)| HistCase { hdr, ops, scheds, splits })
        .boxed()
}

#[derive(Default)]
struct Counters {
    excluded_known: AtomicU64,
    runs: AtomicU64,
    two_piece: AtomicU64,
    cut_header: AtomicU64,
    cut_kind: AtomicU64,
    cut_item: AtomicU64,
    cut_boundary: AtomicU64,
    excluded_cid: AtomicU64,
}

#[derive(Clone, Copy, PartialEq)]
enum CutAt {
    Header,
    Kind,
    Item,
    Boundary,
}

fn classify_cut(s: &Stream, p: usize) -> CutAt {
    if p < s.header_len {
        return CutAt::Header;
    }
    let i = s.layout.partition_point(|l| l.0 <= p);
    if i == 0 {
        return CutAt::Boundary;
    }
    let (start, kind, len) = s.layout[i - 1];
    if p == start || p >= start + len {
        CutAt::Boundary
    } else if p < start + kind {
        CutAt::Kind
    } else {
        CutAt::Item
    }
}

const TWO_PIECE_ALL_UP_TO: usize = 2048;

fn pos_observer() -> impl FnMut(&Reader, &MItem) -> Result<(), String> {
    |r: &Reader, it: &MItem| {
        match it {
            MItem::PlayerNew { cid, x, y } | MItem::PlayerChange { cid, x, y, .. } => {
                let p = r.player_pos(*cid).map(|p| (p.x, p.y));
                ensure_eq!(p, Some((*x, *y)), "Reader::player_pos({}) after {}", cid, short(it));
            }
            MItem::PlayerOld { cid, .. } => {
                let p = r.player_pos(*cid).map(|p| (p.x, p.y));
                ensure_eq!(p, None, "Reader::player_pos({}) after {}", cid, short(it));
            }
            MItem::Input { cid, input } => {
                ensure_eq!(r.input(*cid), Some(*input), "Reader::input({}) after {}", cid, short(it));
            }
            _ => {}
        }
        Ok(())
    }
}

fn check_history(c: &HistCase, known_open: bool, cnt: &Counters) -> PResult {
    let version = c.hdr.version;
    let mut msgs = build_msgs(version, &c.ops);
    if known_open && avoid_tickskip_class(&mut msgs) > 0 {
        cnt.excluded_known.fetch_add(1, Ordering::Relaxed);
    }
    let s = build_stream(&c.hdr, &msgs);
    let mut model = DocModel::new(version, false);
    for m in &msgs {
        if let Err(e) = model.feed(m) {
            return Err(format!("harness error: generated message {} is not defined by the documents: {}", short(m), e));
        }
    }
    if known_open {
        ensure!(model.defect_hits == 0, "harness error: known-finding class not excluded");
    }
    // one-piece read = reference; compared with the document model
    let mut obs = pos_observer();
    let reference = run_reader(&s.bytes, &[], 0, false, Some(&mut obs))?;
    cnt.runs.fetch_add(1, Ordering::Relaxed);
    let what = "one-piece read of a valid stream";
    ensure!(reference.header.is_some(), "{}: header refused: {:?} [{}]", what, reference.end, short(&c.hdr.json()));
    ensure_eq!(reference.header, Some(c.hdr.expected_summary()), "{}: header contents", what);
    let pairs = nest(&reference.items, reference.end == End::Finished).map_err(|e| format!("{}: {}", what, e))?;
    compare_with_model(&model.out, &pairs, reference.end == End::Finished).map_err(|e| format!("{}: {} (final result {:?})", what, e, reference.end))?;
    ensure_eq!(reference.end, End::Finished, "{}: final result", what);

    // fragmentations
    let len = s.bytes.len();
    let mut max_reads = reference.reads;
    let bytewise = run_reader(&s.bytes, &[], 1, false, None)?;
    same_as_ref(&reference, &bytewise, "byte-by-byte read")?;
    max_reads = max_reads.max(bytewise.reads);
    let (mut in_header, mut in_kind, mut in_item) = (false, false, false);
    for (i, sc) in c.scheds.iter().enumerate() {
        let got = run_reader(&s.bytes, &sc.pieces, sc.then, true, None)?;
        same_as_ref(&reference, &got, &format!("read under schedule #{} {}", i, short(sc)))?;
        max_reads = max_reads.max(got.reads);
        for &p in &got.cuts {
            if p < len {
                match classify_cut(&s, p) {
                    CutAt::Header => in_header = true,
                    CutAt::Kind => in_kind = true,
                    CutAt::Item => in_item = true,
                    CutAt::Boundary => {}
                }
            }
        }
    }
    let mut points: Vec<usize> = Vec::new();
    let all_two_piece = len <= TWO_PIECE_ALL_UP_TO;
    if all_two_piece {
        points.extend(1..len);
    } else {
        points.extend(c.splits.iter().map(|&k| 1 + pick(k, len - 1)));
        points.extend([16, s.header_len - 1, s.header_len, s.header_len + 1, 8191, 8192, 8193, 16384, len - 1].iter().filter(|&&p| p >= 1 && p < len));
        points.sort();
        points.dedup();
    }
    for &p in &points {
        let got = run_reader(&s.bytes, &[p as u32], 0, false, None)?;
        same_as_ref(&reference, &got, &format!("two-piece read split at byte {} of {}", p, len))?;
        let c = match classify_cut(&s, p) {
            CutAt::Header => &cnt.cut_header,
            CutAt::Kind => &cnt.cut_kind,
            CutAt::Item => &cnt.cut_item,
            CutAt::Boundary => &cnt.cut_boundary,
        };
        c.fetch_add(1, Ordering::Relaxed);
    }
    cnt.two_piece.fetch_add(points.len() as u64, Ordering::Relaxed);
    cnt.runs.fetch_add(1 + c.scheds.len() as u64 + points.len() as u64, Ordering::Relaxed);

    let max_item = s.layout.iter().map(|l| l.2).max().unwrap_or(0);
    let nt = model.n_implicit >= 1 && model.n_skip >= 1 && model.n_ex >= 1 && max_reads >= 3;
    Ok(Outcome::nt(nt)
        .class_if(version == 1, "version_1")
        .class_if(model.n_implicit >= 1, "implicit_tick")
        .class_if(model.n_skip >= 1, "tick_skip")
        .class_if(model.n_ex >= 1, "extension_msg")
        .class_if(model.n_unknown_ex >= 1, "unknown_extension")
        .class_if(model.n_wrap_pos >= 1, "position_wraps")
        .class_if(model.n_wrap_input >= 1, "input_wraps")
        .class_if(model.n_reinput >= 1, "input_new_again")
        .class_if(model.max_tick == i32::MAX as i64, "tick_reaches_i32_max")
        .class_if(model.max_tick > 1 << 20, "large_tick")
        .class_if(msgs.len() == 1, "finish_only")
        .class_if(len > 8192, "stream_over_8k")
        .class_if(max_item > 8192, "item_over_8k")
        .class_if(max_item > 16384, "item_over_16k")
        .class_if(s.header_len > 8192, "header_over_8k")
        .class_if(all_two_piece, "all_two_piece_splits")
        .class_if(in_header, "sched_cut_in_header")
        .class_if(in_kind, "sched_cut_in_kind")
        .class_if(in_item, "sched_cut_in_item"))
}

// ---------------------------------------------------------------------------
// Section: every 2- and 3-piece split of one fixed stream holding every message kind

fn fixed_msgs() -> Vec<Msg> {
    let mut v = vec![
        Msg::TickSkip { dt: 3 },
        Msg::Join { cid: 0 },
        Msg::Ex { uuid: parse_uuid(EX[5].1), data: ex_data(5, &[0, 0, 0], &Blob { head: vec![], pad: 0 }, &[0; 16]) },
        Msg::PlayerNew { cid: 0, x: i32::MAX - 3, y: -70 },
        Msg::PlayerNew { cid: 5, x: 1000, y: i32::MIN },
        Msg::InputNew { cid: 0, v: [1, -1, 0, 64, -65, 8192, i32::MAX, i32::MIN, 3, 0] },
        Msg::PlayerDiff { cid: 0, dx: 10, dy: -10 },
        Msg::PlayerDiff { cid: 5, dx: -1, dy: -1 },
        Msg::InputDiff { cid: 0, d: [0, 2, 0, 0, 0, 0, 1, -1, 0, 0] },
        Msg::Message { cid: 5, msg: vec![0, 1, 2, 0x80, 0xff, 0] },
        Msg::PlayerDiff { cid: 5, dx: 0, dy: 0 },
        Msg::TickSkip { dt: 0 },
        Msg::TickSkip { dt: 100000 },
        Msg::Console { cid: -1, flags: 0x40, cmd: b"vote".to_vec(), args: vec![b"yes".to_vec(), vec![], b"a b".to_vec()] },
        Msg::PlayerNew { cid: 63, x: 0, y: 0 },
        Msg::Drop { cid: 5, reason: b"Timeout \xff".to_vec() },
        Msg::PlayerOld { cid: 5 },
        Msg::PlayerOld { cid: 63 },
        Msg::Ex { uuid: parse_uuid(UUID_TEST), data: vec![1, 2, 3] },
        Msg::Ex { uuid: [0xab; 16], data: vec![] },
    ];
    for k in 0..EX.len() {
        let text = Blob { head: b"text\x01\xf0".to_vec(), pad: (k % 3) as u16 };
        v.push(Msg::Ex { uuid: parse_uuid(EX[k].1), data: ex_data(k, &[k as i32, -1000 - k as i32, 1 << 20], &text, &[k as u8; 16]) });
        if k % 4 == 0 {
            v.push(Msg::PlayerDiff { cid: 0, dx: k as i32, dy: 1 });
        }
    }
    v.push(Msg::Finish);
    v
}

fn fixed_hdr() -> Hdr {
    Hdr {
        version: 2,
        game_uuid: parse_uuid("8f5ad1b4-7a1e-4b2c-9d57-0123456789ab"),
        time: (2017, 10, 1, 13, 12, 48),
        tz: (false, 2, false),
        port: 8303,
        map_name: "dm1".into(),
        map_size: 5805,
        sha256: Some([0x5a; 32]),
        crc: 0xf2159e6e,
        config: vec![("sv_name".into(), "x".into())],
        extra: 1,
        rot: 0,
        long_value: 0,
    }
}

fn split_of(idx: u64, n: u64) -> (u64, u64) {
    // idx enumerates pairs 1 <= p <= q <= n-1 row by row (p == q: two pieces)
    let mut p = 1;
    let mut idx = idx;
    loop {
        let row = n - p;
        if idx < row {
            return (p, p + idx);
        }
        idx -= row;
        p += 1;
    }
}

fn section_fixed(ctx: &Ctx, known_open: bool, cnt: &Counters) {
    let mut msgs = fixed_msgs();
    if known_open {
        avoid_tickskip_class(&mut msgs);
    }
    let hdr = fixed_hdr();
    let s = build_stream(&hdr, &msgs);
    let n = s.bytes.len() as u64;
    let total = (n - 1) * n / 2;
    let reference = match run_reader(&s.bytes, &[], 0, false, None) {
        Ok(r) => r,
        Err(e) => {
            ctx.violation("fixed_stream_splits", json!({"index": 0, "stream": hex(&s.bytes)}), &e);
            return;
        }
    };
    let mut model = DocModel::new(2, false);
    let model_ok = msgs.iter().all(|m| model.feed(m).is_ok());
    ctx.extra("fixed_stream_len", json!(n));
    ctx.exhaustive(
        "fixed_stream_splits",
        total,
        |idx| {
            if idx == 0 {
                ensure!(model_ok, "harness error: fixed stream not defined by the documents");
                ensure_eq!(reference.header, Some(hdr.expected_summary()), "fixed stream: header contents");
                let pairs = nest(&reference.items, reference.end == End::Finished)?;
                compare_with_model(&model.out, &pairs, true)?;
                ensure_eq!(reference.end, End::Finished, "fixed stream: final result");
            }
            let (p, q) = split_of(idx, n);
            let pieces = [p as u32, (q - p) as u32];
            let got = run_reader(&s.bytes, if p == q { &pieces[..1] } else { &pieces[..] }, 0, false, None)?;
            same_as_ref(&reference, &got, &format!("fixed stream split at bytes {} and {} of {}", p, q, n))?;
            Ok(got.reads >= 3)
        },
        |idx| {
            let (p, q) = split_of(idx, n);
            json!({"split_at": [p, q], "stream": hex(&s.bytes)})
        },
    );
    cnt.runs.fetch_add(total, Ordering::Relaxed);
}

// ---------------------------------------------------------------------------
// Arbitrary byte streams: truncated, corrupted, random

struct BytesInfo {
    excluded_cid: bool,
    excluded_known: bool,
    header_ok: bool,
    finished: bool,
    lib_items: usize,
    model_items: usize,
    exact: bool,
    stop: DStop,
    err: String,
    max_reads: u32,
}

/// Oracle for any byte stream: no panic, bounded callback invocations, identical outcome under all
/// given fragmentations, proper tick nesting, and agreement with the documents on everything they
/// define (the messages decoded before the first undefined point).
fn check_bytes(bytes: &[u8], frags: &[(Vec<u32>, u32)], known_open: bool) -> Result<BytesInfo, String> {
    let mut info = BytesInfo {
        excluded_cid: false,
        excluded_known: false,
        header_ok: false,
        finished: false,
        lib_items: 0,
        model_items: 0,
        exact: false,
        stop: DStop::Truncated,
        err: String::new(),
        max_reads: 0,
    };
    let start = body_start(bytes);
    if let Some(start) = start {
        // pre-scan (as version 2, the superset) for client ids that make the reader allocate a lot
        let pre = decode_body(bytes, start, 2);
        let huge = pre.msgs.iter().any(|m| match m {
            Msg::PlayerNew { cid, .. } | Msg::InputNew { cid, .. } => *cid > CID_LIMIT,
            _ => false,
        });
        if huge {
            info.excluded_cid = true;
            return Ok(info);
        }
    }
    let reference = run_reader(bytes, &[], 0, false, None)?;
    info.max_reads = reference.reads;
    info.header_ok = reference.header.is_some();
    info.finished = reference.end == End::Finished;
    info.lib_items = reference.items.len();
    if let End::Err(e) = &reference.end {
        info.err = e.clone();
    }
    let pairs = nest(&reference.items, info.finished)?;
    if let Some(h) = &reference.header {
        let version: u8 = if h.starts_with("version=1 ") {
            1
        } else if h.starts_with("version=2 ") {
            2
        } else {
            return Err(format!("reader accepted a header that is neither version 1 nor 2: {}", short(h)));
        };
        let start = start.ok_or_else(|| "reader accepted a header although the stream has no NUL-terminated header string".to_string())?;
        let dec = decode_body(bytes, start, version);
        info.stop = dec.stop;
        let mut model = DocModel::new(version, known_open);
        let mut defined = 0;
        for m in &dec.msgs[..dec.firm] {
            match model.feed(m) {
                Ok(()) => defined += 1,
                Err(e) => {
                    if e == STOP_KNOWN {
                        info.excluded_known = true;
                    }
                    info.stop = DStop::Undefined(e);
                    break;
                }
            }
        }
        info.exact = dec.stop == DStop::Finish && defined == dec.msgs.len();
        info.model_items = model.out.len();
        compare_with_model(&model.out, &pairs, info.exact).map_err(|e| format!("{} (reader's final result {:?})", e, reference.end))?;
        if info.exact {
            ensure_eq!(reference.end, End::Finished, "stream is completely defined by the documents and ends with FINISH; final result");
        }
    }
    for (pieces, then) in frags {
        let got = run_reader(bytes, pieces, *then, false, None)?;
        same_as_ref(&reference, &got, &format!("read with pieces {} then {}", short(pieces), then))?;
        info.max_reads = info.max_reads.max(got.reads);
    }
    Ok(info)
}

fn err_class(e: &str) -> &'static str {
    const TABLE: &[(&str, &str)] = &[
        ("UnexpectedEnd", "err_unexpected_end"),
        ("WrongMagic", "err_wrong_magic"),
        ("MalformedJson", "err_malformed_json"),
        ("Malformed", "err_malformed_header_member"),
        ("UnknownVersion", "err_unknown_version"),
        ("UnknownType", "err_unknown_type"),
        ("NegativeDt", "err_negative_dt"),
        ("NumArgs", "err_num_args"),
        ("TickOverflow", "err_tick_overflow"),
        ("InvalidClientId", "err_invalid_cid"),
        ("PlayerNewDuplicate", "err_player_new_duplicate"),
        ("WithoutNew", "err_without_new"),
    ];
    TABLE.iter().find(|(k, _)| e.contains(k)).map(|(_, c)| *c).unwrap_or("err_other")
}

fn bytes_outcome(info: &BytesInfo, changed: bool, cnt: &Counters) -> Outcome {
    if info.excluded_cid {
        cnt.excluded_cid.fetch_add(1, Ordering::Relaxed);
        return Outcome::trivial().class("excluded_huge_cid");
    }
    if info.excluded_known {
        cnt.excluded_known.fetch_add(1, Ordering::Relaxed);
    }
    let mut o = Outcome::nt(changed && info.header_ok && info.lib_items >= 1 && info.max_reads >= 3)
        .class_if(!info.header_ok, "header_refused")
        .class_if(info.finished, "finished")
        .class_if(info.exact, "fully_defined_by_doc")
        .class_if(info.header_ok && info.model_items >= 3, "model_checked_3_items")
        .class_if(info.excluded_known, "stopped_at_known_class")
        .class_if(matches!(info.stop, DStop::Undefined(_)) && info.header_ok, "reaches_undefined_point");
    if !info.finished {
        o = o.class(err_class(&info.err));
    }
    o
}

#[derive(Clone, Debug, Hash, Serialize, Deserialize)]
pub enum Tok {
    Id(i8),
    Int(i32),
    Byte(u8),
    Str(Vec<u8>),
}

#[derive(Clone, Debug, Hash, Serialize, Deserialize)]
pub enum Mutation {
    Truncate { at: u16 },
    Set { body: bool, at: u16, val: u8 },
    Xor { body: bool, at: u16, bit: u8 },
    Insert { body: bool, at: u16, bytes: Vec<u8> },
    Delete { body: bool, at: u16, n: u8 },
    Dup { at: u16, n: u8 },
    /// keep the header and a prefix of the body, then message-like garbage
    Tail { keep: u16, toks: Vec<Tok> },
    /// replace the header's version string
    Version { v: i16 },
    Raw { bytes: Vec<u8> },
}

fn mutation_strategy() -> BoxedStrategy<Mutation> {
    let tok = prop_oneof![
        4 => (-12i8..8).prop_map(Tok::Id),
        3 => i32_strategy().prop_map(Tok::Int),
        2 => any::<u8>().prop_map(Tok::Byte),
        1 => proptest::collection::vec(1u8..=255, 0..6).prop_map(Tok::Str),
    ];
    let body = proptest::bool::weighted(0.85);
    prop_oneof![
        2 => any::<u16>().prop_map(|at| Mutation::Truncate { at }),
        3 => (body.clone(), any::<u16>(), prop_oneof![any::<u8>(), Just(0u8), Just(0x40u8), Just(0x80u8), Just(0xffu8)])
            .prop_map(|(body, at, val)| Mutation::Set { body, at, val }),
        3 => (body.clone(), any::<u16>(), 0u8..8).prop_map(|(body, at, bit)| Mutation::Xor { body, at, bit }),
        2 => (body.clone(), any::<u16>(), proptest::collection::vec(any::<u8>(), 1..6))
            .prop_map(|(body, at, bytes)| Mutation::Insert { body, at, bytes }),
        2 => (body, any::<u16>(), 1u8..12).prop_map(|(body, at, n)| Mutation::Delete { body, at, n }),
        1 => (any::<u16>(), 1u8..40).prop_map(|(at, n)| Mutation::Dup { at, n }),
        4 => (any::<u16>(), proptest::collection::vec(tok, 0..30)).prop_map(|(keep, toks)| Mutation::Tail { keep, toks }),
        1 => (-2i16..5).prop_map(|v| Mutation::Version { v }),
        1 => proptest::collection::vec(any::<u8>(), 0..60).prop_map(|bytes| Mutation::Raw { bytes }),
    ]
    .boxed()
}

fn apply_mutation(b: &mut Vec<u8>, m: &Mutation) {
    let hl = body_start(b).unwrap_or(0).min(b.len());
    let range = |body: bool, at: u16, len: usize| -> usize {
        let lo = if body { hl } else { 0 };
        if len <= lo {
            return lo.min(len);
        }
        lo + pick(at, len - lo)
    };
    match m {
        Mutation::Truncate { at } => {
            let n = pick(*at, b.len() + 1);
            b.truncate(n);
        }
        Mutation::Set { body, at, val } => {
            let i = range(*body, *at, b.len());
            if i < b.len() {
                b[i] = *val;
            }
        }
        Mutation::Xor { body, at, bit } => {
            let i = range(*body, *at, b.len());
            if i < b.len() {
                b[i] ^= 1 << (bit & 7);
            }
        }
        Mutation::Insert { body, at, bytes } => {
            let i = range(*body, *at, b.len() + 1).min(b.len());
            let tail = b.split_off(i);
            b.extend_from_slice(bytes);
            b.extend_from_slice(&tail);
        }
        Mutation::Delete { body, at, n } => {
            let i = range(*body, *at, b.len());
            let e = (i + *n as usize).min(b.len());
            if i < e {
                b.drain(i..e);
            }
        }
        Mutation::Dup { at, n } => {
            let i = range(true, *at, b.len());
            let e = (i + *n as usize).min(b.len());
            if i < e {
                let part = b[i..e].to_vec();
                let tail = b.split_off(e);
                b.extend_from_slice(&part);
                b.extend_from_slice(&tail);
            }
        }
        Mutation::Tail { keep, toks } => {
            // cut at a message boundary of the (still valid) body
            let dec = decode_body(b, hl, 2);
            let mut bounds: Vec<usize> = dec.starts.clone();
            if bounds.is_empty() {
                bounds.push(hl);
            }
            let cut = bounds[pick(*keep, bounds.len())];
            b.truncate(cut);
            for t in toks {
                match t {
                    Tok::Id(i) => put_int(b, *i as i32),
                    Tok::Int(i) => put_int(b, *i),
                    Tok::Byte(x) => b.push(*x),
                    Tok::Str(s) => put_str(b, s),
                }
            }
        }
        Mutation::Version { v } => {
            let pat = b"\"version\":\"";
            if let Some(i) = b.windows(pat.len()).position(|w| w == pat) {
                let i = i + pat.len();
                if let Some(e) = b[i..].iter().position(|&c| c == b'"') {
                    let tail = b.split_off(i + e);
                    b.truncate(i);
                    b.extend_from_slice(v.to_string().as_bytes());
                    b.extend_from_slice(&tail);
                }
            }
        }
        Mutation::Raw { bytes } => {
            *b = bytes.clone();
        }
    }
}

#[derive(Clone, Debug, Hash, Serialize, Deserialize)]
pub struct HostileCase {
    pub hdr: Hdr,
    pub ops: Vec<Op>,
    pub muts: Vec<Mutation>,
    pub scheds: Vec<Sched>,
    pub splits: Vec<u16>,
}

fn small_hdr_strategy() -> BoxedStrategy<Hdr> {
    hdr_strategy()
        .prop_map(|mut h| {
            h.long_value = h.long_value.min(40);
            h
        })
        .boxed()
}

fn hostile_strategy() -> BoxedStrategy<HostileCase> {
    (
        small_hdr_strategy(),
        proptest::collection::vec(op_strategy(small_blob_strategy), 0..14),
        proptest::collection::vec(mutation_strategy(), 1..4),
        proptest::collection::vec(sched_strategy(), 2),
        proptest::collection::vec(any::<u16>(), 4),
    )
        .prop_map(|(hdr, ops, muts, scheds, splits)| HostileCase { hdr, ops, muts, scheds, splits })
        .boxed()
}

fn check_hostile(c: &HostileCase, known_open: bool, cnt: &Counters) -> PResult {
    let mut msgs = build_msgs(c.hdr.version, &c.ops);
    if known_open {
        avoid_tickskip_class(&mut msgs);
    }
    let base = build_stream(&c.hdr, &msgs).bytes;
    let mut bytes = base.clone();
    for m in &c.muts {
        apply_mutation(&mut bytes, m);
    }
    let mut frags: Vec<(Vec<u32>, u32)> = vec![(vec![], 1)];
    frags.extend(c.scheds.iter().map(|s| (s.pieces.clone(), s.then)));
    if bytes.len() >= 2 {
        frags.extend(c.splits.iter().map(|&k| (vec![1 + pick(k, bytes.len() - 1) as u32], 0)));
    }
    let info = check_bytes(&bytes, &frags, known_open)?;
    cnt.runs.fetch_add(1 + frags.len() as u64, Ordering::Relaxed);
    Ok(bytes_outcome(&info, bytes != base, cnt)
        .class_if(bytes == base, "mutation_without_effect")
        .class_if(c.muts.iter().any(|m| matches!(m, Mutation::Tail { .. })), "mut_tail")
        .class_if(c.muts.iter().any(|m| matches!(m, Mutation::Raw { .. })), "mut_raw"))
}

#[derive(Clone, Debug, Hash, Serialize, Deserialize)]
pub struct TruncCase {
    pub hdr: Hdr,
    pub ops: Vec<Op>,
    pub sched: Sched,
}

const TRUNC_ALL_UP_TO: usize = 1200;

/// Every prefix of a valid stream (every 7th position for long streams).
fn check_truncations(c: &TruncCase, known_open: bool, cnt: &Counters) -> PResult {
    let mut msgs = build_msgs(c.hdr.version, &c.ops);
    if known_open {
        avoid_tickskip_class(&mut msgs);
    }
    let s = build_stream(&c.hdr, &msgs);
    let len = s.bytes.len();
    let step = if len <= TRUNC_ALL_UP_TO { 1 } else { 7 };
    let frags = vec![(vec![], 1u32), (c.sched.pieces.clone(), c.sched.then)];
    let full = check_bytes(&s.bytes, &frags, known_open)?;
    ensure!(full.exact && full.finished, "harness error: complete valid stream not recognised as fully defined");
    let mut cut = 0;
    let mut prefixes = 0u64;
    let mut with_items = 0;
    while cut < len {
        let info = check_bytes(&s.bytes[..cut], &frags, known_open).map_err(|e| format!("stream truncated to {} of {} bytes: {}", cut, len, e))?;
        ensure!(!info.exact, "harness error: truncated stream recognised as complete");
        ensure!(info.model_items <= full.model_items, "harness error: truncated stream defines more items");
        if info.lib_items > 0 {
            with_items += 1;
        }
        prefixes += 1;
        cut += step;
    }
    cnt.runs.fetch_add(3 * (prefixes + 1), Ordering::Relaxed);
    Ok(Outcome::nt(with_items >= 3 && full.model_items >= 2).class_if(step == 1, "every_prefix").class_if(step != 1, "every_7th_prefix"))
}

// ---------------------------------------------------------------------------

/// PLAYER_NEW(5), TICK_SKIP(0), PLAYER_NEW(3), FINISH: the document puts the second record in tick 1.
fn probe_tickskip() -> Result<(), String> {
    let msgs = vec![
        Msg::PlayerNew { cid: 5, x: 0, y: 0 },
        Msg::TickSkip { dt: 0 },
        Msg::PlayerNew { cid: 3, x: 0, y: 0 },
        Msg::Finish,
    ];
    let s = build_stream(&fixed_hdr(), &msgs);
    let mut model = DocModel::new(2, false);
    for m in &msgs {
        model.feed(m).map_err(|e| format!("harness error: {}", e))?;
    }
    let r = run_reader(&s.bytes, &[], 0, false, None)?;
    let pairs = nest(&r.items, r.end == End::Finished)?;
    compare_with_model(&model.out, &pairs, true).map_err(|e| format!("PLAYER_NEW(5) TICK_SKIP(0) PLAYER_NEW(3) FINISH: {}; items {}", e, short(&r.items)))?;
    ensure_eq!(r.end, End::Finished, "final result");
    Ok(())
}

pub fn run(ctx: &Ctx) {
    ctx.set_rule(
        "valid_history: header + messages written from doc/teehistorian.md for a random server history (players join/move/leave with \
         wrapping extremes, explicit TICK_SKIPs and implicit tick advances, inputs, every message kind, all 20 known and unknown \
         extension messages, versions 1 and 2, streams/items/headers larger than the reader's 8 KiB buffer), read in one piece \
         (compared with the document's tick pseudo-code and running sums), byte by byte, under 6 generated schedules (incl. \
         zero-length reads) and under every two-piece split (streams <= 2048 bytes, else ~25 split points); non-trivial = >= 1 \
         implicit tick advance, >= 1 TICK_SKIP, >= 1 extension message, a fragmentation with >= 3 pieces; distinct by case hash. \
         fixed_stream_splits: every 2- and 3-piece split of one stream holding every message kind (non-trivial = 3 pieces). \
         truncations: every prefix of a valid stream; hostile: valid stream after 1-3 mutations (truncate, set/xor/insert/delete/dup \
         bytes, message-like garbage tail, other version, raw bytes), non-trivial = header accepted, >= 1 item, >= 3 pieces",
    );
    ctx.assume("the model is an independent writer/decoder written from doc/teehistorian.md and doc/int.md; the data layout of the 5 extension messages missing from the document (antibot, player_finish, player_name, player_rejoin, team_finish) is taken from teehistorian/src/format/item.rs");
    ctx.assume("hostile streams whose PLAYER_NEW/INPUT_NEW client id exceeds 65536 are excluded (the reader's VecMap allocates proportionally: resource use, not the stated property)");
    ctx.assume("where the documents define nothing (unknown ids, diff without new, negative sizes, > 16 console arguments, tick beyond i32, ints with padding bits) only panic freedom, termination, tick nesting and fragmentation independence are demanded");
    let known_open = ctx.known_open(KEY_TICKSKIP);
    let cnt = Counters::default();
    ctx.probe(KEY_TICKSKIP, probe_tickskip);
    section_fixed(ctx, known_open, &cnt);
    ctx.prop("valid_history", ctx.n(2_000, 50_000), hist_strategy, |c: &HistCase| check_history(c, known_open, &cnt));
    ctx.prop(
        "truncations",
        ctx.n(300, 6_000),
        || {
            (small_hdr_strategy(), proptest::collection::vec(op_strategy(small_blob_strategy), 0..14), sched_strategy())
                .prop_map(|(hdr, ops, sched)| TruncCase { hdr, ops, sched })
        },
        |c: &TruncCase| check_truncations(c, known_open, &cnt),
    );
    ctx.prop("hostile", ctx.n(40_000, 1_200_000), hostile_strategy, |c: &HostileCase| check_hostile(c, known_open, &cnt));
    ctx.add_excluded_known(cnt.excluded_known.load(Ordering::Relaxed));
    ctx.extra("reader_runs", json!(cnt.runs.load(Ordering::Relaxed)));
    ctx.extra("two_piece_splits_run", json!(cnt.two_piece.load(Ordering::Relaxed)));
    ctx.extra(
        "two_piece_split_positions",
        json!({
            "inside_header": cnt.cut_header.load(Ordering::Relaxed),
            "inside_kind": cnt.cut_kind.load(Ordering::Relaxed),
            "inside_item": cnt.cut_item.load(Ordering::Relaxed),
            "at_message_boundary": cnt.cut_boundary.load(Ordering::Relaxed),
        }),
    );
    ctx.extra("excluded_huge_client_id", json!(cnt.excluded_cid.load(Ordering::Relaxed)));
}

/// Entry point for fuzz targets / raw replays: the "any bytes" oracle under byte-by-byte reads,
/// one-piece reads and two fixed mixed schedules.
pub fn fuzz_bytes(data: &[u8]) -> Result<(), String> {
    let frags: Vec<(Vec<u32>, u32)> = vec![(vec![], 1), (vec![], 1 << 20), (vec![7, 0, 3, 1, 64], 13), (vec![1, 1, 2, 3, 5, 8, 13, 21], 4096)];
    check_bytes(data, &frags, false).map(|_| ())
}

/// Valid streams (seed corpus for the fuzz target).
pub fn seed_streams() -> Vec<Vec<u8>> {
    let all = fixed_msgs();
    vec![build_stream(&fixed_hdr(), &all).bytes, build_stream(&fixed_hdr(), &all[..all.len().min(6)]).bytes, build_stream(&fixed_hdr(), &[]).bytes]
}
