//! C14 - generated message and object codecs match the protocol descriptions.
//!
//! The four JSON descriptions are read at run time and interpreted by a small reference model of
//! the member kinds (written from gamenet/generate/datatypes.py). For every described codec the
//! model builds canonical bytes / words from values swept over the boundaries of the declared
//! types and predicts, for arbitrary bytes, whether the described layout accepts them. The
//! generated crates are driven only through their generic entry points
//! (`System/Game/Connless::decode` + `encode`, `SnapObj::decode_obj` + `encode`, `obj_size`).
//!
//! Sections:
//! * `probe:bool-encode.<proto>.<object>` - one per snapshot object with boolean members (known defect class)
//! * `msg_boundary_sweep` / `obj_boundary_sweep` - every (codec, member, boundary value), other members default:
//!   in-constraint => Ok, no warnings, identical re-encoding (+ obj_type_id, obj_size); out-of-constraint => Err
//! * `id_sweep` - every message ordinal -1024..1023 x system flag and every object type 0..=65535 incl. obj_size
//! * `msg_vectors` / `obj_vectors` - generated value vectors plus one mutation, library against the model
//! * `msg_bytes` / `obj_words` - raw, id-prefixed, token-structured and layout-guided bytes / words against the model

use crate::util::{hex, Warnings};
use crate::{ensure, ensure_eq, guard, pick, Ctx, Outcome, PResult};
use libtw2_gamenet_common::snap_obj::TypeId;
use libtw2_packer::{with_packer, IntUnpacker, Unpacker};
use proptest::prelude::*;
use serde::{Deserialize, Serialize};
use serde_json::{json, Value};
use std::collections::BTreeMap;

// ---------------------------------------------------------------------------
// Variable-length integers (doc/int.md), independent of the library

fn put_int(out: &mut Vec<u8>, v: i32) {
    let sign = v < 0;
    let mut bits: u32 = if sign { !(v as u32) } else { v as u32 };
    let mut cur = ((bits & 0x3f) as u8) | if sign { 0x40 } else { 0 };
    bits >>= 6;
    while bits != 0 {
        out.push(cur | 0x80);
        cur = (bits & 0x7f) as u8;
        bits >>= 7;
    }
    out.push(cur);
}

fn int_bytes(v: i32) -> Vec<u8> {
    let mut o = Vec::new();
    put_int(&mut o, v);
    o
}

/// (value, bytes consumed, padding bits zero) or None if the string ends inside the integer.
fn get_int(b: &[u8]) -> Option<(i32, usize, bool)> {
    let first = *b.first()?;
    let sign = first & 0x40 != 0;
    let mut bits: u32 = (first & 0x3f) as u32;
    let mut n = 1;
    let mut ext = first & 0x80 != 0;
    let mut shift = 6;
    let mut clean = true;
    while ext && n < 5 {
        let byte = *b.get(n)?;
        n += 1;
        if n < 5 {
            bits |= ((byte & 0x7f) as u32) << shift;
            ext = byte & 0x80 != 0;
        } else {
            bits |= ((byte & 0x0f) as u32) << shift;
            clean = byte & 0xf0 == 0;
            ext = false;
        }
        shift += 7;
    }
    let v = if sign { !bits } else { bits } as i32;
    Some((v, n, clean))
}

// ---------------------------------------------------------------------------
// Description model

#[derive(Clone, Copy, Debug, PartialEq, Eq, PartialOrd, Ord)]
enum Sec {
    System = 0,
    Game = 1,
    Connless = 2,
    Obj = 3,
}

const SEC_NAMES: [&str; 4] = ["system", "game", "connless", "snap_obj"];

#[derive(Clone, Copy, Debug, PartialEq, Eq)]
enum Flavor {
    Range,
    Enum,
    Flags(u32),
    Bool,
    Free,
}

#[derive(Clone, Debug, PartialEq, Eq)]
enum LeafKind {
    /// all 32-bit integer kinds: value must lie in lo..=hi
    Int { lo: i32, hi: i32, flavor: Flavor },
    Str { strict: bool },
    Data,
    /// rest, serverinfo_client: everything up to the end
    Rest,
    /// packed_addresses: everything up to the end, whole 18-byte records are canonical
    Addrs,
    /// sha256 (32), uuid (16)
    Raw(usize),
    BeU16,
    U8,
    IntStr,
}

#[derive(Clone, Debug)]
struct Leaf {
    path: String,
    kind: LeafKind,
    /// index of the (trailing) optional member this leaf belongs to
    opt: Option<usize>,
}

impl Leaf {
    fn constrained(&self) -> bool {
        match self.kind {
            LeafKind::Int { lo, hi, .. } => lo > i32::MIN || hi < i32::MAX,
            LeafKind::Str { strict } => strict,
            LeafKind::IntStr | LeafKind::Data | LeafKind::Raw(_) => true,
            _ => false,
        }
    }
    fn is_bool(&self) -> bool {
        matches!(self.kind, LeafKind::Int { flavor: Flavor::Bool, .. })
    }
}

#[derive(Clone, Debug, PartialEq, Eq, PartialOrd, Ord)]
enum Id {
    Ord(i32),
    Uuid([u8; 16]),
    Connless([u8; 8]),
}

#[derive(Clone, Debug)]
struct Codec {
    proto: usize,
    sec: Sec,
    name: String,
    id: Id,
    leaves: Vec<Leaf>,
    n_opt: usize,
    /// boundary values per leaf (filled by `load_world`)
    bounds: Vec<Vec<Boundary>>,
}

impl Codec {
    fn label(&self) -> String {
        format!("{}/{}/{}", PROTO_NAMES[self.proto], SEC_NAMES[self.sec as usize], self.name)
    }
    fn has_bool(&self) -> bool {
        self.leaves.iter().any(|l| l.is_bool())
    }
}

const PROTO_NAMES: [&str; 4] = ["teeworlds-0.5", "teeworlds-0.6", "teeworlds-0.7", "ddnet"];
const PROTO_FILES: [&str; 4] = [
    "teeworlds-0.5.json",
    "teeworlds-0.6.json",
    "teeworlds-0.7-trunk.json",
    "ddnet-19.6.json",
];

fn join_name(v: &Value) -> Result<String, String> {
    let parts = v.as_array().ok_or_else(|| format!("name is not an array: {}", v))?;
    let mut out = Vec::new();
    for p in parts {
        out.push(p.as_str().ok_or_else(|| format!("name part is not a string: {}", v))?.to_string());
    }
    Ok(out.join("_"))
}

fn parse_uuid(s: &str) -> Result<[u8; 16], String> {
    let h: String = s.chars().filter(|c| *c != '-').collect();
    if h.len() != 32 || !h.chars().all(|c| c.is_ascii_hexdigit()) {
        return Err(format!("bad uuid {:?}", s));
    }
    let mut out = [0u8; 16];
    for i in 0..16 {
        out[i] = u8::from_str_radix(&h[2 * i..2 * i + 2], 16).unwrap();
    }
    Ok(out)
}

fn as_i32(v: &Value, what: &str) -> Result<i32, String> {
    v.as_i64()
        .and_then(|x| i32::try_from(x).ok())
        .ok_or_else(|| format!("{}: not an int32: {}", what, v))
}

struct SpecCtx<'a> {
    enums: BTreeMap<String, (i32, i32)>,
    flags: BTreeMap<String, u32>,
    objects: BTreeMap<String, &'a Value>,
}

fn leaves_of_type(
    t: &Value,
    path: &str,
    sc: &SpecCtx,
    for_obj: bool,
    opt: Option<usize>,
    out: &mut Vec<Leaf>,
) -> Result<(), String> {
    let kind = t["kind"].as_str().ok_or_else(|| format!("{}: member type without kind", path))?;
    let int = |lo: i32, hi: i32, flavor: Flavor| Leaf {
        path: path.to_string(),
        kind: LeafKind::Int { lo, hi, flavor },
        opt,
    };
    let other = |kind: LeafKind| Leaf { path: path.to_string(), kind, opt };
    let msg_only = |k: &str| -> Result<(), String> {
        if for_obj {
            Err(format!("{}: member kind {} has no snapshot-object encoding", path, k))
        } else {
            Ok(())
        }
    };
    match kind {
        "array" => {
            let count = t["count"].as_u64().ok_or_else(|| format!("{}: array without count", path))?;
            for i in 0..count {
                leaves_of_type(&t["member_type"], &format!("{}[{}]", path, i), sc, for_obj, opt, out)?;
            }
        }
        "int32" => {
            let lo = if t.get("min").is_some() { as_i32(&t["min"], path)? } else { i32::MIN };
            let hi = if t.get("max").is_some() { as_i32(&t["max"], path)? } else { i32::MAX };
            if lo > hi {
                return Err(format!("{}: empty int range", path));
            }
            let flavor = if lo == i32::MIN && hi == i32::MAX { Flavor::Free } else { Flavor::Range };
            out.push(int(lo, hi, flavor));
        }
        "enum" => {
            let n = join_name(&t["enum"])?;
            let &(lo, hi) = sc.enums.get(&n).ok_or_else(|| format!("{}: unknown enum {}", path, n))?;
            out.push(int(lo, hi, Flavor::Enum));
        }
        "flags" => {
            let n = join_name(&t["flags"])?;
            let &bits = sc.flags.get(&n).ok_or_else(|| format!("{}: unknown flags {}", path, n))?;
            out.push(int(i32::MIN, i32::MAX, Flavor::Flags(bits)));
        }
        "boolean" => out.push(int(0, 1, Flavor::Bool)),
        "tick" => out.push(int(i32::MIN, i32::MAX, Flavor::Free)),
        "tune_param" => {
            msg_only(kind)?;
            out.push(int(i32::MIN, i32::MAX, Flavor::Free));
        }
        "int32_twstring" => {
            let count = t["count"].as_u64().ok_or_else(|| format!("{}: twstring without count", path))?;
            for i in 0..count {
                out.push(Leaf {
                    path: format!("{}[{}]", path, i),
                    kind: LeafKind::Int { lo: i32::MIN, hi: i32::MAX, flavor: Flavor::Free },
                    opt,
                });
            }
        }
        "optional" => {
            // optional members are unwrapped by `member_leaves`; anything else is a nesting the
            // generator cannot express either
            return Err(format!("{}: optional nested inside another member type", path));
        }
        "string" => {
            msg_only(kind)?;
            let strict = t["disallow_cc"].as_bool().ok_or_else(|| format!("{}: string without disallow_cc", path))?;
            out.push(other(LeafKind::Str { strict }));
        }
        "data" => {
            msg_only(kind)?;
            out.push(other(LeafKind::Data));
        }
        "rest" | "serverinfo_client" => {
            msg_only(kind)?;
            out.push(other(LeafKind::Rest));
        }
        "packed_addresses" => {
            msg_only(kind)?;
            out.push(other(LeafKind::Addrs));
        }
        "sha256" => {
            msg_only(kind)?;
            out.push(other(LeafKind::Raw(32)));
        }
        "uuid" => {
            msg_only(kind)?;
            out.push(other(LeafKind::Raw(16)));
        }
        "be_uint16" => {
            msg_only(kind)?;
            out.push(other(LeafKind::BeU16));
        }
        "uint8" => {
            msg_only(kind)?;
            out.push(other(LeafKind::U8));
        }
        "int32_string" => {
            msg_only(kind)?;
            out.push(other(LeafKind::IntStr));
        }
        "snapshot_object" => {
            msg_only(kind)?;
            let n = join_name(&t["name"])?;
            let o = sc.objects.get(&n).ok_or_else(|| format!("{}: unknown snapshot object {}", path, n))?;
            if o.get("super").is_some() {
                return Err(format!("{}: message encoding of an object with a super type", path));
            }
            // the message encoding of an object: its own members as packed ints
            let mut inner = Vec::new();
            member_leaves(&o["members"], sc, true, &mut inner)?;
            for mut l in inner {
                l.path = format!("{}.{}", path, l.path);
                l.opt = opt;
                out.push(l);
            }
        }
        k => return Err(format!("{}: unsupported member kind {:?}", path, k)),
    }
    Ok(())
}

/// Returns the number of optional members.
fn member_leaves(members: &Value, sc: &SpecCtx, for_obj: bool, out: &mut Vec<Leaf>) -> Result<usize, String> {
    let members = members.as_array().ok_or("members is not an array")?;
    let mut n_opt = 0;
    for (i, m) in members.iter().enumerate() {
        let name = join_name(&m["name"])?;
        let t = &m["type"];
        let kind = t["kind"].as_str().unwrap_or("");
        if kind == "optional" {
            if for_obj {
                return Err(format!("{}: optional member in a snapshot object", name));
            }
            leaves_of_type(&t["inner"], &name, sc, for_obj, Some(n_opt), out)?;
            n_opt += 1;
        } else {
            if n_opt > 0 {
                return Err(format!("{}: mandatory member after an optional one", name));
            }
            let before = out.len();
            leaves_of_type(t, &name, sc, for_obj, None, out)?;
            let tail_kind = matches!(kind, "rest" | "serverinfo_client" | "packed_addresses" | "snapshot_object");
            if tail_kind && i + 1 != members.len() {
                return Err(format!("{}: member of kind {} is not the last one", name, kind));
            }
            let _ = before;
        }
    }
    Ok(n_opt)
}

fn object_leaves(o: &Value, sc: &SpecCtx, depth: usize, out: &mut Vec<Leaf>) -> Result<(), String> {
    if depth > 8 {
        return Err("super chain too deep".into());
    }
    if let Some(s) = o.get("super") {
        let n = join_name(s)?;
        let sup = sc.objects.get(&n).ok_or_else(|| format!("unknown super object {}", n))?;
        object_leaves(sup, sc, depth + 1, out)?;
    }
    let n_opt = member_leaves(&o["members"], sc, true, out)?;
    debug_assert_eq!(n_opt, 0);
    Ok(())
}

fn parse_spec(proto: usize, v: &Value) -> Result<Vec<Codec>, String> {
    let mut sc = SpecCtx { enums: BTreeMap::new(), flags: BTreeMap::new(), objects: BTreeMap::new() };
    for e in v["game_enumerations"].as_array().ok_or("no game_enumerations")? {
        let name = join_name(&e["name"])?;
        let mut vals: Vec<i32> = Vec::new();
        for x in e["values"].as_array().ok_or("enum without values")? {
            vals.push(as_i32(&x["value"], &name)?);
        }
        vals.sort();
        if vals.is_empty() || vals.iter().enumerate().any(|(i, &x)| x != vals[0] + i as i32) {
            return Err(format!("enum {} is not contiguous", name));
        }
        sc.enums.insert(name, (vals[0], *vals.last().unwrap()));
    }
    for e in v["game_flags"].as_array().ok_or("no game_flags")? {
        let name = join_name(&e["name"])?;
        let mut vals: Vec<i64> = Vec::new();
        for x in e["values"].as_array().ok_or("flags without values")? {
            vals.push(x["value"].as_i64().ok_or("flag value")?);
        }
        vals.sort();
        if vals.iter().enumerate().any(|(i, &x)| x != 1i64 << i) || vals.len() > 32 {
            return Err(format!("flags {} are not contiguous bits", name));
        }
        sc.flags.insert(name, vals.len() as u32);
    }
    let objs = v["snapshot_objects"].as_array().ok_or("no snapshot_objects")?;
    for o in objs {
        sc.objects.insert(join_name(&o["name"])?, o);
    }
    let mut out = Vec::new();
    for (key, sec) in [("system_messages", Sec::System), ("game_messages", Sec::Game)] {
        for m in v[key].as_array().ok_or_else(|| format!("no {}", key))? {
            let name = join_name(&m["name"])?;
            let id = match &m["id"] {
                Value::Number(_) => {
                    let i = as_i32(&m["id"], &name)?;
                    if i <= 0 {
                        return Err(format!("{}: message ordinal {} cannot be encoded", name, i));
                    }
                    Id::Ord(i)
                }
                Value::String(s) => Id::Uuid(parse_uuid(s)?),
                x => return Err(format!("{}: bad id {}", name, x)),
            };
            let mut leaves = Vec::new();
            let n_opt = member_leaves(&m["members"], &sc, false, &mut leaves).map_err(|e| format!("{}: {}", name, e))?;
            out.push(Codec { proto, sec, name, id, leaves, n_opt, bounds: Vec::new() });
        }
    }
    for m in v["connless_messages"].as_array().ok_or("no connless_messages")? {
        let name = join_name(&m["name"])?;
        let idv = m["id"].as_array().ok_or("connless id")?;
        if idv.len() != 8 {
            return Err(format!("{}: connless id is not 8 bytes", name));
        }
        let mut id = [0u8; 8];
        for (i, b) in idv.iter().enumerate() {
            id[i] = b.as_u64().filter(|x| *x < 256).ok_or("connless id byte")? as u8;
        }
        let mut leaves = Vec::new();
        let n_opt = member_leaves(&m["members"], &sc, false, &mut leaves).map_err(|e| format!("{}: {}", name, e))?;
        out.push(Codec { proto, sec: Sec::Connless, name, id: Id::Connless(id), leaves, n_opt, bounds: Vec::new() });
    }
    for o in objs {
        let name = join_name(&o["name"])?;
        let id = match &o["id"] {
            Value::Number(_) => {
                let i = as_i32(&o["id"], &name)?;
                if !(0..=0xffff).contains(&i) {
                    return Err(format!("{}: object ordinal {} out of range", name, i));
                }
                Id::Ord(i)
            }
            Value::String(s) => Id::Uuid(parse_uuid(s)?),
            x => return Err(format!("{}: bad id {}", name, x)),
        };
        let mut leaves = Vec::new();
        object_leaves(o, &sc, 0, &mut leaves).map_err(|e| format!("{}: {}", name, e))?;
        out.push(Codec { proto, sec: Sec::Obj, name, id, leaves, n_opt: 0, bounds: Vec::new() });
    }
    Ok(out)
}

// ---------------------------------------------------------------------------
// Driving the generated crates through their generic entry points

pub struct MsgOut {
    ok: bool,
    err: String,
    warnings: Vec<String>,
    /// re-encoding of the decoded value (only when requested and decode succeeded)
    reenc: Option<Result<Vec<u8>, String>>,
}

pub struct ObjOut {
    ok: bool,
    err: String,
    warnings: Vec<String>,
    words: Option<Result<Vec<i32>, String>>,
    type_id: Option<TypeId>,
}

type MsgFn = fn(&[u8], bool) -> Result<MsgOut, String>;
type ObjFn = fn(TypeId, &[i32], bool) -> Result<ObjOut, String>;

#[inline(never)]
fn dirty_stack() -> u8 {
    // Fill the part of the stack the next call will use with a non-zero pattern so that padding
    // bytes inside returned structs are unlikely to be zero by accident.
    let mut a = [0xA5u8; 3072];
    std::hint::black_box(&mut a);
    a[17]
}

macro_rules! msg_driver {
    ($fname:ident, $ty:path, $what:expr) => {
        pub fn $fname(b: &[u8], enc: bool) -> Result<MsgOut, String> {
            let mut w = Warnings::new();
            let mut u = Unpacker::new(b);
            let r = guard(|| <$ty>::decode(&mut w, &mut u)).map_err(|p| format!("{}::decode: {}", $what, p))?;
            Ok(match r {
                Err(e) => MsgOut { ok: false, err: format!("{:?}", e), warnings: w.0, reenc: None },
                Ok(m) => {
                    let reenc = if enc {
                        let mut buf: Vec<u8> = Vec::with_capacity(b.len() + 64);
                        Some(match guard(|| with_packer(&mut buf, |p| m.encode(p).map(|s| s.to_vec()))) {
                            Ok(Ok(v)) => Ok(v),
                            Ok(Err(_)) => Err(format!("{}::encode: CapacityError with {} spare bytes", $what, b.len() + 64)),
                            Err(p) => Err(format!("{}::encode: {}", $what, p)),
                        })
                    } else {
                        None
                    };
                    MsgOut { ok: true, err: String::new(), warnings: w.0, reenc }
                }
            })
        }
    };
}

macro_rules! proto_driver {
    ($m:ident, $k:ident) => {
        mod $m {
            use super::*;
            msg_driver!(system, $k::msg::System, "System");
            msg_driver!(game, $k::msg::Game, "Game");
            msg_driver!(connless, $k::msg::Connless, "Connless");
            pub fn obj(tid: TypeId, words: &[i32], enc: bool) -> Result<ObjOut, String> {
                let mut w = Warnings::new();
                let mut u = IntUnpacker::new(words);
                std::hint::black_box(dirty_stack());
                let r = guard(|| $k::snap_obj::SnapObj::decode_obj(&mut w, tid, &mut u))
                    .map_err(|p| format!("SnapObj::decode_obj: {}", p))?;
                Ok(match r {
                    Err(e) => ObjOut { ok: false, err: format!("{:?}", e), warnings: w.0, words: None, type_id: None },
                    Ok(o) => {
                        let type_id = Some(o.obj_type_id());
                        let words = if enc {
                            Some(guard(|| o.encode().to_vec()).map_err(|p| format!("SnapObj::encode: {}", p)))
                        } else {
                            None
                        };
                        ObjOut { ok: true, err: String::new(), warnings: w.0, words, type_id }
                    }
                })
            }
            pub fn obj_size(t: u16) -> Option<u32> {
                $k::snap_obj::obj_size(t)
            }
        }
    };
}

proto_driver!(tw05, libtw2_gamenet_teeworlds_0_5);
proto_driver!(tw06, libtw2_gamenet_teeworlds_0_6);
proto_driver!(tw07, libtw2_gamenet_teeworlds_0_7);
proto_driver!(ddnet, libtw2_gamenet_ddnet);

struct Driver {
    msg: [MsgFn; 3],
    obj: ObjFn,
    obj_size: fn(u16) -> Option<u32>,
}

const DRIVERS: [Driver; 4] = [
    Driver { msg: [tw05::system, tw05::game, tw05::connless], obj: tw05::obj, obj_size: tw05::obj_size },
    Driver { msg: [tw06::system, tw06::game, tw06::connless], obj: tw06::obj, obj_size: tw06::obj_size },
    Driver { msg: [tw07::system, tw07::game, tw07::connless], obj: tw07::obj, obj_size: tw07::obj_size },
    Driver { msg: [ddnet::system, ddnet::game, ddnet::connless], obj: ddnet::obj, obj_size: ddnet::obj_size },
];

// ---------------------------------------------------------------------------
// Values and wire format

#[derive(Clone, Debug, PartialEq)]
enum Val {
    I(i32),
    B(Vec<u8>),
    /// arbitrary wire bytes replacing the canonical encoding of this leaf (messages only)
    Wire(Vec<u8>),
    Absent,
}

fn emit_leaf(out: &mut Vec<u8>, leaf: &Leaf, v: &Val) {
    match (v, &leaf.kind) {
        (Val::Absent, _) => {}
        (Val::Wire(b), _) => out.extend_from_slice(b),
        (Val::I(x), LeafKind::Int { .. }) => put_int(out, *x),
        (Val::I(x), LeafKind::BeU16) => out.extend_from_slice(&(*x as u16).to_be_bytes()),
        (Val::I(x), LeafKind::U8) => out.push(*x as u8),
        (Val::I(x), LeafKind::IntStr) => {
            out.extend_from_slice(format!("{}", x).as_bytes());
            out.push(0);
        }
        (Val::B(b), LeafKind::Str { .. }) => {
            out.extend_from_slice(b);
            out.push(0);
        }
        (Val::B(b), LeafKind::Data) => {
            put_int(out, b.len() as i32);
            out.extend_from_slice(b);
        }
        (Val::B(b), LeafKind::Rest | LeafKind::Addrs | LeafKind::Raw(_)) => out.extend_from_slice(b),
        (v, k) => panic!("harness bug: value {:?} does not fit leaf kind {:?}", v, k),
    }
}

fn emit_id(out: &mut Vec<u8>, sec: Sec, id: &Id) {
    let flag = if sec == Sec::System { 1 } else { 0 };
    match id {
        Id::Ord(i) => put_int(out, (*i << 1) | flag),
        Id::Uuid(u) => {
            put_int(out, flag);
            out.extend_from_slice(u);
        }
        Id::Connless(c) => out.extend_from_slice(c),
    }
}

fn wire_msg(c: &Codec, vals: &[Val]) -> Vec<u8> {
    let mut out = Vec::new();
    emit_id(&mut out, c.sec, &c.id);
    for (l, v) in c.leaves.iter().zip(vals) {
        emit_leaf(&mut out, l, v);
    }
    out
}

fn words_obj(vals: &[Val]) -> Vec<i32> {
    vals.iter()
        .map(|v| match v {
            Val::I(x) => *x,
            v => panic!("harness bug: object value {:?}", v),
        })
        .collect()
}

fn type_id_of(id: &Id) -> TypeId {
    match id {
        Id::Ord(i) => TypeId::Ordinal(*i as u16),
        Id::Uuid(u) => TypeId::Uuid(uuid::Uuid::from_bytes(*u)),
        Id::Connless(_) => panic!("harness bug: connless id for an object"),
    }
}

// ---------------------------------------------------------------------------
// Boundary values per leaf

#[derive(Clone, Debug)]
struct Boundary {
    val: Val,
    valid: bool,
    label: String,
}

fn ramp(n: usize, start: u8) -> Vec<u8> {
    (0..n).map(|i| start.wrapping_add(i as u8)).collect()
}

fn default_val(l: &Leaf) -> Val {
    match &l.kind {
        LeafKind::Int { lo, hi, .. } => Val::I(if *lo <= 0 && 0 <= *hi { 0 } else { *lo }),
        LeafKind::Str { .. } => Val::B(b"x".to_vec()),
        LeafKind::Data => Val::B(vec![1, 2]),
        LeafKind::Rest => Val::B(vec![7, 0, 9]),
        LeafKind::Addrs => Val::B(ramp(18, 1)),
        LeafKind::Raw(n) => Val::B(ramp(*n, 0x10)),
        LeafKind::BeU16 => Val::I(0x1234),
        LeafKind::U8 => Val::I(0x5a),
        LeafKind::IntStr => Val::I(7),
    }
}

fn boundaries(l: &Leaf) -> Vec<Boundary> {
    let mut out: Vec<Boundary> = Vec::new();
    let mut push = |val: Val, valid: bool, label: String| {
        if !out.iter().any(|b| b.val == val) {
            out.push(Boundary { val, valid, label });
        }
    };
    match &l.kind {
        LeafKind::Int { lo, hi, flavor } => {
            let (lo, hi) = (*lo, *hi);
            let inside = |v: i64| v >= lo as i64 && v <= hi as i64;
            let mut cands: Vec<i64> = vec![0, 1, -1, lo as i64, hi as i64, lo as i64 + 1, hi as i64 - 1];
            match flavor {
                Flavor::Enum => cands.extend(lo as i64..=hi as i64),
                Flavor::Flags(bits) => {
                    for i in 0..*bits {
                        cands.push((1u32 << i) as i32 as i64);
                    }
                    cands.push((((1u64 << *bits) - 1) as u32) as i32 as i64);
                }
                _ => {}
            }
            cands.extend([
                (lo as i64 + hi as i64) / 2,
                63,
                64,
                -64,
                -65,
                8191,
                8192,
                -8193,
                1 << 20,
                -(1 << 20) - 1,
                1 << 27,
                -(1 << 27) - 1,
                i32::MIN as i64,
                i32::MAX as i64,
            ]);
            for c in cands {
                if inside(c) {
                    push(Val::I(c as i32), true, format!("{}", c));
                }
            }
            let mut bad: Vec<i64> = vec![lo as i64 - 1, hi as i64 + 1, i32::MIN as i64, i32::MAX as i64];
            if *flavor == Flavor::Bool {
                bad.extend([2, 255, 256, 257, 65536, 1 << 24]);
            } else {
                bad.extend([hi as i64 + 256, lo as i64 - 256]);
            }
            for c in bad {
                if !inside(c) && c >= i32::MIN as i64 && c <= i32::MAX as i64 {
                    push(Val::I(c as i32), false, format!("{}", c));
                }
            }
        }
        LeafKind::Str { strict } => {
            push(Val::B(vec![]), true, "empty".into());
            push(Val::B(b"a".to_vec()), true, "a".into());
            push(Val::B(b" ".to_vec()), true, "space".into());
            push(Val::B(b"hello world ~!".to_vec()), true, "ascii".into());
            push(Val::B("\u{e4}\u{20ac}\u{1d11e}".as_bytes().to_vec()), true, "utf8".into());
            push(Val::B(vec![b'x'; 300]), true, "long300".into());
            push(Val::B(vec![0x20; 40]), true, "spaces40".into());
            for cc in 1u8..32 {
                push(Val::B(vec![b'a', cc, b'b']), !*strict, format!("cc{:02x}_mid", cc));
            }
            for cc in [1u8, 9, 10, 13, 27, 31] {
                push(Val::B(vec![cc]), !*strict, format!("cc{:02x}_alone", cc));
                push(Val::B(vec![cc, b'z']), !*strict, format!("cc{:02x}_first", cc));
                push(Val::B(vec![b'z', cc]), !*strict, format!("cc{:02x}_last", cc));
            }
            if !*strict {
                push(Val::B(vec![0x7f, 0x80, 0xff]), true, "high".into());
            }
        }
        LeafKind::Data => {
            push(Val::B(vec![]), true, "empty".into());
            push(Val::B(vec![0]), true, "zero".into());
            push(Val::B(vec![0xff]), true, "ff".into());
            push(Val::B(ramp(63, 0)), true, "len63".into());
            push(Val::B(ramp(64, 0)), true, "len64".into());
            push(Val::B(ramp(256, 0)), true, "ramp256".into());
            push(Val::B(vec![0; 300]), true, "zeros300".into());
            // sizes around what other layers consider "a part" / "a packet": the description puts no bound on data
            for n in [899usize, 900, 901, 1024, 1390, 2048, 5000, 70_000] {
                push(Val::B(ramp(n, (n % 251) as u8)), true, format!("len{}", n));
            }
            push(Val::Wire(int_bytes(-1)), false, "len-1".into());
            push(Val::Wire(int_bytes(i32::MIN)), false, "lenMIN".into());
            push(Val::Wire(int_bytes(i32::MAX)), false, "lenMAX".into());
        }
        LeafKind::Rest => {
            push(Val::B(vec![]), true, "empty".into());
            push(Val::B(vec![0]), true, "zero".into());
            push(Val::B(ramp(5, 250)), true, "some".into());
            push(Val::B(ramp(300, 0)), true, "ramp300".into());
            push(Val::B(ramp(901, 3)), true, "ramp901".into());
            push(Val::B(ramp(1400, 7)), true, "ramp1400".into());
        }
        LeafKind::Addrs => {
            push(Val::B(vec![]), true, "none".into());
            push(Val::B(ramp(18, 1)), true, "one".into());
            push(Val::B(ramp(54, 0xf0)), true, "three".into());
            push(Val::B(vec![0xff; 18 * 20]), true, "twenty".into());
        }
        LeafKind::Raw(n) => {
            push(Val::B(vec![0; *n]), true, "zeros".into());
            push(Val::B(vec![0xff; *n]), true, "ff".into());
            push(Val::B(ramp(*n, 0x10)), true, "ramp".into());
            push(Val::B(ramp(*n, 0xf8)), true, "ramp_wrap".into());
        }
        LeafKind::BeU16 => {
            for v in [0, 1, 255, 256, 0x1234, 0x8000, 0xffff] {
                push(Val::I(v), true, format!("{}", v));
            }
        }
        LeafKind::U8 => {
            for v in [0, 1, 127, 128, 255] {
                push(Val::I(v), true, format!("{}", v));
            }
        }
        LeafKind::IntStr => {
            for v in [0, 1, -1, 9, 10, -10, 1000000, i32::MIN, i32::MAX] {
                push(Val::I(v), true, format!("{}", v));
            }
            for s in [
                "", "a", "1a", "a1", " 1", "1 ", "2147483648", "-2147483649", "1.0", "--1", "-", "+", "99999999999999999999",
                "0x10", "1e3", "\u{0661}",
            ] {
                let mut w = s.as_bytes().to_vec();
                w.push(0);
                push(Val::Wire(w), false, format!("str{:?}", s));
            }
        }
    }
    out
}

// ---------------------------------------------------------------------------
// Reference model: does the described layout accept these bytes?

#[derive(Clone, Copy, Debug, PartialEq, Eq)]
enum Verdict {
    /// matches the layout
    Accept,
    /// matches the layout and is followed by excess data
    AcceptExcess,
    Reject,
    /// the descriptions do not decide this input
    DontCare,
}

#[derive(Clone, Debug)]
struct Model {
    verdict: Verdict,
    why: String,
    /// every integer shortest, nothing left over: the bytes are exactly what an encoder emits
    canonical: bool,
    absent_opt: bool,
    codec: Option<usize>,
}

impl Model {
    fn new(verdict: Verdict, why: impl Into<String>) -> Model {
        Model { verdict, why: why.into(), canonical: false, absent_opt: false, codec: None }
    }
}

enum Fail {
    End(&'static str),
    Constraint(String),
    Unsure(&'static str),
}

struct Cursor<'a> {
    b: &'a [u8],
    pos: usize,
    canonical: bool,
    fringe: Option<&'static str>,
}

impl<'a> Cursor<'a> {
    fn rest(&self) -> &'a [u8] {
        &self.b[self.pos..]
    }
    fn int(&mut self) -> Result<i32, Fail> {
        let (v, n, clean) = get_int(self.rest()).ok_or(Fail::End("integer cut short"))?;
        if !clean {
            return Err(Fail::Unsure("non-zero integer padding"));
        }
        if int_bytes(v) != self.rest()[..n] {
            self.canonical = false;
        }
        self.pos += n;
        Ok(v)
    }
    fn string(&mut self) -> Result<&'a [u8], Fail> {
        let r = self.rest();
        let n = r.iter().position(|&b| b == 0).ok_or(Fail::End("string without terminator"))?;
        self.pos += n + 1;
        Ok(&r[..n])
    }
    fn raw(&mut self, n: usize) -> Result<&'a [u8], Fail> {
        let r = self.rest();
        if r.len() < n {
            return Err(Fail::End("raw bytes cut short"));
        }
        self.pos += n;
        Ok(&r[..n])
    }
    fn step(&mut self, leaf: &Leaf) -> Result<(), Fail> {
        match &leaf.kind {
            LeafKind::Int { lo, hi, .. } => {
                let v = self.int()?;
                if v < *lo || v > *hi {
                    return Err(Fail::Constraint(format!("{} = {} outside {}..={}", leaf.path, v, lo, hi)));
                }
            }
            LeafKind::Str { strict } => {
                let s = self.string()?;
                if *strict && s.iter().any(|&b| b < 0x20) {
                    return Err(Fail::Constraint(format!("{}: control character", leaf.path)));
                }
            }
            LeafKind::Data => {
                let n = self.int()?;
                if n < 0 {
                    return Err(Fail::End("negative data length"));
                }
                self.raw(n as usize).map_err(|_| Fail::End("data cut short"))?;
            }
            LeafKind::Rest => self.pos = self.b.len(),
            LeafKind::Addrs => {
                if self.rest().len() % 18 != 0 {
                    self.canonical = false;
                }
                self.pos = self.b.len();
            }
            LeafKind::Raw(n) => {
                self.raw(*n)?;
            }
            LeafKind::BeU16 => {
                self.raw(2)?;
            }
            LeafKind::U8 => {
                self.raw(1)?;
            }
            LeafKind::IntStr => {
                let s = self.string()?;
                let digits = match s.first() {
                    Some(b'+') | Some(b'-') => &s[1..],
                    _ => s,
                };
                if digits.is_empty() || !digits.iter().all(|b| b.is_ascii_digit()) {
                    return Err(Fail::Constraint(format!("{}: not a decimal integer", leaf.path)));
                }
                let mut v: i128 = 0;
                for d in digits.iter().take(30) {
                    v = v * 10 + (*d - b'0') as i128;
                }
                if digits.len() > 30 {
                    v = i128::MAX / 4;
                }
                if s[0] == b'-' {
                    v = -v;
                }
                if v < i32::MIN as i128 || v > i32::MAX as i128 {
                    return Err(Fail::Constraint(format!("{}: decimal integer outside int32", leaf.path)));
                }
                if format!("{}", v).as_bytes() != s {
                    // "+5", "007", "-0": the description does not say
                    self.fringe = Some("non-canonical decimal integer string");
                    self.canonical = false;
                }
            }
        }
        Ok(())
    }
}

fn model_payload(c: &Codec, ci: usize, payload: &[u8], id_canonical: bool) -> Model {
    let mut cur = Cursor { b: payload, pos: 0, canonical: id_canonical, fringe: None };
    let mut absent = false;
    let mut sloppy_absent = false;
    for leaf in &c.leaves {
        let at = cur.pos;
        match cur.step(leaf) {
            Ok(()) => {}
            Err(Fail::Unsure(w)) => {
                let mut m = Model::new(Verdict::DontCare, w);
                m.codec = Some(ci);
                return m;
            }
            Err(Fail::End(w)) => {
                if leaf.opt.is_some() {
                    absent = true;
                    if at < payload.len() {
                        sloppy_absent = true;
                    }
                    cur.pos = payload.len();
                } else {
                    let mut m = Model::new(Verdict::Reject, format!("{} ({})", w, leaf.path));
                    m.codec = Some(ci);
                    return m;
                }
            }
            Err(Fail::Constraint(w)) => {
                if leaf.opt.is_some() {
                    absent = true;
                    sloppy_absent = true;
                } else {
                    let mut m = Model::new(Verdict::Reject, w);
                    m.codec = Some(ci);
                    return m;
                }
            }
        }
    }
    let excess = payload.len() - cur.pos;
    let (verdict, why) = if sloppy_absent {
        (Verdict::DontCare, "optional member absent although bytes were left".to_string())
    } else if let Some(f) = cur.fringe {
        (Verdict::DontCare, f.to_string())
    } else if excess > 0 {
        (Verdict::AcceptExcess, format!("{} excess bytes", excess))
    } else {
        (Verdict::Accept, String::new())
    };
    Model { verdict, why, canonical: cur.canonical && excess == 0, absent_opt: absent, codec: Some(ci) }
}

struct World {
    codecs: Vec<Codec>,
    /// (proto, sec, id) -> codec index
    index: BTreeMap<(usize, Sec, Id), usize>,
    /// per (proto, sec): codec indices
    by_sec: Vec<Vec<usize>>,
    /// codec indices whose encode() comparison is excluded because of a listed known finding
    skip_encode: Vec<bool>,
}

impl World {
    fn sec_list(&self, proto: usize, sec: Sec) -> &[usize] {
        &self.by_sec[proto * 4 + sec as usize]
    }

    fn model_msg(&self, proto: usize, entry: Sec, bytes: &[u8]) -> Model {
        if entry == Sec::Connless {
            if bytes.len() < 8 {
                return Model::new(Verdict::Reject, "connless id cut short");
            }
            let mut id = [0u8; 8];
            id.copy_from_slice(&bytes[..8]);
            return match self.index.get(&(proto, Sec::Connless, Id::Connless(id))) {
                None => Model::new(Verdict::Reject, "unknown connless id"),
                Some(&ci) => model_payload(&self.codecs[ci], ci, &bytes[8..], true),
            };
        }
        let Some((v, n, clean)) = get_int(bytes) else {
            return Model::new(Verdict::Reject, "message id cut short");
        };
        if !clean {
            return Model::new(Verdict::DontCare, "non-zero padding in the message id");
        }
        let id_canonical = int_bytes(v) == bytes[..n];
        let sys = v & 1 != 0;
        let m = v >> 1;
        let mut pos = n;
        let id = if m != 0 {
            Id::Ord(m)
        } else {
            if bytes.len() < pos + 16 {
                return Model::new(Verdict::Reject, "uuid of the message id cut short");
            }
            let mut u = [0u8; 16];
            u.copy_from_slice(&bytes[pos..pos + 16]);
            pos += 16;
            Id::Uuid(u)
        };
        if sys != (entry == Sec::System) {
            return Model::new(Verdict::Reject, "system flag does not match the entry point");
        }
        match self.index.get(&(proto, entry, id)) {
            None => Model::new(Verdict::Reject, "unknown message id"),
            Some(&ci) => model_payload(&self.codecs[ci], ci, &bytes[pos..], id_canonical),
        }
    }

    fn model_obj(&self, proto: usize, id: &Id, words: &[i32]) -> Model {
        let Some(&ci) = self.index.get(&(proto, Sec::Obj, id.clone())) else {
            return Model::new(Verdict::Reject, "unknown object type");
        };
        let c = &self.codecs[ci];
        for (i, leaf) in c.leaves.iter().enumerate() {
            let LeafKind::Int { lo, hi, .. } = leaf.kind else { panic!("harness bug: object leaf kind") };
            let Some(&v) = words.get(i) else {
                let mut m = Model::new(Verdict::Reject, format!("object cut short at {}", leaf.path));
                m.codec = Some(ci);
                return m;
            };
            if v < lo || v > hi {
                let mut m = Model::new(Verdict::Reject, format!("{} = {} outside {}..={}", leaf.path, v, lo, hi));
                m.codec = Some(ci);
                return m;
            }
        }
        let excess = words.len() - c.leaves.len();
        Model {
            verdict: if excess > 0 { Verdict::AcceptExcess } else { Verdict::Accept },
            why: if excess > 0 { format!("{} excess words", excess) } else { String::new() },
            canonical: excess == 0,
            absent_opt: false,
            codec: Some(ci),
        }
    }
}

// ---------------------------------------------------------------------------
// Oracles: library against the model

fn judge(m: &Model, ok: bool, err: &str, warnings: &[String], what: &str) -> Result<(), String> {
    match m.verdict {
        Verdict::Accept => {
            ensure!(ok, "{}: the description accepts these bytes but decode returned Err({})", what, err);
            if m.canonical {
                ensure!(warnings.is_empty(), "{}: canonical input decoded with warnings {:?}", what, warnings);
            }
        }
        Verdict::AcceptExcess => {
            if ok {
                ensure!(
                    warnings.iter().any(|w| w.contains("ExcessData")),
                    "{}: input with {} was accepted without an ExcessData warning (warnings {:?})",
                    what,
                    m.why,
                    warnings
                );
            }
        }
        Verdict::Reject => {
            ensure!(!ok, "{}: decode accepted bytes that violate the description: {}", what, m.why);
        }
        Verdict::DontCare => {}
    }
    Ok(())
}

/// Decode `bytes` through `entry` of `proto` and compare with the model. Returns the model verdict.
fn check_msg_bytes(w: &World, proto: usize, entry: Sec, bytes: &[u8]) -> Result<Model, String> {
    let m = w.model_msg(proto, entry, bytes);
    let want_enc = m.verdict == Verdict::Accept && m.canonical && !m.absent_opt;
    let what = match m.codec {
        Some(ci) => format!("{} [{}]", w.codecs[ci].label(), hex(bytes)),
        None => format!("{}/{} [{}]", PROTO_NAMES[proto], SEC_NAMES[entry as usize], hex(bytes)),
    };
    let out = (DRIVERS[proto].msg[entry as usize])(bytes, want_enc).map_err(|p| format!("{}: {}", what, p))?;
    judge(&m, out.ok, &out.err, &out.warnings, &what)?;
    if want_enc {
        match out.reenc {
            Some(Ok(b2)) => ensure!(
                b2 == bytes,
                "{}: canonical bytes re-encode differently: [{}]",
                what,
                hex(&b2)
            ),
            Some(Err(e)) => return Err(format!("{}: re-encoding the decoded value failed: {}", what, e)),
            None => return Err(format!("{}: harness bug, no re-encoding", what)),
        }
    }
    Ok(m)
}

fn check_obj_words(w: &World, proto: usize, id: &Id, words: &[i32]) -> Result<Model, String> {
    let m = w.model_obj(proto, id, words);
    let what = match m.codec {
        Some(ci) => format!("{} {:?}", w.codecs[ci].label(), words),
        None => format!("{}/snap_obj type {:?} {:?}", PROTO_NAMES[proto], id, words),
    };
    let want_enc = m.verdict == Verdict::Accept;
    let out = (DRIVERS[proto].obj)(type_id_of(id), words, want_enc).map_err(|p| format!("{}: {}", what, p))?;
    judge(&m, out.ok, &out.err, &out.warnings, &what)?;
    if want_enc {
        let ci = m.codec.unwrap();
        ensure_eq!(out.type_id, Some(type_id_of(id)), "{}: obj_type_id() of the decoded object", what);
        if let Id::Ord(i) = id {
            ensure_eq!(
                (DRIVERS[proto].obj_size)(*i as u16),
                Some(words.len() as u32),
                "{}: obj_size({}) against the described word count",
                what,
                i
            );
        }
        if !w.skip_encode[ci] {
            match out.words {
                Some(Ok(w2)) => ensure!(w2 == words, "{}: encode() re-exposes different words: {:?}", what, w2),
                Some(Err(e)) => return Err(format!("{}: {}", what, e)),
                None => return Err(format!("{}: harness bug, no re-encoding", what)),
            }
        }
    }
    Ok(m)
}

// ---------------------------------------------------------------------------
// Boundary sweep (complete enumeration of codec x member x boundary)

#[derive(Clone, Copy, Debug)]
struct SweepItem {
    codec: u32,
    /// u32::MAX: optional-presence pattern, `b` = number of optional members present
    leaf: u32,
    b: u32,
}

fn default_vals(c: &Codec, present: usize) -> Vec<Val> {
    c.leaves
        .iter()
        .map(|l| match l.opt {
            Some(g) if g >= present => Val::Absent,
            _ => default_val(l),
        })
        .collect()
}

fn sweep_table(w: &World, objs: bool) -> Vec<SweepItem> {
    let mut t = Vec::new();
    for (ci, c) in w.codecs.iter().enumerate() {
        if (c.sec == Sec::Obj) != objs {
            continue;
        }
        for p in 0..=c.n_opt {
            t.push(SweepItem { codec: ci as u32, leaf: u32::MAX, b: p as u32 });
        }
        for li in 0..c.leaves.len() {
            for (bi, b) in c.bounds[li].iter().enumerate() {
                if objs && !matches!(b.val, Val::I(_)) {
                    continue;
                }
                t.push(SweepItem { codec: ci as u32, leaf: li as u32, b: bi as u32 });
            }
        }
    }
    t
}

fn sweep_case(w: &World, it: SweepItem) -> (Vec<Val>, bool, bool, String) {
    // -> (values, expected valid, constrained boundary, description)
    let c = &w.codecs[it.codec as usize];
    if it.leaf == u32::MAX {
        let vals = default_vals(c, it.b as usize);
        return (vals, true, false, format!("{} optional members present: {} of {}", c.label(), it.b, c.n_opt));
    }
    let mut vals = default_vals(c, c.n_opt);
    let l = &c.leaves[it.leaf as usize];
    let b = &c.bounds[it.leaf as usize][it.b as usize];
    vals[it.leaf as usize] = b.val.clone();
    (vals, b.valid, l.constrained(), format!("{} {} = {}", c.label(), l.path, b.label))
}

fn check_sweep(w: &World, it: SweepItem) -> Result<bool, String> {
    let c = &w.codecs[it.codec as usize];
    let (vals, valid, constrained, desc) = sweep_case(w, it);
    let m = if c.sec == Sec::Obj {
        let words = words_obj(&vals);
        check_obj_words(w, c.proto, &c.id, &words).map_err(|e| format!("{}: {}", desc, e))?
    } else {
        let bytes = wire_msg(c, &vals);
        check_msg_bytes(w, c.proto, c.sec, &bytes).map_err(|e| format!("{}: {}", desc, e))?
    };
    // self-check of the harness: the model must agree with how the case was constructed
    ensure_eq!(m.codec, Some(it.codec as usize), "harness bug: {}: model resolved another codec", desc);
    if valid {
        ensure!(
            m.verdict == Verdict::Accept && m.canonical,
            "harness bug: {}: constructed as canonical but the model says {:?} ({})",
            desc,
            m.verdict,
            m.why
        );
    } else {
        ensure!(
            m.verdict == Verdict::Reject,
            "harness bug: {}: constructed as a violation but the model says {:?} ({})",
            desc,
            m.verdict,
            m.why
        );
    }
    Ok(constrained || it.leaf == u32::MAX && c.n_opt > 0)
}

// ---------------------------------------------------------------------------
// Generated value vectors with one optional mutation

#[derive(Clone, Debug, Hash, Serialize, Deserialize)]
pub struct Pick {
    /// boundary selector (mapped monotonically onto the leaf's valid boundaries)
    pub sel: u16,
    /// when set, a value derived from `rnd` is used instead of a boundary
    pub use_rnd: bool,
    pub rnd: i32,
}

#[derive(Clone, Debug, Hash, Serialize, Deserialize)]
pub enum Mutation {
    None,
    /// strict prefix of the bytes / words
    Truncate(u16),
    /// bytes appended (for objects: one word per byte)
    Excess(Vec<u8>),
    /// one leaf gets an out-of-constraint boundary
    Invalid { leaf: u16, which: u16 },
    /// xor one byte / replace one word
    Flip { pos: u16, xor: u8, word: i32 },
    Insert { pos: u16, byte: u8 },
    Delete { pos: u16 },
    /// hand the bytes to another entry point of the same protocol (messages only)
    OtherEntry(u8),
}

#[derive(Clone, Debug, Hash, Serialize, Deserialize)]
pub struct VecCase {
    pub proto: u8,
    /// 0 system, 1 game, 2 connless (ignored for objects)
    pub sec: u8,
    pub codec: u16,
    pub picks: Vec<Pick>,
    /// number of optional members present (mapped onto 0..=n_opt)
    pub present: u16,
    pub mutation: Mutation,
}

fn xorshift(s: &mut u32) -> u32 {
    let mut x = *s | 1;
    x ^= x << 13;
    x ^= x >> 17;
    x ^= x << 5;
    *s = x;
    x
}

fn rnd_val(l: &Leaf, rnd: i32) -> Val {
    let mut s = rnd as u32 ^ 0x9e37_79b9;
    match &l.kind {
        LeafKind::Int { lo, hi, .. } => {
            if rnd >= *lo && rnd <= *hi {
                Val::I(rnd)
            } else {
                let span = (*hi as i64 - *lo as i64 + 1) as u64;
                Val::I((*lo as i64 + ((rnd as u32 as u64 * span) >> 32) as i64) as i32)
            }
        }
        LeafKind::Str { strict } => {
            let n = (xorshift(&mut s) % 48) as usize;
            Val::B(
                (0..n)
                    .map(|_| {
                        let x = xorshift(&mut s);
                        if *strict {
                            0x20 + (x % 0x5f) as u8
                        } else {
                            1 + (x % 255) as u8
                        }
                    })
                    .collect(),
            )
        }
        LeafKind::Data | LeafKind::Rest => {
            let r = xorshift(&mut s);
            let n = if r % 16 == 0 { 850 + (xorshift(&mut s) % 600) as usize } else { (r % 70) as usize };
            Val::B((0..n).map(|_| xorshift(&mut s) as u8).collect())
        }
        LeafKind::Addrs => {
            let n = (xorshift(&mut s) % 5) as usize * 18;
            Val::B((0..n).map(|_| xorshift(&mut s) as u8).collect())
        }
        LeafKind::Raw(n) => Val::B((0..*n).map(|_| xorshift(&mut s) as u8).collect()),
        LeafKind::BeU16 => Val::I(rnd as u16 as i32),
        LeafKind::U8 => Val::I(rnd as u8 as i32),
        LeafKind::IntStr => Val::I(rnd),
    }
}

struct Built {
    ci: usize,
    vals: Vec<Val>,
    /// a constrained leaf sits on one of its boundaries
    boundary_hit: bool,
    absent: bool,
}

fn build_vals(w: &World, list: &[usize], c: &VecCase) -> Built {
    let ci = list[pick(c.codec, list.len())];
    let codec = &w.codecs[ci];
    let present = pick(c.present, codec.n_opt + 1);
    let mut boundary_hit = false;
    let vals: Vec<Val> = codec
        .leaves
        .iter()
        .enumerate()
        .map(|(i, l)| {
            if matches!(l.opt, Some(g) if g >= present) {
                return Val::Absent;
            }
            if c.picks.is_empty() {
                return default_val(l);
            }
            let p = &c.picks[i % c.picks.len()];
            if p.use_rnd {
                rnd_val(l, p.rnd)
            } else {
                let bs: Vec<&Boundary> = codec.bounds[i].iter().filter(|b| b.valid).collect();
                if l.constrained() {
                    boundary_hit = true;
                }
                bs[pick(p.sel, bs.len())].val.clone()
            }
        })
        .collect();
    Built { ci, vals, boundary_hit, absent: present < codec.n_opt }
}

fn verdict_class(o: Outcome, v: Verdict) -> Outcome {
    o.class_if(v == Verdict::Accept, "verdict_accept")
        .class_if(v == Verdict::AcceptExcess, "verdict_accept_excess")
        .class_if(v == Verdict::Reject, "verdict_reject")
        .class_if(v == Verdict::DontCare, "verdict_dontcare")
}

fn proto_class(o: Outcome, proto: usize, sec: Sec) -> Outcome {
    o.class_if(proto == 0, "proto_0.5")
        .class_if(proto == 1, "proto_0.6")
        .class_if(proto == 2, "proto_0.7")
        .class_if(proto == 3, "proto_ddnet")
        .class_if(sec == Sec::System, "sec_system")
        .class_if(sec == Sec::Game, "sec_game")
        .class_if(sec == Sec::Connless, "sec_connless")
}

fn mutation_class(o: Outcome, m: &Mutation) -> Outcome {
    o.class(match m {
        Mutation::None => "mut_none",
        Mutation::Truncate(_) => "mut_truncate",
        Mutation::Excess(_) => "mut_excess",
        Mutation::Invalid { .. } => "mut_invalid_member",
        Mutation::Flip { .. } => "mut_flip",
        Mutation::Insert { .. } => "mut_insert",
        Mutation::Delete { .. } => "mut_delete",
        Mutation::OtherEntry(_) => "mut_other_entry",
    })
}

/// Applies `Mutation::Invalid`; returns false when the codec has no constrained leaf.
fn apply_invalid(codec: &Codec, vals: &mut [Val], leaf: u16, which: u16, objs: bool) -> bool {
    let cands: Vec<usize> = codec
        .leaves
        .iter()
        .enumerate()
        .filter(|(i, _)| {
            vals[*i] != Val::Absent
                && codec.bounds[*i].iter().any(|b| !b.valid && (!objs || matches!(b.val, Val::I(_))))
        })
        .map(|(i, _)| i)
        .collect();
    if cands.is_empty() {
        return false;
    }
    let li = cands[pick(leaf, cands.len())];
    let bad: Vec<&Boundary> = codec.bounds[li].iter().filter(|b| !b.valid).collect();
    vals[li] = bad[pick(which, bad.len())].val.clone();
    true
}

fn check_msg_vector(w: &World, c: &VecCase) -> PResult {
    let proto = c.proto as usize % 4;
    let sec = [Sec::System, Sec::Game, Sec::Connless][c.sec as usize % 3];
    let list = w.sec_list(proto, sec);
    ensure!(!list.is_empty(), "harness bug: empty section");
    let mut built = build_vals(w, list, c);
    let codec = &w.codecs[built.ci];
    let mut entry = sec;
    let mut expect_reject = false;
    let mut mutated = true;
    if let Mutation::Invalid { leaf, which } = &c.mutation {
        expect_reject = apply_invalid(codec, &mut built.vals, *leaf, *which, false);
        mutated = expect_reject;
    }
    let mut bytes = wire_msg(codec, &built.vals);
    match &c.mutation {
        Mutation::None | Mutation::Invalid { .. } => {
            if matches!(c.mutation, Mutation::None) {
                mutated = false;
            }
        }
        Mutation::Truncate(t) => {
            let n = pick(*t, bytes.len());
            bytes.truncate(n);
        }
        Mutation::Excess(x) => {
            if x.is_empty() {
                mutated = false;
            }
            bytes.extend_from_slice(x);
        }
        Mutation::Flip { pos, xor, .. } => {
            let p = pick(*pos, bytes.len());
            bytes[p] ^= *xor;
            if *xor == 0 {
                mutated = false;
            }
        }
        Mutation::Insert { pos, byte } => {
            let p = pick(*pos, bytes.len() + 1);
            bytes.insert(p, *byte);
        }
        Mutation::Delete { pos } => {
            let p = pick(*pos, bytes.len());
            bytes.remove(p);
        }
        Mutation::OtherEntry(e) => {
            let others: Vec<Sec> = [Sec::System, Sec::Game, Sec::Connless].into_iter().filter(|s| *s != sec).collect();
            entry = others[*e as usize % 2];
        }
    }
    let m = check_msg_bytes(w, proto, entry, &bytes)?;
    if !mutated {
        ensure!(
            m.verdict == Verdict::Accept && m.canonical && m.codec == Some(built.ci),
            "harness bug: {}: unmutated vector is not canonical for the model: {:?} ({})",
            codec.label(),
            m.verdict,
            m.why
        );
    }
    if expect_reject {
        ensure!(
            m.verdict == Verdict::Reject,
            "harness bug: {}: vector with one violated constraint is {:?} for the model ({})",
            codec.label(),
            m.verdict,
            m.why
        );
    }
    let definite = m.verdict != Verdict::DontCare;
    let o = Outcome::nt(definite && (built.boundary_hit || mutated));
    let o = mutation_class(verdict_class(proto_class(o, proto, sec), m.verdict), &c.mutation);
    Ok(o.class_if(built.absent, "optional_absent")
        .class_if(built.boundary_hit, "constrained_boundary")
        .class_if(bytes.len() > 200, "over_200_bytes"))
}

fn check_obj_vector(w: &World, c: &VecCase) -> PResult {
    let proto = c.proto as usize % 4;
    let list = w.sec_list(proto, Sec::Obj);
    let mut built = build_vals(w, list, c);
    let codec = &w.codecs[built.ci];
    let mut expect_reject = false;
    let mut mutated = true;
    if let Mutation::Invalid { leaf, which } = &c.mutation {
        expect_reject = apply_invalid(codec, &mut built.vals, *leaf, *which, true);
        mutated = expect_reject;
    }
    let mut words = words_obj(&built.vals);
    match &c.mutation {
        Mutation::None => mutated = false,
        Mutation::Invalid { .. } => {}
        Mutation::Truncate(t) => {
            if words.is_empty() {
                mutated = false;
            } else {
                let n = pick(*t, words.len());
                words.truncate(n);
            }
        }
        Mutation::Excess(x) => {
            if x.is_empty() {
                mutated = false;
            }
            words.extend(x.iter().map(|b| *b as i8 as i32));
        }
        Mutation::Flip { pos, word, .. } => {
            if words.is_empty() {
                mutated = false;
            } else {
                let p = pick(*pos, words.len());
                if words[p] == *word {
                    mutated = false;
                }
                words[p] = *word;
            }
        }
        Mutation::Insert { pos, byte } => {
            let p = pick(*pos, words.len() + 1);
            words.insert(p, *byte as i8 as i32);
        }
        Mutation::Delete { pos } => {
            if words.is_empty() {
                mutated = false;
            } else {
                let p = pick(*pos, words.len());
                words.remove(p);
            }
        }
        Mutation::OtherEntry(_) => mutated = false,
    }
    let m = check_obj_words(w, proto, &codec.id, &words)?;
    if !mutated {
        ensure!(
            m.verdict == Verdict::Accept && m.codec == Some(built.ci),
            "harness bug: {}: unmutated object is {:?} for the model ({})",
            codec.label(),
            m.verdict,
            m.why
        );
    }
    if expect_reject {
        ensure!(m.verdict == Verdict::Reject, "harness bug: {}: violated constraint but model says {:?}", codec.label(), m.verdict);
    }
    let o = Outcome::nt(!words.is_empty() && (built.boundary_hit || mutated));
    let o = mutation_class(verdict_class(proto_class(o, proto, Sec::Obj), m.verdict), &c.mutation);
    Ok(o.class_if(built.boundary_hit, "constrained_boundary")
        .class_if(matches!(codec.id, Id::Uuid(_)), "uuid_type")
        .class_if(w.skip_encode[built.ci], "encode_comparison_excluded_known"))
}

fn pick_strategy() -> impl Strategy<Value = Pick> {
    (any::<u16>(), prop::bool::weighted(0.35), rnd_int()).prop_map(|(sel, use_rnd, rnd)| Pick { sel, use_rnd, rnd })
}

fn rnd_int() -> BoxedStrategy<i32> {
    prop_oneof![
        3 => any::<i32>(),
        3 => -70i32..300,
        2 => (0u32..32, any::<bool>(), -2i32..=2).prop_map(|(s, neg, d)| {
            let b = ((1i64 << s) + d as i64) as i32;
            if neg { b.wrapping_neg() } else { b }
        }),
    ]
    .boxed()
}

fn mutation_strategy() -> BoxedStrategy<Mutation> {
    prop_oneof![
        5 => Just(Mutation::None),
        3 => any::<u16>().prop_map(Mutation::Truncate),
        2 => proptest::collection::vec(any::<u8>(), 1..6).prop_map(Mutation::Excess),
        4 => (any::<u16>(), any::<u16>()).prop_map(|(leaf, which)| Mutation::Invalid { leaf, which }),
        3 => (any::<u16>(), 1u8..=255, rnd_int()).prop_map(|(pos, xor, word)| Mutation::Flip { pos, xor, word }),
        1 => (any::<u16>(), any::<u8>()).prop_map(|(pos, byte)| Mutation::Insert { pos, byte }),
        1 => any::<u16>().prop_map(|pos| Mutation::Delete { pos }),
        1 => any::<u8>().prop_map(Mutation::OtherEntry),
    ]
    .boxed()
}

fn vec_case_strategy() -> impl Strategy<Value = VecCase> {
    (
        0u8..4,
        0u8..3,
        any::<u16>(),
        proptest::collection::vec(pick_strategy(), 0..12),
        any::<u16>(),
        mutation_strategy(),
    )
        .prop_map(|(proto, sec, codec, picks, present, mutation)| VecCase { proto, sec, codec, picks, present, mutation })
}

// ---------------------------------------------------------------------------
// Arbitrary bytes / words

#[derive(Clone, Debug, Hash, Serialize, Deserialize)]
pub enum Tok {
    Int(i32),
    Str(Vec<u8>),
    Bytes(Vec<u8>),
}

#[derive(Clone, Debug, Hash, Serialize, Deserialize)]
pub enum Body {
    /// the bytes as they are
    Raw(Vec<u8>),
    /// the id of a described message followed by these bytes
    Prefixed { codec: u16, payload: Vec<u8> },
    /// the id of a described message followed by packed ints / strings / raw bytes
    Tokens { codec: u16, toks: Vec<Tok> },
    /// like `Tokens`, but token i is coerced to the kind of the codec's member i (values stay arbitrary)
    Guided { codec: u16, toks: Vec<Tok>, cut: Option<u16> },
}

#[derive(Clone, Debug, Hash, Serialize, Deserialize)]
pub struct BytesCase {
    pub proto: u8,
    pub entry: u8,
    pub body: Body,
}

fn bytes_case_strategy() -> impl Strategy<Value = BytesCase> {
    let small = prop_oneof![3 => -3i32..70, 1 => any::<i32>(), 1 => -200i32..2000];
    let tok = prop_oneof![
        5 => small.prop_map(Tok::Int),
        3 => proptest::collection::vec(prop_oneof![8 => 0x20u8..0x7f, 1 => 1u8..0x20, 1 => any::<u8>()], 0..12)
            .prop_map(|v| Tok::Str(v.into_iter().filter(|b| *b != 0).collect())),
        1 => proptest::collection::vec(any::<u8>(), 0..20).prop_map(Tok::Bytes),
    ];
    let body = prop_oneof![
        2 => proptest::collection::vec(any::<u8>(), 0..40).prop_map(Body::Raw),
        3 => (any::<u16>(), proptest::collection::vec(any::<u8>(), 0..60)).prop_map(|(codec, payload)| Body::Prefixed { codec, payload }),
        4 => (any::<u16>(), proptest::collection::vec(tok.clone(), 0..50)).prop_map(|(codec, toks)| Body::Tokens { codec, toks }),
        6 => (any::<u16>(), proptest::collection::vec(tok, 1..16), proptest::option::weighted(0.2, any::<u16>()))
            .prop_map(|(codec, toks, cut)| Body::Guided { codec, toks, cut }),
    ];
    (0u8..4, 0u8..3, body).prop_map(|(proto, entry, body)| BytesCase { proto, entry, body })
}

fn check_bytes_case(w: &World, c: &BytesCase) -> PResult {
    let proto = c.proto as usize % 4;
    let entry = [Sec::System, Sec::Game, Sec::Connless][c.entry as usize % 3];
    let list = w.sec_list(proto, entry);
    let mut bytes = Vec::new();
    match &c.body {
        Body::Raw(b) => bytes.extend_from_slice(b),
        Body::Prefixed { codec, payload } => {
            let cd = &w.codecs[list[pick(*codec, list.len())]];
            emit_id(&mut bytes, cd.sec, &cd.id);
            bytes.extend_from_slice(payload);
        }
        Body::Tokens { codec, toks } => {
            let cd = &w.codecs[list[pick(*codec, list.len())]];
            emit_id(&mut bytes, cd.sec, &cd.id);
            for t in toks {
                match t {
                    Tok::Int(v) => put_int(&mut bytes, *v),
                    Tok::Str(s) => {
                        bytes.extend(s.iter().filter(|b| **b != 0));
                        bytes.push(0);
                    }
                    Tok::Bytes(b) => bytes.extend_from_slice(b),
                }
            }
        }
        Body::Guided { codec, toks, cut } => {
            let cd = &w.codecs[list[pick(*codec, list.len())]];
            emit_id(&mut bytes, cd.sec, &cd.id);
            for (i, l) in cd.leaves.iter().enumerate() {
                let t = &toks[i % toks.len()];
                let (num, raw): (i32, Vec<u8>) = match t {
                    Tok::Int(v) => (*v, format!("{}", v).into_bytes()),
                    Tok::Str(s) | Tok::Bytes(s) => (s.len() as i32 - 1, s.iter().copied().filter(|b| *b != 0).collect()),
                };
                match &l.kind {
                    LeafKind::Int { .. } => put_int(&mut bytes, num),
                    LeafKind::Str { .. } | LeafKind::IntStr => {
                        bytes.extend_from_slice(&raw);
                        bytes.push(0);
                    }
                    LeafKind::Data => {
                        put_int(&mut bytes, raw.len() as i32);
                        bytes.extend_from_slice(&raw);
                    }
                    LeafKind::Rest | LeafKind::Addrs => bytes.extend_from_slice(&raw),
                    LeafKind::Raw(n) => bytes.extend((0..*n).map(|j| raw.get(j).copied().unwrap_or(num as u8))),
                    LeafKind::BeU16 => bytes.extend_from_slice(&(num as u16).to_be_bytes()),
                    LeafKind::U8 => bytes.push(num as u8),
                }
            }
            if let Some(c) = cut {
                let n = pick(*c, bytes.len() + 1);
                bytes.truncate(n);
            }
        }
    }
    let m = check_msg_bytes(w, proto, entry, &bytes)?;
    let o = Outcome::nt(m.codec.is_some() && m.verdict != Verdict::DontCare && bytes.len() > 2);
    Ok(verdict_class(proto_class(o, proto, entry), m.verdict)
        .class_if(m.codec.is_some(), "resolved_a_codec")
        .class_if(matches!(c.body, Body::Raw(_)), "body_raw")
        .class_if(matches!(c.body, Body::Tokens { .. }), "body_tokens")
        .class_if(matches!(c.body, Body::Guided { .. }), "body_guided"))
}

#[derive(Clone, Debug, Hash, Serialize, Deserialize)]
pub enum ObjType {
    Described(u16),
    Ordinal(u16),
    Uuid([u8; 16]),
}

#[derive(Clone, Debug, Hash, Serialize, Deserialize)]
pub struct WordsCase {
    pub proto: u8,
    pub ty: ObjType,
    pub words: Vec<i32>,
    /// repeat / cut the words to the described size of the type plus this many (when the type is described)
    pub fit: Option<i8>,
}

fn words_case_strategy() -> impl Strategy<Value = WordsCase> {
    let ty = prop_oneof![
        8 => any::<u16>().prop_map(ObjType::Described),
        1 => any::<u16>().prop_map(ObjType::Ordinal),
        1 => (0u16..80).prop_map(ObjType::Ordinal),
        1 => any::<[u8; 16]>().prop_map(ObjType::Uuid),
    ];
    let word = prop_oneof![5 => -3i32..12, 2 => -300i32..300, 1 => any::<i32>(), 1 => rnd_int()];
    let fit = prop_oneof![3 => Just(None), 5 => Just(Some(0i8)), 2 => (-2i8..3).prop_map(Some)];
    (0u8..4, ty, proptest::collection::vec(word, 0..70), fit).prop_map(|(proto, ty, words, fit)| WordsCase { proto, ty, words, fit })
}

fn check_words_case(w: &World, c: &WordsCase) -> PResult {
    let proto = c.proto as usize % 4;
    let list = w.sec_list(proto, Sec::Obj);
    let id = match &c.ty {
        ObjType::Described(i) => w.codecs[list[pick(*i, list.len())]].id.clone(),
        ObjType::Ordinal(i) => Id::Ord(*i as i32),
        ObjType::Uuid(u) => Id::Uuid(*u),
    };
    let mut words = c.words.clone();
    if let (Some(d), Some(&ci), false) = (c.fit, w.index.get(&(proto, Sec::Obj, id.clone())), words.is_empty()) {
        let n = (w.codecs[ci].leaves.len() as i64 + d as i64).max(0) as usize;
        words = (0..n).map(|i| c.words[i % c.words.len()]).collect();
    }
    let m = check_obj_words(w, proto, &id, &words)?;
    if m.codec.is_none() {
        // an undescribed type: nothing is known about its size either
        if let Id::Ord(i) = id {
            let s = guard(|| (DRIVERS[proto].obj_size)(i as u16)).map_err(|p| format!("obj_size({}): {}", i, p))?;
            ensure!(s.is_none(), "{}: obj_size({}) = {:?} for a type that is not in the description", PROTO_NAMES[proto], i, s);
        }
    }
    let o = Outcome::nt(m.codec.is_some() && words.len() >= 2);
    Ok(verdict_class(proto_class(o, proto, Sec::Obj), m.verdict).class_if(m.codec.is_none(), "undescribed_type"))
}

// ---------------------------------------------------------------------------

fn load_world(ctx: &Ctx) -> World {
    let repo = std::env::var("VERIF_REPO").unwrap_or_else(|_| "/repo".to_string());
    let mut codecs: Vec<Codec> = Vec::new();
    for (pi, file) in PROTO_FILES.iter().enumerate() {
        let path = format!("{}/gamenet/generate/spec/{}", repo, file);
        let parsed = std::fs::read_to_string(&path)
            .map_err(|e| format!("cannot read {}: {}", path, e))
            .and_then(|t| serde_json::from_str::<Value>(&t).map_err(|e| format!("cannot parse {}: {}", path, e)))
            .and_then(|v| parse_spec(pi, &v).map_err(|e| format!("{}: {}", path, e)));
        match parsed {
            Ok(c) => codecs.extend(c),
            Err(e) => {
                println!("INCONCLUSIVE: C14 cannot interpret a protocol description: {}", e);
                std::process::exit(2);
            }
        }
    }
    for c in codecs.iter_mut() {
        c.bounds = c.leaves.iter().map(boundaries).collect();
    }
    let mut index = BTreeMap::new();
    let mut by_sec: Vec<Vec<usize>> = vec![Vec::new(); 16];
    for (ci, c) in codecs.iter().enumerate() {
        if index.insert((c.proto, c.sec, c.id.clone()), ci).is_some() {
            println!("INCONCLUSIVE: C14 duplicate id in the description: {}", c.label());
            std::process::exit(2);
        }
        by_sec[c.proto * 4 + c.sec as usize].push(ci);
    }
    let skip_encode = codecs
        .iter()
        .map(|c| c.sec == Sec::Obj && c.has_bool() && ctx.known_open(&bool_key(c)))
        .collect();
    World { codecs, index, by_sec, skip_encode }
}

fn bool_key(c: &Codec) -> String {
    format!("bool-encode.{}.{}", PROTO_NAMES[c.proto], c.name)
}

/// Probe for the boolean-member layout defect of one snapshot object.
fn probe_bool_object(w: &World, ci: usize) -> Result<(), String> {
    let c = &w.codecs[ci];
    let mut vals = default_vals(c, 0);
    for (l, v) in c.leaves.iter().zip(vals.iter_mut()) {
        if l.is_bool() {
            *v = Val::I(1);
        }
    }
    let words = words_obj(&vals);
    for round in 0..4 {
        let out = (DRIVERS[c.proto].obj)(type_id_of(&c.id), &words, true)?;
        ensure!(out.ok, "{}: valid words rejected: {}", c.label(), out.err);
        match out.words {
            Some(Ok(w2)) => ensure!(
                w2 == words,
                "{}: decode_obj({:?}).encode() = {:?} ({} words instead of {}, round {})",
                c.label(),
                words,
                w2,
                w2.len(),
                words.len(),
                round
            ),
            Some(Err(e)) => return Err(format!("{}: {}", c.label(), e)),
            None => return Err("harness bug".into()),
        }
    }
    Ok(())
}

pub fn run(ctx: &Ctx) {
    ctx.set_rule(
        "codecs and member types come from the four JSON descriptions; boundary sweeps enumerate every (codec, member, boundary value) \
         with the other members at a default (non-trivial = the member is constrained or the case is an optional-presence pattern); \
         vector sections draw a codec, per-member boundary-or-random values and one mutation (truncate, excess, one violated \
         constraint, byte flip/insert/delete, wrong entry point) with proptest (non-trivial = the description decides the input and \
         a constrained member sits on a boundary or a mutation was applied; distinct by case hash); byte sections feed raw, \
         id-prefixed and token-structured strings (non-trivial = resolves a described codec and the description decides the input)",
    );
    ctx.assume("the reference model of the member kinds is written from gamenet/generate/datatypes.py and doc/int.md");
    ctx.assume("flags members are plain int32 on the wire (the generator does not constrain them); only declared bits are generated");
    ctx.assume("a message that ends before an optional member is canonical; re-encoding it is not demanded (the generated encoder asserts presence)");
    ctx.assume("inputs the descriptions do not decide (non-zero int padding, \"+5\"/\"007\" int strings, optional member absent with bytes left) only must not panic");
    let world = load_world(ctx);
    let w = &world;

    // inventory
    let mut per = BTreeMap::new();
    for c in &w.codecs {
        *per.entry(format!("{}/{}", PROTO_NAMES[c.proto], SEC_NAMES[c.sec as usize])).or_insert(0u64) += 1;
    }
    let leaves: usize = w.codecs.iter().map(|c| c.leaves.len()).sum();
    ctx.extra("codecs_described", json!(w.codecs.len()));
    ctx.extra("codecs_per_section", json!(per));
    ctx.extra("member_leaves", json!(leaves));
    let excluded = w.skip_encode.iter().filter(|b| **b).count();
    if excluded > 0 {
        // counted in codecs: for these objects everything but the encode() word comparison is still checked
        ctx.add_excluded_known(excluded as u64);
        ctx.note(format!(
            "encode() word comparison skipped for {} snapshot objects with listed bool-encode findings (cases counted in class encode_comparison_excluded_known)",
            excluded
        ));
    }

    // known / fixed defect probes: one per snapshot object with boolean members
    for (ci, c) in w.codecs.iter().enumerate() {
        if c.sec == Sec::Obj && c.has_bool() {
            ctx.probe(&bool_key(c), || probe_bool_object(w, ci));
        }
    }

    // complete boundary sweeps
    let mt = sweep_table(w, false);
    let ot = sweep_table(w, true);
    let covered: std::collections::BTreeSet<u32> = mt.iter().chain(ot.iter()).map(|it| it.codec).collect();
    ctx.extra("codecs_in_boundary_sweeps", json!(covered.len()));
    ctx.extra("msg_codec_member_boundary_triples", json!(mt.len()));
    ctx.extra("obj_codec_member_boundary_triples", json!(ot.len()));
    let render = |t: &Vec<SweepItem>, i: u64| {
        let it = t[i as usize];
        let (vals, valid, _, desc) = sweep_case(w, it);
        let c = &w.codecs[it.codec as usize];
        if c.sec == Sec::Obj {
            json!({"case": desc, "valid": valid, "words": words_obj(&vals)})
        } else {
            json!({"case": desc, "valid": valid, "wire": hex(&wire_msg(c, &vals))})
        }
    };
    ctx.exhaustive("msg_boundary_sweep", mt.len() as u64, |i| check_sweep(w, mt[i as usize]), |i| render(&mt, i));
    ctx.exhaustive("obj_boundary_sweep", ot.len() as u64, |i| check_sweep(w, ot[i as usize]), |i| render(&ot, i));

    // every ordinal id: undescribed ones are refused, described ones follow the model
    const MSG_IDS: u64 = 2 * 2048;
    const PER_PROTO: u64 = MSG_IDS + 65536;
    let id_case = |i: u64| -> (usize, Option<(Sec, Vec<u8>)>, Option<u16>) {
        let proto = (i / PER_PROTO) as usize;
        let r = i % PER_PROTO;
        if r < MSG_IDS {
            let sys = r & 1 != 0;
            let ord = (r >> 1) as i32 - 1024;
            let mut b = int_bytes(ord.wrapping_shl(1) | sys as i32);
            b.extend_from_slice(&[0u8; 48]);
            (proto, Some((if sys { Sec::System } else { Sec::Game }, b)), None)
        } else {
            (proto, None, Some((r - MSG_IDS) as u16))
        }
    };
    ctx.exhaustive(
        "id_sweep",
        4 * PER_PROTO,
        |i| match id_case(i) {
            (proto, Some((sec, b)), _) => check_msg_bytes(w, proto, sec, &b).map(|m| m.codec.is_some()),
            (proto, _, Some(t)) => {
                let id = Id::Ord(t as i32);
                let m = check_obj_words(w, proto, &id, &[0i32; 70])?;
                let size = guard(|| (DRIVERS[proto].obj_size)(t)).map_err(|p| format!("obj_size({}): {}", t, p))?;
                let described = m.codec.map(|ci| w.codecs[ci].leaves.len() as u32);
                ensure_eq!(size, described, "{}: obj_size({}) against the described word count", PROTO_NAMES[proto], t);
                Ok(m.codec.is_some())
            }
            _ => Ok(false),
        },
        |i| match id_case(i) {
            (proto, Some((sec, b)), _) => json!({"proto": PROTO_NAMES[proto], "entry": SEC_NAMES[sec as usize], "bytes": hex(&b)}),
            (proto, _, t) => json!({"proto": PROTO_NAMES[proto], "object_type": t}),
        },
    );

    // generated vectors with mutations
    ctx.prop("msg_vectors", ctx.n(400_000, 8_000_000), vec_case_strategy, |c: &VecCase| check_msg_vector(w, c));
    ctx.prop("obj_vectors", ctx.n(250_000, 5_000_000), vec_case_strategy, |c: &VecCase| check_obj_vector(w, c));

    // arbitrary bytes / words
    ctx.prop("msg_bytes", ctx.n(400_000, 8_000_000), bytes_case_strategy, |c: &BytesCase| check_bytes_case(w, c));
    ctx.prop("obj_words", ctx.n(250_000, 5_000_000), words_case_strategy, |c: &WordsCase| check_words_case(w, c));
}

fn fuzz_world() -> &'static World {
    static W: std::sync::OnceLock<World> = std::sync::OnceLock::new();
    W.get_or_init(|| {
        let ctx = Ctx::new("C14", crate::Tier::Quick, 0, crate::Mode::Run);
        load_world(&ctx)
    })
}

/// Entry point for fuzz targets / raw replays: byte 0 selects protocol and entry point
/// (system/game/connless messages, or snapshot object words), the rest is the input.
pub fn fuzz_bytes(data: &[u8]) -> Result<(), String> {
    if data.is_empty() {
        return Ok(());
    }
    let w = fuzz_world();
    let proto = (data[0] & 3) as usize;
    let sel = (data[0] >> 2) & 3;
    let rest = &data[1..];
    if sel < 3 {
        let entry = [Sec::System, Sec::Game, Sec::Connless][sel as usize];
        check_msg_bytes(w, proto, entry, rest).map(|_| ())
    } else {
        if rest.len() < 2 {
            return Ok(());
        }
        let ty = u16::from_le_bytes([rest[0], rest[1]]);
        let words: Vec<i32> = rest[2..].chunks_exact(4).map(|c| i32::from_le_bytes([c[0], c[1], c[2], c[3]])).collect();
        check_obj_words(w, proto, &Id::Ord(ty as i32), &words).map(|_| ())
    }
}
