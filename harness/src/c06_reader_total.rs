//! C06 - the packet reader is total and stays inside its buffers.
//!
//! Generator: every byte string of length 0..=3 x token hint x protocol; structured hostile input
//! (valid packets of every kind with field corruptions, truncation, extension, toggled compression
//! flag); crafted Huffman bodies (expand beyond a packet, truncated, no EOF); random bytes 0..3000.
//! Oracle: no panic; iterator steps bounded; every returned slice lies inside the input or inside the
//! caller's scratch window (canaries intact); whatever is accepted can be written again and reads
//! back as the same value.

use crate::c05_packet_rt::{pcase_strategy, seen6, seen7, write_case, Ctrl, PCase, Seen};
use crate::util::{hex, slice_range, within, Canary, Warnings};
use crate::{burn, ensure, pick, set_fuel, unlimited_fuel, Ctx, Outcome, PResult};
use libtw2_huffman::instances::TEEWORLDS as HUFFMAN;
use libtw2_net::protocol as p6;
use libtw2_net::protocol7 as p7;
use proptest::prelude::*;
use serde::{Deserialize, Serialize};
use serde_json::json;

#[derive(Default, Clone, Debug)]
pub struct ReadStats {
    pub accepted: bool,
    pub error: Option<String>,
    pub decompressed: bool,
    pub chunks: usize,
    pub kind: &'static str,
}

thread_local! {
    static POOL: std::cell::RefCell<Vec<Canary>> = std::cell::RefCell::new(Vec::new());
}

/// A canary window of `len` bytes from a per-thread pool (allocation per call would dominate the
/// exhaustive sweeps). The guard bytes are verified by the caller after every library call.
fn take_canary(len: usize) -> Canary {
    POOL.with(|p| {
        let mut p = p.borrow_mut();
        if let Some(i) = p.iter().position(|c| c.len == len) {
            p.swap_remove(i)
        } else {
            Canary::new(len)
        }
    })
}

fn give_canary(c: Canary) {
    if c.intact() {
        POOL.with(|p| {
            let mut p = p.borrow_mut();
            if p.len() < 8 {
                p.push(c);
            }
        });
    }
}

fn in_bounds(s: &[u8], input: (usize, usize), scratch: (usize, usize)) -> bool {
    within(s, input) || within(s, scratch)
}

/// The totality / provenance / accept=>rewrite oracle for 0.6. `hint`: 0 = None, 1 = Some(false), 2 = Some(true).
pub fn check_read6(data: &[u8], hint: u8, scratch_len: usize) -> Result<ReadStats, String> {
    let hint_v = match hint % 3 {
        0 => None,
        1 => Some(false),
        _ => Some(true),
    };
    let mut st = ReadStats::default();
    let mut can = take_canary(scratch_len);
    let scratch_range = can.range();
    let input_range = slice_range(data);
    let mut w = Warnings::new();
    let compressed_flag = data.len() >= 3 && data[0] & 0x80 != 0 && data[0] & 0x20 == 0 && data.len() <= 1400;
    st.decompressed = compressed_flag;
    // auxiliary entry points
    let _ = p6::Packet::is_initial(data);
    {
        let mut aux = take_canary(scratch_len);
        let r = p6::Packet::decompress_if_needed(data, aux.window());
        ensure!(aux.intact(), "0.6 decompress_if_needed wrote outside the scratch buffer");
        let r = r.map_err(|_| ());
        give_canary(aux);
        if let Ok(true) = r {
            ensure!(compressed_flag, "0.6 decompress_if_needed reports a decompression for a packet without the compression flag");
        }
    }
    if !compressed_flag {
        // documented precondition: only for packets that are not compressed
        let mut w2 = Warnings::new();
        let r = p6::Packet::read_panic_on_decompression(&mut w2, data, hint_v);
        if let Ok(p) = &r {
            check_slices6(p, input_range, (0, 0))?;
        }
    }
    let res = p6::Packet::read(&mut w, data, hint_v, can.window());
    let seen = match &res {
        Ok(p) => {
            check_slices6(p, input_range, scratch_range)?;
            Some(seen6(p))
        }
        Err(e) => {
            st.error = Some(format!("{:?}", e));
            None
        }
    };
    // chunk iterator on whatever was accepted
    if let Ok(p6::Packet::Connected(p6::ConnectedPacket { type_: p6::ConnectedPacketType::Chunks(_, n, payload), .. })) = &res {
        let mut it = p6::ChunksIter::new(payload, *n);
        let hint_len = it.len();
        let mut cw = Warnings::new();
        let mut steps = 0;
        set_fuel(payload.len() as i64 + 8);
        while let Some(c) = it.next_warn(&mut cw) {
            burn();
            steps += 1;
            ensure!(in_bounds(c.data, slice_range(payload), (0, 0)), "0.6 chunk data lies outside the payload slice");
            ensure!(c.data.len() < 1024, "0.6 chunk of {} bytes", c.data.len());
            if let Some((seq, _)) = c.vital {
                ensure!(seq < 1024, "0.6 chunk sequence {} out of range", seq);
            }
        }
        unlimited_fuel();
        ensure!(it.next_warn(&mut cw).is_none(), "0.6 chunk iterator yields again after returning None");
        ensure!(hint_len == steps, "0.6 ChunksIter::len() = {} but it yields {} chunks", hint_len, steps);
        ensure!(it.pos() <= payload.len(), "0.6 ChunksIter::pos() beyond the payload");
        st.chunks = steps;
    }
    drop(res);
    ensure!(can.intact(), "0.6 Packet::read wrote outside the {}-byte scratch buffer it was given", scratch_len);
    give_canary(can);
    if let Some(seen) = seen {
        st.accepted = true;
        st.kind = kind_of(&seen);
        rewrite6(&seen).map_err(|e| format!("accepted by the 0.6 reader (hint {:?}) but {}; input [{}]", hint_v, e, hex(&data[..data.len().min(64)])))?;
    }
    Ok(st)
}

fn kind_of(s: &Seen) -> &'static str {
    match s {
        Seen::Connless(..) => "connless",
        Seen::Control { ctrl: Ctrl::Close(_), .. } => "close",
        Seen::Control { .. } => "control",
        Seen::Chunks { .. } => "chunks",
    }
}

fn check_slices6(p: &p6::Packet, input: (usize, usize), scratch: (usize, usize)) -> Result<(), String> {
    match p {
        p6::Packet::Connless(d) => ensure!(in_bounds(d, input, scratch), "0.6 connless payload slice lies outside input and scratch buffer"),
        p6::Packet::Connected(c) => match c.type_ {
            p6::ConnectedPacketType::Chunks(_, _, d) => ensure!(in_bounds(d, input, scratch), "0.6 chunk payload slice lies outside input and scratch buffer"),
            p6::ConnectedPacketType::Control(p6::ControlPacket::Close(r)) => {
                ensure!(in_bounds(r, input, scratch), "0.6 close reason slice lies outside input and scratch buffer");
                ensure!(r.len() <= 127 && !r.contains(&0), "0.6 close reason of {} bytes / with NUL accepted", r.len());
            }
            _ => {}
        },
    }
    Ok(())
}

fn check_slices7(p: &p7::Packet, input: (usize, usize), scratch: (usize, usize)) -> Result<(), String> {
    match p {
        p7::Packet::Connless(c) => ensure!(in_bounds(c.payload, input, scratch), "0.7 connless payload slice lies outside input and scratch buffer"),
        p7::Packet::Connected(c) => match c.type_ {
            p7::ConnectedPacketType::Chunks(_, _, d) => ensure!(in_bounds(d, input, scratch), "0.7 chunk payload slice lies outside input and scratch buffer"),
            p7::ConnectedPacketType::Control(p7::ControlPacket::Close(r)) => {
                ensure!(in_bounds(r, input, scratch), "0.7 close reason slice lies outside input and scratch buffer");
                ensure!(r.len() <= 127 && !r.contains(&0), "0.7 close reason of {} bytes / with NUL accepted", r.len());
            }
            _ => {}
        },
    }
    Ok(())
}

/// accept => rewrite: write the accepted value, read it back with the true token mode, compare.
fn rewrite6(seen: &Seen) -> Result<(), String> {
    let mut out = [0u8; 2048];
    let written: Vec<u8> = {
        use p6::*;
        let r = crate::guard(|| match seen {
            Seen::Connless(d, _) => Packet::Connless(d).write(&mut out[..]).map(|b| b.to_vec()),
            Seen::Control { ack, token, ctrl, .. } => {
                let cp = match ctrl {
                    Ctrl::KeepAlive => ControlPacket::KeepAlive,
                    Ctrl::Connect => ControlPacket::Connect,
                    Ctrl::ConnectAcceptOrToken => ControlPacket::ConnectAccept,
                    Ctrl::Accept => ControlPacket::Accept,
                    Ctrl::Close(r) => ControlPacket::Close(r),
                };
                Packet::Connected(ConnectedPacket { ack: *ack, token: token.map(Token), type_: ConnectedPacketType::Control(cp) }).write(&mut out[..]).map(|b| b.to_vec())
            }
            Seen::Chunks { ack, token, request_resend, num_chunks, payload } => {
                Packet::Connected(ConnectedPacket { ack: *ack, token: token.map(Token), type_: ConnectedPacketType::Chunks(*request_resend, *num_chunks, payload) }).write(&mut out[..]).map(|b| b.to_vec())
            }
        });
        match r {
            Ok(Ok(b)) => b,
            Ok(Err(e)) => return Err(format!("writing the accepted value {:?} fails: {:?}", short(seen), e)),
            Err(p) => return Err(format!("writing the accepted value {:?} panics: {}", short(seen), p)),
        }
    };
    let has_token = match seen {
        Seen::Connless(..) => false,
        Seen::Control { token, .. } | Seen::Chunks { token, .. } => token.is_some(),
    };
    let mut scratch = [0u8; 2048];
    let mut w = Warnings::new();
    match p6::Packet::read(&mut w, &written, Some(has_token), &mut scratch[..]) {
        Ok(p) => {
            let again = seen6(&p);
            if &again != seen {
                return Err(format!("written out and read back it is a different value: {:?} vs {:?}", short(seen), short(&again)));
            }
            Ok(())
        }
        Err(e) => Err(format!("written out it is rejected on read-back: {:?} for {:?}", e, short(seen))),
    }
}

fn rewrite7(seen: &Seen) -> Result<(), String> {
    let mut out = [0u8; 2048];
    let written: Vec<u8> = {
        use p7::*;
        let r = crate::guard(|| match seen {
            Seen::Connless(d, t) => {
                let (t, rt) = t.unwrap();
                Packet::Connless(ConnlessPacket { payload: d, token: Token(t), response_token: Token(rt) }).write(&mut out[..]).map(|b| b.to_vec())
            }
            Seen::Control { ack, token, ctrl, response_token } => {
                let rt = Token(response_token.unwrap_or([1, 1, 1, 1]));
                let cp = match ctrl {
                    Ctrl::KeepAlive => ControlPacket::KeepAlive,
                    Ctrl::Connect => ControlPacket::Connect(rt),
                    Ctrl::ConnectAcceptOrToken => ControlPacket::Token(rt),
                    Ctrl::Accept => ControlPacket::Accept,
                    Ctrl::Close(r) => ControlPacket::Close(r),
                };
                Packet::Connected(ConnectedPacket { ack: *ack, token: Token(token.unwrap()), type_: ConnectedPacketType::Control(cp) }).write(&mut out[..]).map(|b| b.to_vec())
            }
            Seen::Chunks { ack, token, request_resend, num_chunks, payload } => {
                Packet::Connected(ConnectedPacket { ack: *ack, token: Token(token.unwrap()), type_: ConnectedPacketType::Chunks(*request_resend, *num_chunks, payload) }).write(&mut out[..]).map(|b| b.to_vec())
            }
        });
        match r {
            Ok(Ok(b)) => b,
            Ok(Err(e)) => return Err(format!("writing the accepted value {:?} fails: {:?}", short(seen), e)),
            Err(p) => return Err(format!("writing the accepted value {:?} panics: {}", short(seen), p)),
        }
    };
    let mut scratch = [0u8; 2048];
    let mut w = Warnings::new();
    match p7::Packet::read(&mut w, &written, &mut scratch[..]) {
        Ok(p) => {
            let again = seen7(&p);
            if &again != seen {
                return Err(format!("written out and read back it is a different value: {:?} vs {:?}", short(seen), short(&again)));
            }
            Ok(())
        }
        Err(e) => Err(format!("written out it is rejected on read-back: {:?} for {:?}", e, short(seen))),
    }
}

fn short(s: &Seen) -> String {
    let t = format!("{:?}", s);
    if t.len() > 300 {
        format!("{}...", &t[..300])
    } else {
        t
    }
}

pub fn check_read7(data: &[u8], scratch_len: usize) -> Result<ReadStats, String> {
    let mut st = ReadStats::default();
    let mut can = take_canary(scratch_len);
    let scratch_range = can.range();
    let input_range = slice_range(data);
    let mut w = Warnings::new();
    let compressed_flag = data.len() >= 7 && data[0] & 0b0001_0000 != 0 && data[0] & 0b0010_0000 == 0 && data.len() <= 1400;
    st.decompressed = compressed_flag;
    {
        let mut aux = take_canary(scratch_len);
        let r = p7::Packet::decompress_if_needed(data, aux.window());
        ensure!(aux.intact(), "0.7 decompress_if_needed wrote outside the scratch buffer");
        let r = r.map_err(|_| ());
        give_canary(aux);
        if let Ok(true) = r {
            ensure!(compressed_flag, "0.7 decompress_if_needed reports a decompression for a packet without the compression flag");
        }
    }
    if !compressed_flag {
        let mut w2 = Warnings::new();
        if let Ok(p) = &p7::Packet::read_panic_on_decompression(&mut w2, data) {
            check_slices7(p, input_range, (0, 0))?;
        }
    }
    let res = p7::Packet::read(&mut w, data, can.window());
    let seen = match &res {
        Ok(p) => {
            check_slices7(p, input_range, scratch_range)?;
            Some(seen7(p))
        }
        Err(e) => {
            st.error = Some(format!("{:?}", e));
            None
        }
    };
    if let Ok(p7::Packet::Connected(p7::ConnectedPacket { type_: p7::ConnectedPacketType::Chunks(_, n, payload), .. })) = &res {
        let mut it = p7::ChunksIter::new(payload, *n);
        let hint_len = it.len();
        let mut cw = Warnings::new();
        let mut steps = 0;
        set_fuel(payload.len() as i64 + 8);
        while let Some(c) = it.next_warn(&mut cw) {
            burn();
            steps += 1;
            ensure!(in_bounds(c.data, slice_range(payload), (0, 0)), "0.7 chunk data lies outside the payload slice");
            if let Some((seq, _)) = c.vital {
                ensure!(seq < 1024, "0.7 chunk sequence {} out of range", seq);
            }
        }
        unlimited_fuel();
        ensure!(it.next_warn(&mut cw).is_none(), "0.7 chunk iterator yields again after returning None");
        ensure!(hint_len == steps, "0.7 ChunksIter::len() = {} but it yields {} chunks", hint_len, steps);
        st.chunks = steps;
    }
    drop(res);
    ensure!(can.intact(), "0.7 Packet::read wrote outside the {}-byte scratch buffer it was given", scratch_len);
    give_canary(can);
    if let Some(seen) = seen {
        st.accepted = true;
        st.kind = kind_of(&seen);
        rewrite7(&seen).map_err(|e| format!("accepted by the 0.7 reader but {}; input [{}]", e, hex(&data[..data.len().min(64)])))?;
    }
    Ok(st)
}

/// The two wire representations of one packet (payload Huffman-compressed or not) must read as the
/// same value under the same token hint: decompression happens before anything else is interpreted.
/// (0.7 control packets are left out: the token-request length rule looks at the datagram length.)
/// The other wire representation of a connection-oriented datagram: payload Huffman-compressed if it was
/// not, decompressed if it was. None: connectionless, too short/long, a 0.7 control packet, or the result
/// would not fit a datagram.
pub fn recode(data: &[u8], is7: bool) -> Option<Vec<u8>> {
    let hdr = if is7 { 7 } else { 3 };
    let (cflag, connless, control) = if is7 { (0x10u8, 0x20u8, 0x04u8) } else { (0x80u8, 0x20u8, 0x10u8) };
    if data.len() < hdr || data.len() > 1400 || data[0] & connless != 0 || (is7 && data[0] & control != 0) {
        return None;
    }
    let mut alt = data[..hdr].to_vec();
    alt[0] ^= cflag;
    if data[0] & cflag != 0 {
        let mut out: Vec<u8> = Vec::with_capacity(2048);
        if HUFFMAN.decompress(&data[hdr..], &mut out).is_err() || out.len() > 1400 - hdr {
            return None;
        }
        alt.extend_from_slice(&out);
    } else {
        let mut out: Vec<u8> = Vec::with_capacity((data.len() - hdr) * 3 + 16);
        if HUFFMAN.compress(&data[hdr..], &mut out).is_err() || out.len() + hdr > 1400 {
            return None;
        }
        alt.extend_from_slice(&out);
    }
    Some(alt)
}

pub fn compression_invariance(data: &[u8], hint: u8, is7: bool) -> Result<bool, String> {
    let Some(alt) = recode(data, is7) else {
        return Ok(false);
    };
    let mut s1 = [0u8; 2048];
    let mut s2 = [0u8; 2048];
    let (a, b) = if is7 {
        let mut w = Warnings::new();
        let a = p7::Packet::read(&mut w, data, &mut s1[..]).ok().map(|p| seen7(&p));
        let b = p7::Packet::read(&mut w, &alt, &mut s2[..]).ok().map(|p| seen7(&p));
        (a, b)
    } else {
        let h = match hint % 3 {
            0 => None,
            1 => Some(false),
            _ => Some(true),
        };
        let mut w = Warnings::new();
        let a = p6::Packet::read(&mut w, data, h, &mut s1[..]).ok().map(|p| seen6(&p));
        let b = p6::Packet::read(&mut w, &alt, h, &mut s2[..]).ok().map(|p| seen6(&p));
        (a, b)
    };
    if a != b {
        return Err(format!(
            "the same packet reads differently depending on whether its payload is Huffman-compressed (token hint {}): [{}..] -> {} but [{}..] -> {}",
            if is7 { "n/a".to_string() } else { format!("{:?}", hint % 3) },
            hex(&data[..data.len().min(24)]),
            a.as_ref().map(short).unwrap_or_else(|| "error".into()),
            hex(&alt[..alt.len().min(24)]),
            b.as_ref().map(short).unwrap_or_else(|| "error".into())
        ));
    }
    Ok(a.is_some())
}

/// Entry point for fuzz targets and replays: all hints, both scratch sizes.
pub fn check_bytes(data: &[u8], is7: bool) -> Result<ReadStats, String> {
    let mut last = ReadStats::default();
    for scratch in [1400usize, 2048] {
        if is7 {
            last = check_read7(data, scratch)?;
            compression_invariance(data, 0, true)?;
        } else {
            for hint in 0..3 {
                last = check_read6(data, hint, scratch)?;
                compression_invariance(data, hint, false)?;
            }
        }
    }
    Ok(last)
}

// ---------------------------------------------------------------------------
// Structured hostile inputs

#[derive(Clone, Debug, Hash, Serialize, Deserialize)]
pub enum Corrupt {
    SetByte { pos: u16, val: u8 },
    XorByte { pos: u16, xor: u8 },
    Truncate(u16),
    Extend(Vec<u8>),
    /// header field corruptions by name
    Flags(u8),
    Ack(u16),
    NumChunks(u8),
    ToggleCompression,
    /// overwrite the two (three) bytes of the k-th chunk header
    ChunkHeader { k: u8, b0: u8, b1: u8, b2: u8 },
    TokenByte { idx: u8, val: u8 },
    ControlByte(u8),
}

#[derive(Clone, Debug, Hash, Serialize, Deserialize)]
pub struct Hostile {
    pub base: PCase,
    pub corrupt: Vec<Corrupt>,
    pub hint: u8,
}

fn corrupt_strategy() -> BoxedStrategy<Corrupt> {
    let b = prop_oneof![Just(0u8), Just(0xff), Just(0x80), Just(0x7f), Just(1), any::<u8>()];
    prop_oneof![
        3 => (any::<u16>(), b.clone()).prop_map(|(pos, val)| Corrupt::SetByte { pos, val }),
        2 => (any::<u16>(), 1u8..=255).prop_map(|(pos, xor)| Corrupt::XorByte { pos, xor }),
        3 => any::<u16>().prop_map(Corrupt::Truncate),
        2 => proptest::collection::vec(any::<u8>(), 1..=8).prop_map(Corrupt::Extend),
        2 => (0u8..16).prop_map(Corrupt::Flags),
        1 => (0u16..1024).prop_map(Corrupt::Ack),
        2 => prop_oneof![Just(0u8), Just(1), Just(255), any::<u8>()].prop_map(Corrupt::NumChunks),
        2 => Just(Corrupt::ToggleCompression),
        3 => (0u8..8, any::<u8>(), any::<u8>(), any::<u8>()).prop_map(|(k, b0, b1, b2)| Corrupt::ChunkHeader { k, b0, b1, b2 }),
        1 => (0u8..4, b).prop_map(|(idx, val)| Corrupt::TokenByte { idx, val }),
        1 => (0u8..8).prop_map(Corrupt::ControlByte),
    ]
    .boxed()
}

fn apply_corrupt(mut d: Vec<u8>, c: &Corrupt, is7: bool) -> Vec<u8> {
    let hdr = if is7 { 7 } else { 3 };
    match c {
        Corrupt::SetByte { pos, val } => {
            if !d.is_empty() {
                let p = pick(*pos, d.len());
                d[p] = *val;
            }
        }
        Corrupt::XorByte { pos, xor } => {
            if !d.is_empty() {
                let p = pick(*pos, d.len());
                d[p] ^= xor;
            }
        }
        Corrupt::Truncate(k) => {
            let n = pick(*k, d.len() + 1);
            d.truncate(n);
        }
        Corrupt::Extend(e) => d.extend_from_slice(e),
        Corrupt::Flags(f) => {
            if !d.is_empty() {
                d[0] = if is7 { (d[0] & 0b1100_0011) | (f << 2) } else { (d[0] & 0x0f) | (f << 4) };
            }
        }
        Corrupt::Ack(a) => {
            if d.len() >= 2 {
                d[0] = (d[0] & 0xfc) | (a >> 8) as u8;
                d[1] = *a as u8;
            }
        }
        Corrupt::NumChunks(n) => {
            if d.len() >= 3 {
                d[2] = *n;
            }
        }
        Corrupt::ToggleCompression => {
            if !d.is_empty() {
                d[0] ^= if is7 { 0b0001_0000 } else { 0x80 };
            }
        }
        Corrupt::ChunkHeader { k, b0, b1, b2 } => {
            // walk the (uncompressed) chunk list as far as it is well-formed
            let mut pos = hdr;
            let mut i = 0;
            while pos + 2 <= d.len() && i < *k {
                let vital = d[pos] & 0x40 != 0;
                let size = if is7 { (((d[pos] & 0x3f) as usize) << 6) | (d[pos + 1] & 0x3f) as usize } else { (((d[pos] & 0x3f) as usize) << 4) | (d[pos + 1] & 0xf) as usize };
                pos += if vital { 3 } else { 2 } + size;
                i += 1;
            }
            if pos + 3 <= d.len() {
                d[pos] = *b0;
                d[pos + 1] = *b1;
                d[pos + 2] = *b2;
            }
        }
        Corrupt::TokenByte { idx, val } => {
            let i = *idx as usize;
            if is7 {
                if d.len() > 3 + i {
                    d[3 + i] = *val;
                }
            } else if d.len() >= 4 {
                let n = d.len();
                d[n - 4 + i] = *val;
            }
        }
        Corrupt::ControlByte(v) => {
            if d.len() > hdr {
                d[hdr] = *v;
            }
        }
    }
    d
}

fn check_hostile(h: &Hostile, is7: bool) -> PResult {
    let (mut bytes, _, _) = write_case(&h.base, is7)?;
    for c in &h.corrupt {
        bytes = apply_corrupt(bytes, c, is7);
    }
    let st = if is7 { check_read7(&bytes, 1400)? } else { check_read6(&bytes, h.hint, 1400)? };
    let inv = compression_invariance(&bytes, h.hint, is7)?;
    Ok(outcome(&st, !h.corrupt.is_empty()).class_if(inv, "both_wire_forms_accepted"))
}

fn outcome(st: &ReadStats, hostile: bool) -> Outcome {
    let err = st.error.as_deref();
    let boring = matches!(err, Some("TooShort") | Some("TooLong"));
    let mut o = Outcome::nt(hostile && (st.accepted || (err.is_some() && !boring)));
    o = o.class_if(st.accepted, "accepted").class_if(st.decompressed, "decompression_path").class_if(st.chunks > 0, "chunks_iterated");
    if st.accepted {
        o = o.class(match st.kind {
            "connless" => "accepted_connless",
            "close" => "accepted_close",
            "control" => "accepted_control",
            _ => "accepted_chunks",
        });
    }
    if let Some(e) = err {
        o = o.class(match e {
            "Compression" => "err_Compression",
            "ControlMissing" => "err_ControlMissing",
            "ShortConnless" => "err_ShortConnless",
            "TokenMissing" => "err_TokenMissing",
            "TooLong" => "err_TooLong",
            "TooShort" => "err_TooShort",
            "UnknownControl" => "err_UnknownControl",
            "ControlResponseTokenMissing" => "err_ControlResponseTokenMissing",
            "ControlTokenRequestTooShort" => "err_ControlTokenRequestTooShort",
            "UnknownConnlessVersion" => "err_UnknownConnlessVersion",
            _ => "err_other",
        });
    }
    o
}

// crafted Huffman bodies

#[derive(Clone, Debug, Hash, Serialize, Deserialize)]
pub struct HuffCase {
    /// plaintext length to compress (may expand beyond a packet after decompression)
    pub plain_len: u16,
    pub family: u8,
    pub seed: u8,
    pub truncate: Option<u16>,
    pub flip: Option<(u16, u8)>,
    pub header: [u8; 3],
    pub token: [u8; 4],
    pub hint: u8,
}

fn huff_strategy() -> impl Strategy<Value = HuffCase> {
    (
        prop_oneof![2 => 1380u16..1420, 2 => 1398u16..4000, 1 => 0u16..64],
        0u8..5,
        any::<u8>(),
        proptest::option::weighted(0.4, any::<u16>()),
        proptest::option::weighted(0.3, (any::<u16>(), 1u8..=255)),
        any::<[u8; 3]>(),
        any::<[u8; 4]>(),
        0u8..3,
    )
        .prop_map(|(plain_len, family, seed, truncate, flip, header, token, hint)| HuffCase { plain_len, family, seed, truncate, flip, header, token, hint })
}

fn check_huff(h: &HuffCase, is7: bool) -> PResult {
    let plain = crate::c05_packet_rt::content(h.family, h.plain_len as usize, h.seed);
    let mut comp: Vec<u8> = Vec::with_capacity(plain.len() * 3 + 16);
    HUFFMAN.compress(&plain, &mut comp).map_err(|_| "harness: compression buffer too small".to_string())?;
    if let Some(t) = h.truncate {
        let n = pick(t, comp.len() + 1);
        comp.truncate(n);
    }
    if let Some((pos, x)) = h.flip {
        if !comp.is_empty() {
            let p = pick(pos, comp.len());
            comp[p] ^= x;
        }
    }
    let mut d = Vec::new();
    if is7 {
        // compression flag set, connless/control clear
        d.push((h.header[0] & 0b0000_1011) | 0b0001_0000);
        d.push(h.header[1]);
        d.push(h.header[2]);
        d.extend_from_slice(&h.token);
    } else {
        d.push((h.header[0] & 0b0100_0011) | 0x80);
        d.push(h.header[1]);
        d.push(h.header[2]);
    }
    d.extend_from_slice(&comp);
    d.truncate(1400);
    let st = if is7 { check_read7(&d, 1400)? } else { check_read6(&d, h.hint, 1400)? };
    let inv = compression_invariance(&d, h.hint, is7)?;
    Ok(outcome(&st, true).class_if(h.plain_len as usize > 1397, "expands_beyond_packet").class_if(inv, "both_wire_forms_accepted"))
}

fn short_string(idx: u64) -> Vec<u8> {
    if idx == 0 {
        vec![]
    } else if idx < 1 + 256 {
        vec![(idx - 1) as u8]
    } else if idx < 1 + 256 + 65536 {
        let i = idx - 257;
        vec![(i >> 8) as u8, i as u8]
    } else {
        let i = idx - 257 - 65536;
        vec![(i >> 16) as u8, (i >> 8) as u8, i as u8]
    }
}

const TAILS: [&[u8]; 4] = [&[], &[0x00], &[0xff, 0xff], &[0x04, 0x41, 0x00]];

pub fn run(ctx: &Ctx) {
    ctx.set_rule(
        "exhaustive: every byte string of length 0..=3 x token hint {None,false,true} for 0.6 and (followed by each of 4 token/tail patterns) for 0.7, \
         and every 3-byte string followed by each of 4 fixed tails; generated: valid packets of every kind with 0..3 corruptions (byte set/xor, \
         truncation at any position, extension, flags, ack, num_chunks, compression flag toggled, chunk header bytes, token bytes, control byte), \
         crafted Huffman bodies (plaintext 1380..4000 bytes, truncated, bit-flipped), random bytes 0..3000; non-trivial = a hostile input that the \
         reader accepted or rejected with an error other than TooShort/TooLong; distinct by case hash (exhaustive sections: by construction)",
    );
    ctx.assume("scratch buffers of 1400 and 2048 bytes (the reader asserts >= 1400); read_panic_on_decompression only on packets without the compression flag (its documented precondition)");
    let n_short = 1 + 256 + 65536 + (1u64 << 24);
    ctx.exhaustive(
        "short6",
        n_short * 3,
        |i| check_read6(&short_string(i / 3), (i % 3) as u8, 1400).map(|s| s.accepted || !matches!(s.error.as_deref(), Some("TooShort"))),
        |i| json!({"bytes": hex(&short_string(i / 3)), "hint": i % 3}),
    );
    let tails_stride: u64 = if ctx.quick() { 16 } else { 1 };
    ctx.sweep(
        "short6_tails",
        (1u64 << 24) * 4 * 3 / tails_stride,
        !ctx.quick(),
        |i| {
            let i = i * tails_stride + (i % tails_stride);
            let mut d = short_string(257 + 65536 + (i / 12));
            d.extend_from_slice(TAILS[((i / 3) % 4) as usize]);
            check_read6(&d, (i % 3) as u8, 1400).map(|s| s.accepted)
        },
        |i| json!({"head": hex(&short_string(257 + 65536 + (i / 12))), "tail": (i / 3) % 4, "hint": i % 3}),
    );
    // 0.7: the header is 7 bytes; sweep the three bit-field bytes with 4 token/tail patterns
    const T7: [&[u8]; 4] = [&[], &[0xff, 0xff, 0xff, 0xff], &[1, 2, 3, 4, 4, 0x41, 0], &[0xff, 0xff, 0xff, 0xff, 5, 9, 9, 9, 9]];
    ctx.exhaustive(
        "short7",
        n_short,
        |i| check_read7(&short_string(i), 1400).map(|s| s.accepted),
        |i| json!({"bytes": hex(&short_string(i))}),
    );
    ctx.sweep(
        "short7_tails",
        (1u64 << 24) * 4 / tails_stride,
        !ctx.quick(),
        |i| {
            let i = i * tails_stride + (i % tails_stride);
            let mut d = short_string(257 + 65536 + (i / 4));
            d.extend_from_slice(T7[(i % 4) as usize]);
            check_read7(&d, 1400).map(|s| s.accepted)
        },
        |i| json!({"head": hex(&short_string(257 + 65536 + (i / 4))), "tail": i % 4}),
    );
    for (is7, name) in [(false, "0.6"), (true, "0.7")] {
        ctx.prop(
            &format!("hostile/{}", name),
            ctx.n(400_000, 8_000_000),
            || (pcase_strategy(is7), proptest::collection::vec(corrupt_strategy(), 0..4), 0u8..3).prop_map(|(base, corrupt, hint)| Hostile { base, corrupt, hint }),
            |h: &Hostile| check_hostile(h, is7),
        );
        ctx.prop(&format!("huffman_bodies/{}", name), ctx.n(100_000, 2_000_000), huff_strategy, |h: &HuffCase| check_huff(h, is7));
        ctx.prop(
            &format!("random/{}", name),
            ctx.n(100_000, 2_000_000),
            || {
                (prop_oneof![3 => proptest::collection::vec(any::<u8>(), 0..40), 1 => proptest::collection::vec(any::<u8>(), 0..3000)], 0u8..3)
            },
            |(d, hint): &(Vec<u8>, u8)| {
                let st = if is7 { check_read7(d, 1400)? } else { check_read6(d, *hint, 1400)? };
                let inv = compression_invariance(d, *hint, is7)?;
                Ok(outcome(&st, true).class_if(inv, "both_wire_forms_accepted"))
            },
        );
    }
}
