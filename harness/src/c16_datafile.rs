//! C16 - datafile and map readers are total; accepted files are fully traversable.
//!
//! Generator: an independent datafile writer (from doc/datafile.md) and map writer (from
//! doc/map.md); hostile variants by exhaustive single-field corruption, truncation at every
//! position, structural multi-field mutations, corrupt compressed blocks and random bytes.
//! Oracle: totality (value or error, no panic, fuel on every iterator step) of everything the
//! readers expose; exact read-back of items and data for well-formed files.

use crate::{burn, ensure, ensure_eq, guard, pick, set_fuel, unlimited_fuel, Ctx, Outcome, PResult};
use libtw2_datafile as df;
use libtw2_map as map;
use proptest::prelude::*;
use serde::{Deserialize, Serialize};
use serde_json::json;
use std::collections::BTreeMap;
use std::fs::File;
use std::io::{Seek, SeekFrom, Write};
use std::os::unix::io::{AsRawFd, FromRawFd};
use std::sync::Mutex;

/// Largest uncompressed size / header-implied slack the harness lets the reader allocate.
const MAX_UNCOMP: i64 = 16 << 20;
/// Largest uncompressed size the generators write into a hostile file (kept below the
/// allocator's mmap threshold: the value only has to exceed the real size).
const MAX_GEN_UNCOMP: i64 = 96 << 10;

pub const K_UNALIGNED: &str = "unaligned-item-size";
pub const K_START_OVERFLOW: &str = "type-start-overflow";

// ---------------------------------------------------------------------------
// Model of a datafile (doc/datafile.md "Terminology")

#[derive(Clone, Debug, Hash, PartialEq, Eq, Serialize, Deserialize)]
pub struct MItem {
    pub type_id: u16,
    pub id: u16,
    pub data: Vec<i32>,
    /// hostile only: extra bytes appended to the item data and declared in its size
    pub pad: u8,
}

#[derive(Clone, Debug, Hash, PartialEq, Eq, Serialize, Deserialize)]
pub struct MData {
    pub bytes: Vec<u8>,
    /// v4 only: 0 = one stored deflate block, 1 = stored blocks of `split`+1 bytes,
    /// 2..=5 = libz compress2 with level 0/1/6/9
    pub comp: u8,
    pub split: u8,
}

#[derive(Clone, Debug, Hash, PartialEq, Eq, Serialize, Deserialize)]
pub struct Model {
    pub version: u8,
    pub crude: bool,
    pub reversed_magic: bool,
    pub items: Vec<MItem>,
    pub data: Vec<MData>,
}

impl Model {
    /// Make the item list well-formed: grouped by ascending type, (type,id) unique, no padding.
    pub fn normalized(&self) -> Model {
        let mut seen = std::collections::BTreeSet::new();
        let mut items: Vec<MItem> = Vec::new();
        for it in &self.items {
            if seen.insert((it.type_id, it.id)) {
                let mut it = it.clone();
                it.pad = 0;
                items.push(it);
            }
        }
        items.sort_by_key(|i| i.type_id); // stable: order within a type is kept
        Model {
            version: if self.version == 3 { 3 } else { 4 },
            crude: self.crude && self.version != 3,
            reversed_magic: self.reversed_magic,
            items,
            data: self.data.clone(),
        }
    }
    /// Group by type (hostile models keep pads and duplicate ids).
    pub fn grouped(&self) -> Model {
        let mut m = self.clone();
        m.version = if self.version == 3 { 3 } else { 4 };
        m.items.sort_by_key(|i| i.type_id);
        m
    }
}

// ---------------------------------------------------------------------------
// zlib streams, written independently of libz (stored blocks) and by libz itself

pub fn adler32(b: &[u8]) -> u32 {
    let (mut a, mut s) = (1u32, 0u32);
    for &x in b {
        a = (a + x as u32) % 65521;
        s = (s + a) % 65521;
    }
    (s << 16) | a
}

pub fn zlib_stored(b: &[u8], block: usize) -> Vec<u8> {
    let block = block.clamp(1, 65535);
    let mut out = vec![0x78, 0x01];
    let chunks: Vec<&[u8]> = if b.is_empty() { vec![&b[..]] } else { b.chunks(block).collect() };
    let n = chunks.len();
    for (i, c) in chunks.into_iter().enumerate() {
        out.push(if i + 1 == n { 1 } else { 0 });
        out.extend_from_slice(&(c.len() as u16).to_le_bytes());
        out.extend_from_slice(&(!(c.len() as u16)).to_le_bytes());
        out.extend_from_slice(c);
    }
    out.extend_from_slice(&adler32(b).to_be_bytes());
    out
}

extern "C" {
    fn compress2(
        dest: *mut u8,
        dest_len: *mut libc::c_ulong,
        source: *const u8,
        source_len: libc::c_ulong,
        level: libc::c_int,
    ) -> libc::c_int;
    fn compressBound(source_len: libc::c_ulong) -> libc::c_ulong;
}

pub fn zlib_libz(b: &[u8], level: i32) -> Vec<u8> {
    unsafe {
        let mut len = compressBound(b.len() as libc::c_ulong);
        let mut out = vec![0u8; len as usize];
        let r = compress2(out.as_mut_ptr(), &mut len, b.as_ptr(), b.len() as libc::c_ulong, level);
        assert!(r == 0, "harness: libz compress2 failed: {}", r);
        out.truncate(len as usize);
        out
    }
}

pub fn compress_block(d: &MData) -> Vec<u8> {
    match d.comp {
        0 => zlib_stored(&d.bytes, 65535),
        1 => zlib_stored(&d.bytes, d.split as usize + 1),
        2 => zlib_libz(&d.bytes, 0),
        3 => zlib_libz(&d.bytes, 1),
        4 => zlib_libz(&d.bytes, 6),
        _ => zlib_libz(&d.bytes, 9),
    }
}

// ---------------------------------------------------------------------------
// File image: the parts of doc/datafile.md "Format", individually addressable

pub const H_VERSION: usize = 0;
pub const H_SIZE: usize = 1;
pub const H_SWAPLEN: usize = 2;
pub const H_NTYPES: usize = 3;
pub const H_NITEMS: usize = 4;
pub const H_NDATA: usize = 5;
pub const H_SIZE_ITEMS: usize = 6;
pub const H_SIZE_DATA: usize = 7;

#[derive(Clone, Debug)]
pub struct Image {
    pub magic: [u8; 4],
    pub hdr: [i32; 8],
    pub types: Vec<[i32; 3]>,
    pub item_offsets: Vec<i32>,
    pub data_offsets: Vec<i32>,
    pub data_sizes: Option<Vec<i32>>,
    pub items: Vec<u8>,
    pub data: Vec<u8>,
    /// byte position of every item header inside `items`
    pub item_pos: Vec<usize>,
    pub trailer: Vec<u8>,
}

fn implied_total(hdr: &[i32; 8]) -> i64 {
    let nd = hdr[H_NDATA] as i64;
    36 + 12 * hdr[H_NTYPES] as i64
        + 4 * hdr[H_NITEMS] as i64
        + 4 * nd
        + if hdr[H_VERSION] >= 4 { 4 * nd } else { 0 }
        + hdr[H_SIZE_ITEMS] as i64
        + hdr[H_SIZE_DATA] as i64
}

impl Image {
    /// Lay the model out as a file. `blocks` are the stored forms of the data items.
    pub fn build(m: &Model, blocks: &[Vec<u8>]) -> Image {
        let mut types: Vec<[i32; 3]> = Vec::new();
        let mut item_offsets = Vec::new();
        let mut items: Vec<u8> = Vec::new();
        let mut item_pos = Vec::new();
        for (i, it) in m.items.iter().enumerate() {
            match types.last_mut() {
                Some(t) if t[0] == it.type_id as i32 => t[2] += 1,
                _ => types.push([it.type_id as i32, i as i32, 1]),
            }
            item_offsets.push(items.len() as i32);
            item_pos.push(items.len());
            let tid = ((it.type_id as u32) << 16) | it.id as u32;
            items.extend_from_slice(&tid.to_le_bytes());
            items.extend_from_slice(&((it.data.len() * 4 + it.pad as usize) as i32).to_le_bytes());
            for w in &it.data {
                items.extend_from_slice(&w.to_le_bytes());
            }
            for k in 0..it.pad {
                items.push(0xE0 | k);
            }
        }
        let mut data = Vec::new();
        let mut data_offsets = Vec::new();
        for b in blocks {
            data_offsets.push(data.len() as i32);
            data.extend_from_slice(b);
        }
        let data_sizes = if m.version >= 4 {
            Some(m.data.iter().map(|d| d.bytes.len() as i32).collect())
        } else {
            None
        };
        let mut img = Image {
            magic: if m.reversed_magic { *b"ATAD" } else { *b"DATA" },
            hdr: [m.version as i32, 0, 0, 0, 0, 0, 0, 0],
            types,
            item_offsets,
            data_offsets,
            data_sizes,
            items,
            data,
            item_pos,
            trailer: Vec::new(),
        };
        img.fix_all(m.crude);
        img
    }
    /// size and swaplen as doc/datafile.md defines them, from the header's own counts.
    pub fn fix_size_fields(&mut self, crude: bool) -> i64 {
        let total = implied_total(&self.hdr);
        let mut size = total - 16;
        if crude {
            // the historic miscalculation: the data sizes table is not counted
            size -= 4 * self.hdr[H_NDATA] as i64;
        }
        let swaplen = size - self.hdr[H_SIZE_DATA] as i64;
        self.hdr[H_SIZE] = size.clamp(i32::MIN as i64, i32::MAX as i64) as i32;
        self.hdr[H_SWAPLEN] = swaplen.clamp(i32::MIN as i64, i32::MAX as i64) as i32;
        total
    }
    /// counts and sizes from the actual parts, then size/swaplen.
    pub fn fix_all(&mut self, crude: bool) -> i64 {
        self.hdr[H_NTYPES] = self.types.len() as i32;
        self.hdr[H_NITEMS] = self.item_offsets.len() as i32;
        self.hdr[H_NDATA] = self.data_offsets.len() as i32;
        self.hdr[H_SIZE_ITEMS] = self.items.len() as i32;
        self.hdr[H_SIZE_DATA] = self.data.len() as i32;
        self.fix_size_fields(crude)
    }
    pub fn bytes(&self) -> Vec<u8> {
        let mut out = Vec::with_capacity(64 + self.items.len() + self.data.len());
        out.extend_from_slice(&self.magic);
        for w in &self.hdr {
            out.extend_from_slice(&w.to_le_bytes());
        }
        for t in &self.types {
            for w in t {
                out.extend_from_slice(&w.to_le_bytes());
            }
        }
        for w in self.item_offsets.iter().chain(self.data_offsets.iter()) {
            out.extend_from_slice(&w.to_le_bytes());
        }
        if let Some(s) = &self.data_sizes {
            for w in s {
                out.extend_from_slice(&w.to_le_bytes());
            }
        }
        out.extend_from_slice(&self.items);
        out.extend_from_slice(&self.data);
        out.extend_from_slice(&self.trailer);
        out
    }
    fn item_word(&self, i: usize, c: usize) -> i32 {
        let p = self.item_pos[i] + 4 * c;
        i32::from_le_bytes(self.items[p..p + 4].try_into().unwrap())
    }
    fn set_item_word(&mut self, i: usize, c: usize, v: i32) {
        let p = self.item_pos[i] + 4 * c;
        self.items[p..p + 4].copy_from_slice(&v.to_le_bytes());
    }
    pub fn get(&self, f: Field) -> i32 {
        match f {
            Field::Hdr(k) => self.hdr[k],
            Field::Type(i, c) => self.types[i][c],
            Field::ItemOff(i) => self.item_offsets[i],
            Field::DataOff(i) => self.data_offsets[i],
            Field::DataSize(i) => self.data_sizes.as_ref().unwrap()[i],
            Field::ItemHdr(i, c) => self.item_word(i, c),
        }
    }
    pub fn set(&mut self, f: Field, v: i32) {
        match f {
            Field::Hdr(k) => self.hdr[k] = v,
            Field::Type(i, c) => self.types[i][c] = v,
            Field::ItemOff(i) => self.item_offsets[i] = v,
            Field::DataOff(i) => self.data_offsets[i] = v,
            Field::DataSize(i) => self.data_sizes.as_mut().unwrap()[i] = v,
            Field::ItemHdr(i, c) => self.set_item_word(i, c, v),
        }
    }
    pub fn fields(&self) -> Vec<Field> {
        let mut f: Vec<Field> = (0..8).map(Field::Hdr).collect();
        for i in 0..self.types.len() {
            for c in 0..3 {
                f.push(Field::Type(i, c));
            }
        }
        f.extend((0..self.item_offsets.len()).map(Field::ItemOff));
        f.extend((0..self.data_offsets.len()).map(Field::DataOff));
        if let Some(s) = &self.data_sizes {
            f.extend((0..s.len()).map(Field::DataSize));
        }
        for i in 0..self.item_pos.len() {
            f.push(Field::ItemHdr(i, 0));
            f.push(Field::ItemHdr(i, 1));
        }
        f
    }
    /// Lengths and counts a corrupted field could be confused with.
    pub fn extents(&self) -> Vec<i64> {
        let mut e = vec![
            self.types.len() as i64,
            self.item_offsets.len() as i64,
            self.data_offsets.len() as i64,
            self.items.len() as i64,
            self.data.len() as i64,
            self.items.len() as i64 - 8,
            self.bytes().len() as i64,
        ];
        e.sort();
        e.dedup();
        e
    }
}

#[derive(Clone, Copy, Debug, PartialEq, Eq)]
pub enum Field {
    Hdr(usize),
    Type(usize, usize),
    ItemOff(usize),
    DataOff(usize),
    DataSize(usize),
    ItemHdr(usize, usize),
}

pub fn write_model(m: &Model) -> Vec<u8> {
    let blocks: Vec<Vec<u8>> = m
        .data
        .iter()
        .map(|d| if m.version >= 4 { compress_block(d) } else { d.bytes.clone() })
        .collect();
    Image::build(m, &blocks).bytes()
}

fn blocks_of(m: &Model) -> Vec<Vec<u8>> {
    m.data
        .iter()
        .map(|d| if m.version >= 4 { compress_block(d) } else { d.bytes.clone() })
        .collect()
}

// ---------------------------------------------------------------------------
// Independent pre-parse: resource bounds and known-defect input classes

pub struct Pre {
    pub version: i32,
    pub hdr: [i32; 8],
    pub total: i64,
    /// uncompressed sizes as the reader will see them (v4, table inside the file)
    pub sizes: Option<Vec<i32>>,
}

fn word_at(b: &[u8], pos: i64) -> Option<i32> {
    if pos < 0 || pos as usize + 4 > b.len() {
        return None;
    }
    let p = pos as usize;
    Some(i32::from_le_bytes(b[p..p + 4].try_into().unwrap()))
}

/// None: the header is short, of another version or has a negative field (the reader refuses it
/// before it allocates anything that depends on the header).
pub fn preparse(b: &[u8]) -> Option<Pre> {
    if b.len() < 36 {
        return None;
    }
    let mut hdr = [0i32; 8];
    for k in 0..8 {
        hdr[k] = word_at(b, 4 + 4 * k as i64)?;
    }
    if hdr[H_VERSION] != 3 && hdr[H_VERSION] != 4 {
        return None;
    }
    if hdr[1..].iter().any(|&v| v < 0) {
        return None;
    }
    let total = implied_total(&hdr);
    let sizes = if hdr[H_VERSION] == 4 {
        let base = 36 + 12 * hdr[H_NTYPES] as i64 + 4 * hdr[H_NITEMS] as i64 + 4 * hdr[H_NDATA] as i64;
        let mut v = Vec::new();
        if total <= b.len() as i64 + MAX_UNCOMP {
            for i in 0..hdr[H_NDATA] as i64 {
                match word_at(b, base + 4 * i) {
                    Some(w) => v.push(w),
                    None => break,
                }
            }
        }
        Some(v)
    } else {
        None
    };
    Some(Pre { version: hdr[H_VERSION], hdr, total, sizes })
}

/// Does the file belong to one of the two known-defect input classes? (Over-approximates
/// slightly: the type-table checks that precede the item walk are not simulated.)
pub fn known_class(b: &[u8]) -> Option<&'static str> {
    let pre = preparse(b)?;
    let h = &pre.hdr;
    if pre.total > b.len() as i64 {
        return None; // refused as too short before check()
    }
    let (nt, ni, si) = (h[H_NTYPES] as i64, h[H_NITEMS] as i64, h[H_SIZE_ITEMS] as i64);
    if si % 4 != 0 {
        return None;
    }
    for t in 0..nt {
        let start = word_at(b, 36 + 12 * t + 4)? as i64;
        let num = word_at(b, 36 + 12 * t + 8)? as i64;
        if num >= 0 && ni - start > i32::MAX as i64 {
            return Some(K_START_OVERFLOW);
        }
    }
    let offs = 36 + 12 * nt;
    let items = offs + 4 * ni + 4 * h[H_NDATA] as i64 * if pre.version == 4 { 2 } else { 1 };
    let mut offset = 0i64;
    for i in 0..ni {
        let o = word_at(b, offs + 4 * i)? as i64;
        if o < 0 || o != offset {
            return None;
        }
        offset += 8;
        if offset > si {
            return None;
        }
        if o % 4 != 0 {
            return Some(K_UNALIGNED);
        }
        let size = word_at(b, items + o + 4)? as i64;
        if size < 0 {
            return None;
        }
        offset += size;
        if offset > si {
            return None;
        }
    }
    None
}

// ---------------------------------------------------------------------------
// Opening: the reader only takes a `File`; use an anonymous in-memory file (memfd), the same
// through /proc/self/fd (for `Reader::open`) or a real file under /dev/shm that is unlinked
// as soon as it has been opened.

fn inconclusive(msg: String) -> ! {
    println!("INCONCLUSIVE: C16 harness I/O: {}", msg);
    std::process::exit(2);
}

fn memfile(bytes: &[u8]) -> File {
    let fd = unsafe { libc::memfd_create(b"vh-c16\0".as_ptr() as *const libc::c_char, libc::MFD_CLOEXEC) };
    if fd < 0 {
        inconclusive(format!("memfd_create: {}", std::io::Error::last_os_error()));
    }
    let mut f = unsafe { File::from_raw_fd(fd) };
    if let Err(e) = f.write_all(bytes).and_then(|()| f.seek(SeekFrom::Start(0)).map(|_| ())) {
        inconclusive(format!("memfd write: {}", e));
    }
    f
}

fn shm_dir() -> String {
    format!("/dev/shm/vh-c16-{}", std::process::id())
}

fn shm_cleanup() {
    let _ = std::fs::remove_dir_all(shm_dir());
}

/// 0: `Reader::new(memfd)`, 1: `Reader::open("/proc/self/fd/N")`, 2: `Reader::open("/dev/shm/..")`
pub fn open_df(bytes: &[u8], mode: u8) -> Result<df::Reader, df::Error> {
    match mode {
        1 => {
            let f = memfile(bytes);
            let path = format!("/proc/self/fd/{}", f.as_raw_fd());
            if !std::path::Path::new(&path).exists() {
                return df::Reader::new(f);
            }
            let r = df::Reader::open(&path);
            drop(f);
            r
        }
        2 => {
            let dir = shm_dir();
            if let Err(e) = std::fs::create_dir_all(&dir) {
                inconclusive(format!("mkdir {}: {}", dir, e));
            }
            let path = format!("{}/{:?}.map", dir, std::thread::current().id());
            if let Err(e) = std::fs::write(&path, bytes) {
                inconclusive(format!("write {}: {}", path, e));
            }
            let r = guard(|| df::Reader::open(&path));
            let _ = std::fs::remove_file(&path);
            match r {
                Ok(r) => r,
                Err(p) => panic!("Reader::open panicked: {}", p),
            }
        }
        _ => df::Reader::new(memfile(bytes)),
    }
}

// ---------------------------------------------------------------------------
// Traversal: everything the readers expose

type Tally = BTreeMap<String, u64>;

fn bump(t: &mut Tally, k: &str) {
    *t.entry(k.to_string()).or_insert(0) += 1;
}

static TALLY: Mutex<BTreeMap<String, u64>> = Mutex::new(BTreeMap::new());

fn merge_tally(t: Tally) {
    let mut g = TALLY.lock().unwrap();
    for (k, v) in t {
        *g.entry(k).or_insert(0) += v;
    }
}

fn err_key(e: &df::Error) -> String {
    match e {
        df::Error::Io(_) => "Io".to_string(),
        df::Error::Df(d) => {
            let s = format!("{:?}", d);
            s.split('(').next().unwrap_or("").to_string()
        }
    }
}

#[derive(Debug, Default, PartialEq)]
pub struct DfDump {
    pub version: Option<df::Version>,
    pub types: Vec<u16>,
    pub items: Vec<(u16, u16, Vec<i32>)>,
    pub data: Vec<Option<Vec<u8>>>,
}

fn view(v: df::ItemView) -> (u16, u16, Vec<i32>) {
    (v.type_id, v.id, v.data.to_vec())
}

fn data_allowed(pre: &Option<Pre>, i: usize) -> bool {
    match pre {
        Some(Pre { sizes: Some(s), .. }) => s.get(i).map(|&v| (v as i64) <= MAX_UNCOMP).unwrap_or(false),
        _ => true,
    }
}

/// Calls every accessor of the datafile reader with every index it admits. Panics propagate to
/// the caller's guard; fuel is burnt on every step.
pub fn traverse_df(r: &mut df::Reader, pre: &Option<Pre>, t: &mut Tally) -> DfDump {
    let mut d = DfDump::default();
    d.version = Some(r.version());
    let (nt, ni, nd) = (r.num_item_types(), r.num_items(), r.num_data());
    for ty in r.item_types() {
        burn();
        d.types.push(ty);
    }
    for i in 0..nt {
        burn();
        let _ = r.item_type(i);
    }
    for it in r.items() {
        burn();
        d.items.push(view(it));
    }
    for i in 0..ni {
        burn();
        let _ = r.item(i).data.iter().fold(0i32, |a, &b| a ^ b);
    }
    let mut probe_types: Vec<u16> = d.types.clone();
    for &ty in &d.types {
        probe_types.push(ty.wrapping_add(1));
    }
    probe_types.extend_from_slice(&[0, 1, 5, 0x7fff, 0x8000, 0xffff]);
    probe_types.sort();
    probe_types.dedup();
    for &ty in &probe_types {
        burn();
        let range = r.item_type_indices(ty);
        let mut n = 0;
        for it in r.item_type_items(ty) {
            burn();
            let _ = it.data.len();
            n += 1;
        }
        let _ = (range, n);
        let _ = r.find_item(ty, 0);
        let _ = r.find_item(ty, 0xffff);
    }
    for i in 0..d.items.len().min(64) {
        burn();
        let (ty, id) = (d.items[i].0, d.items[i].1);
        let _ = r.find_item(ty, id);
        let _ = r.find_item(ty, id.wrapping_add(1));
    }
    // Self-consistency of what an accepted file exposes (follows from the validation pass: types are
    // sequential ranges over the items, every item of a range carries the range's type).
    let incons = |msg: String| {
        RANGE_ERR.with(|e| {
            let mut e = e.borrow_mut();
            if e.is_none() {
                *e = Some(msg);
            }
        })
    };
    if d.items.len() != ni {
        incons(format!("items() yields {} items, num_items() = {}", d.items.len(), ni));
    }
    if d.types.len() != nt {
        incons(format!("item_types() yields {} types, num_item_types() = {}", d.types.len(), nt));
    }
    for i in 0..ni.min(d.items.len()) {
        burn();
        let v = view(r.item(i));
        if v != d.items[i] {
            incons(format!("item({}) = ({}, {}, {} words) but items() yields ({}, {}, {} words) at that position", i, v.0, v.1, v.2.len(), d.items[i].0, d.items[i].1, d.items[i].2.len()));
            break;
        }
    }
    let mut covered = 0usize;
    for &ty in &d.types {
        burn();
        let range = r.item_type_indices(ty);
        if range.start != covered || range.end < range.start || range.end > ni {
            incons(format!("item_type_indices({}) = {:?}: not the next run of the {} items (previous types end at {})", ty, range, ni, covered));
            break;
        }
        covered = range.end;
        let listed: Vec<(u16, u16, Vec<i32>)> = r.item_type_items(ty).map(view).collect();
        if listed.len() != range.len() || listed.iter().any(|it| it.0 != ty) || listed[..] != d.items[range.clone()] {
            incons(format!("item_type_items({}) yields {} items (types {:?}..), item_type_indices says {:?}", ty, listed.len(), listed.iter().map(|it| it.0).take(4).collect::<Vec<_>>(), range));
            break;
        }
    }
    if d.types.len() == nt && covered != ni && !d.types.is_empty() {
        incons(format!("the item types cover {} of {} items", covered, ni));
    }
    for i in 0..d.items.len().min(48) {
        burn();
        let (ty, id) = (d.items[i].0, d.items[i].1);
        match r.find_item(ty, id) {
            Some(it) => {
                if it.type_id != ty || it.id != id {
                    incons(format!("find_item({}, {}) returned an item ({}, {})", ty, id, it.type_id, it.id));
                }
            }
            None => incons(format!("find_item({}, {}) = None although items() lists such an item at position {}", ty, id, i)),
        }
        let absent = id.wrapping_add(1);
        if let Some(it) = r.find_item(ty, absent) {
            if it.type_id != ty || it.id != absent || !d.items.iter().any(|x| x.0 == ty && x.1 == absent) {
                incons(format!("find_item({}, {}) returned ({}, {}), which items() does not list", ty, absent, it.type_id, it.id));
            }
        }
    }
    let mut all_allowed = true;
    for i in 0..nd {
        burn();
        if !data_allowed(pre, i) {
            all_allowed = false;
            bump(t, "data:skipped_over_16MiB");
            d.data.push(None);
            continue;
        }
        match r.read_data(i) {
            Ok(v) => {
                bump(t, "data:ok");
                d.data.push(Some(v));
            }
            Err(e) => {
                bump(t, &format!("data:{}", err_key(&e)));
                d.data.push(None);
            }
        }
    }
    if all_allowed {
        for x in r.data_iter() {
            burn();
            let _ = x.map(|v| v.len());
        }
    }
    let _ = r.debug_dump();
    d
}

fn tilemap_of(width: u32, height: u32) -> map::reader::LayerTilemap {
    map::reader::LayerTilemap {
        width,
        height,
        type_: map::reader::LayerTilemapType::Game(0),
        name: [0; 12],
    }
}

fn all_tiles(m: &mut map::Reader, tm: &map::reader::LayerTilemap, d: usize, pre: &Option<Pre>, t: &mut Tally) {
    if !data_allowed(pre, d) {
        return;
    }
    burn();
    let k = |r: bool| if r { "tiles:ok" } else { "tiles:err" };
    bump(t, k(m.layer_tiles(tm.tiles(d)).map(|a| a.len()).is_ok()));
    bump(t, k(m.tele_layer_tiles(tm.tiles(d)).map(|a| a.len()).is_ok()));
    bump(t, k(m.speedup_layer_tiles(tm.tiles(d)).map(|a| a.len()).is_ok()));
    bump(t, k(m.switch_layer_tiles(tm.tiles(d)).map(|a| a.len()).is_ok()));
    bump(t, k(m.tune_layer_tiles(tm.tiles(d)).map(|a| a.len()).is_ok()));
}

fn settings_walk(m: &mut map::Reader, d: usize, t: &mut Tally) {
    match m.settings(d) {
        Ok(s) => {
            bump(t, "settings:ok");
            for line in s.iter() {
                burn();
                let _ = line.len();
            }
        }
        Err(_) => bump(t, "settings:err"),
    }
}

thread_local! {
    /// first index handed out by a map accessor that lies outside the range it refers to
    static RANGE_ERR: std::cell::RefCell<Option<String>> = std::cell::RefCell::new(None);
}

/// "every index taken from an item is range-checked against the item-type range or data count
/// before use": an index an accessor hands out must lie inside the range it refers to (otherwise
/// following it reads an item of another type / a data block that does not exist).
fn in_range(what: &str, idx: usize, range: &std::ops::Range<usize>) {
    if !range.contains(&idx) {
        RANGE_ERR.with(|e| {
            let mut e = e.borrow_mut();
            if e.is_none() {
                *e = Some(format!("{} = {} handed out, but the range it refers to is {:?}", what, idx, range));
            }
        });
    }
}

fn take_range_err() -> Option<String> {
    RANGE_ERR.with(|e| e.borrow_mut().take())
}

/// Calls every accessor of the map reader. `full`: additionally every data-index accessor on
/// every data index (otherwise only on the indices the items hand out).
pub fn traverse_map(r: df::Reader, pre: &Option<Pre>, full: bool, t: &mut Tally) -> map::Reader {
    use map::reader::{LayerTilemapType as T, LayerType};
    let mut m = map::Reader::from_datafile(r);
    let nd = m.reader.num_data();
    let data_r = 0..nd;
    let image_r = m.reader.item_type_indices(map::format::MAP_ITEMTYPE_IMAGE);
    let env_r = m.reader.item_type_indices(map::format::MAP_ITEMTYPE_ENVELOPE);
    let layer_r = m.reader.item_type_indices(map::format::MAP_ITEMTYPE_LAYER);
    let sound_r = m.reader.item_type_indices(map::format::MAP_ITEMTYPE_DDRACE_SOUND);
    let _ = m.version();
    let _ = m.check_version();
    match m.info() {
        Ok(info) => {
            bump(t, "info:ok");
            for idx in [info.author, info.version, info.credits, info.license, info.settings].into_iter().flatten() {
                in_range("info: data index", idx, &data_r);
            }
            for idx in [info.author, info.version, info.credits, info.license].into_iter().flatten() {
                if data_allowed(pre, idx) {
                    let _ = m.string(idx);
                }
            }
            if let Some(s) = info.settings {
                if data_allowed(pre, s) {
                    settings_walk(&mut m, s, t);
                }
            }
        }
        Err(_) => bump(t, "info:err"),
    }
    for i in m.reader.item_type_indices(map::format::MAP_ITEMTYPE_IMAGE) {
        burn();
        match m.image(i) {
            Ok(img) => {
                bump(t, "image:ok");
                in_range("image: name data index", img.name, &data_r);
                if let Some(d) = img.data {
                    in_range("image: data index", d, &data_r);
                }
                if data_allowed(pre, img.name) {
                    let _ = m.image_name(img.name);
                }
                if let Some(d) = img.data {
                    if data_allowed(pre, d) {
                        let _ = m.image_data(d);
                    }
                }
            }
            Err(_) => bump(t, "image:err"),
        }
    }
    for g in m.group_indices() {
        burn();
        let group = match m.group(g) {
            Ok(group) => group,
            Err(_) => {
                bump(t, "group:err");
                continue;
            }
        };
        bump(t, "group:ok");
        if !group.layer_indices.is_empty() {
            in_range("group: first layer index", group.layer_indices.start, &layer_r);
            in_range("group: last layer index", group.layer_indices.end - 1, &layer_r);
        }
        for l in group.layer_indices.clone() {
            burn();
            let layer = match m.layer(l) {
                Ok(layer) => layer,
                Err(_) => {
                    bump(t, "layer:err");
                    continue;
                }
            };
            bump(t, "layer:ok");
            match &layer.t {
                LayerType::Quads(q) => {
                    in_range("quads layer: data index", q.data, &data_r);
                    if let Some(i) = q.image {
                        in_range("quads layer: image index", i, &image_r);
                        let _ = m.image(i);
                    }
                }
                LayerType::DdraceSounds(s) => {
                    in_range("sounds layer: data index", s.data, &data_r);
                    if let Some(i) = s.sound {
                        in_range("sounds layer: sound index", i, &sound_r);
                    }
                }
                LayerType::Tilemap(tm) => {
                    if let Some(n) = tm.type_.to_normal() {
                        in_range("tile layer: data index", n.data, &data_r);
                        if let Some(i) = n.image {
                            in_range("tile layer: image index", i, &image_r);
                            let _ = m.image(i);
                        }
                        if let Some((i, _)) = n.color_env_and_offset {
                            in_range("tile layer: colour envelope index", i, &env_r);
                        }
                    }
                    match tm.type_ {
                        T::Normal(_) => {}
                        T::Game(d) => in_range("game layer: data index", d, &data_r),
                        T::RaceTeleport(d, z) | T::RaceSpeedup(d, z) | T::DdraceFront(d, z) | T::DdraceSwitch(d, z) | T::DdraceTune(d, z) => {
                            in_range("physics layer: data index", d, &data_r);
                            in_range("physics layer: second data index", z, &data_r);
                        }
                    }
                }
            }
            match layer.t {
                LayerType::Quads(q) => {
                    if data_allowed(pre, q.data) {
                        let _ = m.reader.read_data(q.data);
                    }
                }
                LayerType::DdraceSounds(s) => {
                    if data_allowed(pre, s.data) {
                        let _ = m.reader.read_data(s.data);
                    }
                }
                LayerType::Tilemap(tm) => {
                    let _ = tm.type_.to_normal().map(|n| n.data);
                    if let Some(d) = tm.type_.tiles() {
                        if data_allowed(pre, d) {
                            let _ = m.layer_tiles(tm.tiles(d)).map(|a| a.len());
                        }
                    }
                    let (d, z) = match tm.type_ {
                        T::Normal(n) => (n.data, n.data),
                        T::Game(d) => (d, d),
                        T::RaceTeleport(d, z)
                        | T::RaceSpeedup(d, z)
                        | T::DdraceFront(d, z)
                        | T::DdraceSwitch(d, z)
                        | T::DdraceTune(d, z) => (d, z),
                    };
                    for x in [d, z] {
                        if !data_allowed(pre, x) {
                            continue;
                        }
                        let _ = match tm.type_ {
                            T::RaceTeleport(..) => m.tele_layer_tiles(tm.tiles(x)).map(|a| a.len()),
                            T::RaceSpeedup(..) => m.speedup_layer_tiles(tm.tiles(x)).map(|a| a.len()),
                            T::DdraceSwitch(..) => m.switch_layer_tiles(tm.tiles(x)).map(|a| a.len()),
                            T::DdraceTune(..) => m.tune_layer_tiles(tm.tiles(x)).map(|a| a.len()),
                            _ => m.layer_tiles(tm.tiles(x)).map(|a| a.len()),
                        };
                    }
                }
            }
        }
    }
    match m.game_layers() {
        Ok(gl) => {
            bump(t, "game_layers:ok");
            if data_allowed(pre, gl.game_raw) {
                let _ = m.layer_tiles(gl.game()).map(|a| a.len());
            }
            if let Some(i) = gl.teleport() {
                if data_allowed(pre, gl.teleport_raw.unwrap()) {
                    let _ = m.tele_layer_tiles(i).map(|a| a.len());
                }
            }
            if let Some(i) = gl.speedup() {
                if data_allowed(pre, gl.speedup_raw.unwrap()) {
                    let _ = m.speedup_layer_tiles(i).map(|a| a.len());
                }
            }
            if let Some(i) = gl.front() {
                if data_allowed(pre, gl.front_raw.unwrap()) {
                    let _ = m.layer_tiles(i).map(|a| a.len());
                }
            }
            if let Some(i) = gl.switch() {
                if data_allowed(pre, gl.switch_raw.unwrap()) {
                    let _ = m.switch_layer_tiles(i).map(|a| a.len());
                }
            }
            if let Some(i) = gl.tune() {
                if data_allowed(pre, gl.tune_raw.unwrap()) {
                    let _ = m.tune_layer_tiles(i).map(|a| a.len());
                }
            }
        }
        Err(e) => bump(t, &format!("game_layers:{}", format!("{:?}", e).split('(').next().unwrap_or(""))),
    }
    if full {
        for d in 0..nd {
            burn();
            if !data_allowed(pre, d) {
                continue;
            }
            let _ = m.image_name(d);
            let _ = m.image_data(d);
            bump(t, if m.string(d).is_ok() { "string:ok" } else { "string:err" });
            settings_walk(&mut m, d, t);
            let _ = m.layer_tiles_raw(d).map(|v| v.len());
            let _ = m.tele_layer_tiles_raw(d).map(|v| v.len());
            let _ = m.speedup_layer_tiles_raw(d).map(|v| v.len());
            let _ = m.switch_layer_tiles_raw(d).map(|v| v.len());
            let _ = m.tune_layer_tiles_raw(d).map(|v| v.len());
            for (w, h) in [(1u32, 1u32), (2, 3), (1, i32::MAX as u32), (i32::MAX as u32, i32::MAX as u32)] {
                all_tiles(&mut m, &tilemap_of(w, h), d, pre, t);
            }
        }
    }
    m
}

#[derive(Clone, Copy, PartialEq, Eq, Debug)]
pub enum Verdict {
    Accepted,
    Rejected,
    SkippedResource,
    SkippedKnown,
}

#[derive(Clone, Copy)]
pub struct Known {
    pub unaligned: bool,
    pub start_overflow: bool,
}

impl Known {
    pub const NONE: Known = Known { unaligned: false, start_overflow: false };
    fn from(ctx: &Ctx) -> Known {
        Known {
            unaligned: ctx.known_open(K_UNALIGNED),
            start_overflow: ctx.known_open(K_START_OVERFLOW),
        }
    }
    fn skips(&self, b: &[u8]) -> bool {
        if !self.unaligned && !self.start_overflow {
            return false;
        }
        match known_class(b) {
            Some(K_UNALIGNED) => self.unaligned,
            Some(K_START_OVERFLOW) => self.start_overflow,
            _ => false,
        }
    }
}

/// The totality oracle for one file: open it as a datafile and as a map and call everything.
/// Err = a panic or a call that did not come back within its fuel.
pub fn check_total(bytes: &[u8], mode: u8, as_map: u8, known: Known, t: &mut Tally) -> Result<Verdict, String> {
    let pre = preparse(bytes);
    if let Some(p) = &pre {
        if p.total > bytes.len() as i64 + MAX_UNCOMP {
            bump(t, "open:skipped_resource_bound");
            return Ok(Verdict::SkippedResource);
        }
    }
    if known.skips(bytes) {
        bump(t, "open:skipped_known_finding");
        return Ok(Verdict::SkippedKnown);
    }
    set_fuel(2_000_000);
    let _ = take_range_err();
    let r = guard(|| -> Verdict {
        let mut r = match open_df(bytes, mode) {
            Ok(r) => r,
            Err(e) => {
                bump(t, &format!("open:{}", err_key(&e)));
                return Verdict::Rejected;
            }
        };
        bump(t, "open:accepted");
        let d = traverse_df(&mut r, &pre, t);
        // what read_data returns for a block must not depend on what was read (or failed) before:
        // a second reader takes the blocks in reverse order
        if d.data.iter().any(|x| x.is_none()) && d.data.iter().any(|x| x.is_some()) {
            if let Ok(mut r2) = open_df(bytes, mode) {
                for i in (0..d.data.len()).rev() {
                    burn();
                    if !data_allowed(&pre, i) {
                        continue;
                    }
                    if let (Ok(v), Some(first)) = (r2.read_data(i), &d.data[i]) {
                        if v != *first {
                            RANGE_ERR.with(|e| {
                                let mut e = e.borrow_mut();
                                if e.is_none() {
                                    *e = Some(format!("read_data({}) gives {} bytes when the blocks are read in ascending order and {} bytes when read in descending order by a second reader", i, first.len(), v.len()));
                                }
                            });
                        }
                    }
                }
                bump(t, "data:reread_in_reverse_after_a_failure");
            }
        }
        if let Some(Pre { sizes: Some(sz), .. }) = &pre {
            for (i, x) in d.data.iter().enumerate() {
                if let (Some(v), Some(&declared)) = (x, sz.get(i)) {
                    if v.len() as i64 != declared as i64 {
                        RANGE_ERR.with(|e| {
                            let mut e = e.borrow_mut();
                            if e.is_none() {
                                *e = Some(format!("read_data({}) returned {} bytes, the file declares an uncompressed size of {}", i, v.len(), declared));
                            }
                        });
                    }
                }
            }
        }
        if as_map > 0 {
            let _ = traverse_map(r, &pre, as_map > 1, t);
        }
        Verdict::Accepted
    });
    unlimited_fuel();
    let range_err = take_range_err();
    let v = r.map_err(|p| p.to_string())?;
    if let Some(e) = range_err {
        return Err(format!("accepted file: an accessor hands out something inconsistent with the rest of the reader: {}", e));
    }
    Ok(v)
}

/// Totality oracle for the fuzz target: any byte string, opened as datafile and as map.
pub fn check_bytes(data: &[u8]) -> Result<(), String> {
    check_bytes_opts(data, false)
}

/// `skip_known`: do not open files of the two known-defect input classes (campaign allow-list).
pub fn check_bytes_opts(data: &[u8], skip_known: bool) -> Result<(), String> {
    crate::install_panic_hook();
    let mut t = Tally::new();
    let known = Known { unaligned: skip_known, start_overflow: skip_known };
    check_total(data, 0, 2, known, &mut t).map(|_| ())
}

// ---------------------------------------------------------------------------
// Generators

fn word() -> BoxedStrategy<i32> {
    prop_oneof![
        5 => -3i32..20,
        2 => any::<i32>(),
        1 => prop_oneof![Just(i32::MIN), Just(i32::MAX), Just(-1), Just(0x10000), Just(0xffff), Just(1 << 24)],
    ]
    .boxed()
}

fn type_id() -> BoxedStrategy<u16> {
    prop_oneof![5 => 0u16..8, 2 => any::<u16>(), 1 => Just(0xffffu16), 1 => Just(0x8000u16)].boxed()
}

fn item(max_words: usize, hostile: bool) -> BoxedStrategy<MItem> {
    let pad = if hostile {
        prop_oneof![12 => Just(0u8), 2 => Just(4u8), 1 => Just(1u8), 2 => Just(2u8), 1 => Just(3u8), 1 => Just(6u8)].boxed()
    } else {
        Just(0u8).boxed()
    };
    (
        type_id(),
        prop_oneof![4 => 0u16..6, 1 => any::<u16>()],
        prop_oneof![4 => proptest::collection::vec(word(), 0..=max_words.min(4)), 1 => proptest::collection::vec(word(), 0..=max_words)],
        pad,
    )
        .prop_map(|(type_id, id, data, pad)| MItem { type_id, id, data, pad })
        .boxed()
}

fn data_bytes(max: usize) -> BoxedStrategy<Vec<u8>> {
    prop_oneof![
        3 => proptest::collection::vec(any::<u8>(), 0..=max.min(24)),
        2 => (any::<u8>(), 0..=max * 4).prop_map(|(b, n)| vec![b; n]),
        1 => Just(Vec::new()),
        2 => proptest::collection::vec(any::<u8>(), 0..=max),
        1 => proptest::collection::vec(0u8..3, 0..=max * 2),
    ]
    .boxed()
}

fn mdata(max: usize) -> BoxedStrategy<MData> {
    (data_bytes(max), 0u8..6, any::<u8>())
        .prop_map(|(bytes, comp, split)| MData { bytes, comp, split })
        .boxed()
}

fn model(max_items: usize, max_words: usize, max_data: usize, max_bytes: usize, hostile: bool) -> BoxedStrategy<Model> {
    (
        prop_oneof![Just(3u8), Just(4u8)],
        proptest::bool::weighted(0.3),
        proptest::bool::weighted(0.1),
        proptest::collection::vec(item(max_words, hostile), 0..=max_items),
        proptest::collection::vec(mdata(max_bytes), 0..=max_data),
    )
        .prop_map(|(version, crude, reversed_magic, items, data)| Model { version, crude, reversed_magic, items, data })
        .boxed()
}

// ---------------------------------------------------------------------------
// Section df_wellformed: exact read-back

#[derive(Clone, Debug, Hash, Serialize, Deserialize)]
pub struct WellCase {
    pub model: Model,
    pub open_mode: u8,
}

fn check_wellformed(c: &WellCase) -> PResult {
    let m = c.model.normalized();
    let bytes = write_model(&m);
    let pre = preparse(&bytes);
    ensure!(pre.is_some(), "harness: own pre-parser refuses the file written by the harness");
    let mut t = Tally::new();
    set_fuel(2_000_000);
    let mut r = match guard(|| open_df(&bytes, c.open_mode)).map_err(|p| format!("open: {}", p))? {
        Ok(r) => r,
        Err(e) => return Err(format!("well-formed version {} file ({} bytes) refused: {:?}", m.version, bytes.len(), e)),
    };
    let _ = take_range_err();
    let d = guard(|| traverse_df(&mut r, &pre, &mut t)).map_err(|p| format!("traversal: {}", p))?;
    unlimited_fuel();
    if let Some(e) = take_range_err() {
        return Err(format!("well-formed file: the reader's accessors disagree with each other: {}", e));
    }
    match (m.version, d.version) {
        (3, Some(df::Version::V3)) | (4, Some(df::Version::V4)) | (4, Some(df::Version::V4Crude)) => {}
        (v, got) => return Err(format!("file of version {} reported as {:?}", v, got)),
    }
    let want_items: Vec<(u16, u16, Vec<i32>)> = m.items.iter().map(|i| (i.type_id, i.id, i.data.clone())).collect();
    let mut want_types: Vec<u16> = m.items.iter().map(|i| i.type_id).collect();
    want_types.dedup();
    ensure_eq!(d.types, want_types, "item_types()");
    ensure_eq!(r.num_item_types(), want_types.len(), "num_item_types()");
    ensure_eq!(r.num_items(), want_items.len(), "num_items()");
    ensure_eq!(d.items, want_items, "items()");
    for (i, w) in want_items.iter().enumerate() {
        ensure_eq!(&view(r.item(i)), w, "item({})", i);
    }
    for (k, &ty) in want_types.iter().enumerate() {
        ensure_eq!(r.item_type(k), ty, "item_type({})", k);
        let want: Vec<_> = want_items.iter().filter(|i| i.0 == ty).cloned().collect();
        let got: Vec<_> = r.item_type_items(ty).map(view).collect();
        ensure_eq!(got, want, "item_type_items({})", ty);
        let range = r.item_type_indices(ty);
        let first = want_items.iter().position(|i| i.0 == ty).unwrap();
        ensure_eq!(range, first..first + want.len(), "item_type_indices({})", ty);
    }
    for ty in [0u16, 1, 2, 9, 0x7fff, 0xfffe, 0xffff] {
        if !want_types.contains(&ty) {
            ensure!(r.item_type_indices(ty).len() == 0, "item_type_indices({}) of an absent type is not empty", ty);
            ensure!(r.item_type_items(ty).next().is_none(), "item_type_items({}) of an absent type yields an item", ty);
            ensure!(r.find_item(ty, 0).is_none(), "find_item({}, 0) of an absent type finds something", ty);
        }
    }
    for w in &want_items {
        ensure_eq!(r.find_item(w.0, w.1).map(view), Some(w.clone()), "find_item({}, {})", w.0, w.1);
        let absent = w.1.wrapping_add(1);
        if !want_items.iter().any(|i| i.0 == w.0 && i.1 == absent) {
            ensure!(r.find_item(w.0, absent).is_none(), "find_item({}, {}) finds an item that was not stored", w.0, absent);
        }
    }
    ensure_eq!(r.num_data(), m.data.len(), "num_data()");
    for (i, want) in m.data.iter().enumerate() {
        match &d.data[i] {
            Some(got) => ensure_eq!(got, &want.bytes, "read_data({}) (comp {})", i, want.comp),
            None => return Err(format!("read_data({}) failed on a well-formed file: {:?}", i, r.read_data(i).err())),
        }
        // a second read gives the same
        ensure_eq!(r.read_data(i).ok(), Some(want.bytes.clone()), "second read_data({})", i);
    }
    let all: Vec<Option<Vec<u8>>> = r.data_iter().map(|x| x.ok()).collect();
    ensure_eq!(all, m.data.iter().map(|x| Some(x.bytes.clone())).collect::<Vec<_>>(), "data_iter()");
    let compressed = m.version == 4 && m.data.iter().any(|x| !x.bytes.is_empty());
    let nt = want_types.len() >= 2 && m.data.iter().any(|x| !x.bytes.is_empty());
    merge_tally(t);
    Ok(Outcome::nt(nt)
        .class_if(m.version == 3, "v3")
        .class_if(m.version == 4 && !m.crude, "v4")
        .class_if(m.version == 4 && m.crude, "v4_crude_size")
        .class_if(d.version == Some(df::Version::V4Crude), "reported_V4Crude")
        .class_if(m.reversed_magic, "reversed_magic")
        .class_if(compressed, "compressed_block")
        .class_if(m.data.iter().any(|x| x.bytes.is_empty()), "empty_data_block")
        .class_if(m.version == 4 && m.data.iter().any(|x| x.comp >= 3 && x.bytes.len() > 50), "libz_deflated_block")
        .class_if(m.version == 4 && m.data.iter().any(|x| x.comp == 1 && x.bytes.len() > x.split as usize + 1), "multi_stored_blocks")
        .class_if(m.items.is_empty(), "no_items")
        .class_if(m.items.iter().any(|x| x.data.is_empty()), "empty_item")
        .class_if(want_types.iter().any(|&x| x >= 0x8000), "type_id_high_bit")
        .class_if(c.open_mode == 1, "open_proc_fd")
        .class_if(c.open_mode == 2, "open_dev_shm_path"))
}

// ---------------------------------------------------------------------------
// Section df_single_field: every field x every boundary value, with and without repaired size fields

fn boundary_values(orig: i32, ext: &[i64]) -> Vec<i32> {
    let mut v: Vec<i64> = vec![
        0, 1, -1, 2, 3, 4, -4, 5, 7, 8, 12, 0xffff, 0x10000, 0x10001, 0x7fff_0000, -65536,
        i32::MIN as i64, i32::MIN as i64 + 1, i32::MIN as i64 + 4, i32::MAX as i64, i32::MAX as i64 - 1,
        i32::MAX as i64 - 3, i32::MAX as i64 - 4,
    ];
    for d in [-8i64, -4, -3, -2, -1, 1, 2, 3, 4, 8] {
        v.push(orig as i64 + d);
    }
    for &e in ext {
        for d in [-1i64, 0, 1, 4] {
            v.push(e + d);
        }
    }
    let mut v: Vec<i32> = v
        .into_iter()
        .filter(|&x| x >= i32::MIN as i64 && x <= i32::MAX as i64 && x != orig as i64)
        .map(|x| x as i32)
        .collect();
    v.sort();
    v.dedup();
    v
}

struct EnumStats {
    files: u64,
    accepted: u64,
    skipped_known: u64,
}

fn run_file(bytes: &[u8], as_map: u8, known: Known, t: &mut Tally, st: &mut EnumStats, what: impl Fn() -> String) -> Result<(), String> {
    st.files += 1;
    match check_total(bytes, 0, as_map, known, t) {
        Ok(Verdict::Accepted) => st.accepted += 1,
        Ok(Verdict::SkippedKnown) => st.skipped_known += 1,
        Ok(_) => {}
        Err(e) => return Err(format!("{}: {} [file {}]", what(), e, hex_short(bytes))),
    }
    Ok(())
}

fn hex_short(b: &[u8]) -> String {
    if b.len() <= 400 {
        crate::util::hex(b)
    } else {
        format!("{}.. ({} bytes)", crate::util::hex(&b[..400]), b.len())
    }
}

static FILES: std::sync::atomic::AtomicU64 = std::sync::atomic::AtomicU64::new(0);
static ACCEPTED: std::sync::atomic::AtomicU64 = std::sync::atomic::AtomicU64::new(0);
static SKIPPED_KNOWN: std::sync::atomic::AtomicU64 = std::sync::atomic::AtomicU64::new(0);

fn finish_enum(t: Tally, st: &EnumStats) {
    use std::sync::atomic::Ordering::Relaxed;
    FILES.fetch_add(st.files, Relaxed);
    ACCEPTED.fetch_add(st.accepted, Relaxed);
    SKIPPED_KNOWN.fetch_add(st.skipped_known, Relaxed);
    merge_tally(t);
}

fn check_single_field(m: &Model, known: Known) -> PResult {
    let m = m.normalized();
    let img = Image::build(&m, &blocks_of(&m));
    let ext = img.extents();
    let mut t = Tally::new();
    let mut st = EnumStats { files: 0, accepted: 0, skipped_known: 0 };
    // the magic
    for k in 0..4 {
        for x in [0x01u8, 0x20, 0x80, 0xff] {
            let mut i2 = img.clone();
            i2.magic[k] ^= x;
            run_file(&i2.bytes(), 0, known, &mut t, &mut st, || format!("magic byte {} ^ {:#x}", k, x))?;
        }
    }
    for f in img.fields() {
        let orig = img.get(f);
        for v in boundary_values(orig, &ext) {
            if let Field::DataSize(_) = f {
                if v as i64 > MAX_GEN_UNCOMP {
                    continue; // allocation size, not the property
                }
            }
            for fix in [false, true] {
                let mut i2 = img.clone();
                i2.set(f, v);
                if fix {
                    if matches!(f, Field::Hdr(H_SIZE) | Field::Hdr(H_SWAPLEN)) {
                        continue;
                    }
                    if !matches!(f, Field::Hdr(_)) {
                        continue; // size fields do not depend on the tables
                    }
                    i2.fix_size_fields(m.crude);
                }
                run_file(&i2.bytes(), 0, known, &mut t, &mut st, || {
                    format!("{:?} {} -> {}{}", f, orig, v, if fix { " (size/swaplen recomputed)" } else { "" })
                })?;
            }
        }
    }
    let acc = st.accepted;
    finish_enum(t, &st);
    Ok(Outcome::nt(acc > 0)
        .class_if(m.version == 3, "v3")
        .class_if(m.version == 4, "v4")
        .class_if(acc >= 20, "accepted_20_or_more_corruptions")
        .class_if(st.skipped_known > 0, "has_known_finding_inputs"))
}

// ---------------------------------------------------------------------------
// Section df_truncate: every prefix (and a few extensions)

fn check_truncate(m: &Model, known: Known) -> PResult {
    let m = m.normalized();
    let bytes = write_model(&m);
    let mut t = Tally::new();
    let mut st = EnumStats { files: 0, accepted: 0, skipped_known: 0 };
    let n = bytes.len();
    for cut in 0..n {
        if n > 1500 && cut > 300 && cut + 300 < n && cut % 7 != 0 {
            continue;
        }
        run_file(&bytes[..cut], 0, known, &mut t, &mut st, || format!("truncated to {} of {} bytes", cut, n))?;
    }
    for extra in [1usize, 3, 4, 100] {
        let mut b = bytes.clone();
        b.extend(std::iter::repeat(0x5a).take(extra));
        run_file(&b, 0, known, &mut t, &mut st, || format!("{} bytes appended", extra))?;
    }
    let acc = st.accepted;
    finish_enum(t, &st);
    Ok(Outcome::nt(n > 36 + 12 + 4 + 8).class_if(acc > 4, "accepted_a_truncation").class_if(n > 1500, "sampled_positions"))
}

// ---------------------------------------------------------------------------
// Section df_multi: structural multi-field mutations

#[derive(Clone, Copy, Debug, Hash, PartialEq, Eq, Serialize, Deserialize)]
pub enum Val {
    Abs(i32),
    Rel(i8),
    Ext(u8, i8),
}

#[derive(Clone, Debug, Hash, PartialEq, Eq, Serialize, Deserialize)]
pub enum Mut {
    Hdr { k: u8, val: Val },
    Type { i: u16, c: u8, val: Val },
    ItemOff { i: u16, val: Val },
    DataOff { i: u16, val: Val },
    DataSize { i: u16, val: Val },
    ItemHdr { i: u16, c: u8, val: Val },
    /// size field of item i += delta, offsets of the following items follow; with `j` the size of
    /// item j is reduced by the same amount (the item area keeps its length)
    ResizeItem { i: u16, delta: i8, j: Option<u16> },
    SwapTypes { a: u16, b: u16 },
    DupType { i: u16 },
    DropType { i: u16 },
    RetypeItem { i: u16, t: u16 },
    SwapItemOffsets { a: u16, b: u16 },
    SwapDataOffsets { a: u16, b: u16 },
    DataFlip { pos: u16, xor: u8 },
    /// remove `n` bytes from the end of stored block i, offsets and size_data follow
    DataCut { i: u16, n: u8 },
    DataInsert { i: u16, bytes: Vec<u8> },
    DropItemOffset { i: u16 },
    DropDataOffset { i: u16 },
    Truncate { n: u16 },
    Append { bytes: Vec<u8> },
}

fn val() -> BoxedStrategy<Val> {
    prop_oneof![
        3 => prop_oneof![Just(0), Just(1), Just(-1), Just(4), Just(-4), Just(i32::MIN), Just(i32::MAX), Just(i32::MIN + 1), Just(0x10000), Just(0xffff)].prop_map(Val::Abs),
        1 => any::<i32>().prop_map(Val::Abs),
        1 => (-40i32..200).prop_map(Val::Abs),
        3 => (-12i8..=12).prop_map(Val::Rel),
        3 => (any::<u8>(), -4i8..=4).prop_map(|(k, d)| Val::Ext(k, d)),
    ]
    .boxed()
}

fn mutation() -> BoxedStrategy<Mut> {
    let i = || any::<u16>();
    prop_oneof![
        3 => (3u8..8, val()).prop_map(|(k, val)| Mut::Hdr { k, val }),
        3 => (i(), 0u8..3, val()).prop_map(|(i, c, val)| Mut::Type { i, c, val }),
        2 => (i(), val()).prop_map(|(i, val)| Mut::ItemOff { i, val }),
        3 => (i(), val()).prop_map(|(i, val)| Mut::DataOff { i, val }),
        3 => (i(), val()).prop_map(|(i, val)| Mut::DataSize { i, val }),
        3 => (i(), 0u8..2, val()).prop_map(|(i, c, val)| Mut::ItemHdr { i, c, val }),
        5 => (i(), -12i8..=12, proptest::option::weighted(0.6, i())).prop_map(|(i, delta, j)| Mut::ResizeItem { i, delta, j }),
        1 => (i(), i()).prop_map(|(a, b)| Mut::SwapTypes { a, b }),
        1 => i().prop_map(|i| Mut::DupType { i }),
        1 => i().prop_map(|i| Mut::DropType { i }),
        2 => (i(), type_id()).prop_map(|(i, t)| Mut::RetypeItem { i, t }),
        1 => (i(), i()).prop_map(|(a, b)| Mut::SwapItemOffsets { a, b }),
        2 => (i(), i()).prop_map(|(a, b)| Mut::SwapDataOffsets { a, b }),
        5 => (i(), 1u8..=255).prop_map(|(pos, xor)| Mut::DataFlip { pos, xor }),
        3 => (i(), 1u8..12).prop_map(|(i, n)| Mut::DataCut { i, n }),
        2 => (i(), proptest::collection::vec(any::<u8>(), 1..6)).prop_map(|(i, bytes)| Mut::DataInsert { i, bytes }),
        1 => i().prop_map(|i| Mut::DropItemOffset { i }),
        1 => i().prop_map(|i| Mut::DropDataOffset { i }),
        1 => (1u16..40).prop_map(|n| Mut::Truncate { n }),
        1 => proptest::collection::vec(any::<u8>(), 1..9).prop_map(|bytes| Mut::Append { bytes }),
    ]
    .boxed()
}

#[derive(Clone, Debug, Hash, Serialize, Deserialize)]
pub struct MultiCase {
    pub model: Model,
    pub muts: Vec<Mut>,
    /// 0: leave the header as it is, 1: recompute size/swaplen from the header counts,
    /// 2: recompute counts, area sizes, size and swaplen from the actual parts
    pub fix: u8,
    pub as_map: bool,
}

fn resolve(v: Val, orig: i32, ext: &[i64]) -> i32 {
    match v {
        Val::Abs(a) => a,
        Val::Rel(d) => orig.wrapping_add(d as i32),
        Val::Ext(k, d) => {
            let e = ext[(k as usize * ext.len()) >> 8];
            (e + d as i64).clamp(i32::MIN as i64, i32::MAX as i64) as i32
        }
    }
}

fn apply(img: &mut Image, mu: &Mut, cut: &mut usize) {
    let ext = img.extents();
    let setf = |img: &mut Image, f: Field, val: Val| {
        let o = img.get(f);
        let mut v = resolve(val, o, &ext);
        if let Field::DataSize(_) = f {
            if v as i64 > MAX_GEN_UNCOMP {
                v = MAX_GEN_UNCOMP as i32;
            }
        }
        img.set(f, v);
    };
    let (nt, ni, nd) = (img.types.len(), img.item_pos.len().min(img.item_offsets.len()), img.data_offsets.len());
    match mu {
        Mut::Hdr { k, val } => setf(img, Field::Hdr(*k as usize % 8), *val),
        Mut::Type { i, c, val } if nt > 0 => setf(img, Field::Type(pick(*i, nt), *c as usize % 3), *val),
        Mut::ItemOff { i, val } if !img.item_offsets.is_empty() => setf(img, Field::ItemOff(pick(*i, img.item_offsets.len())), *val),
        Mut::DataOff { i, val } if nd > 0 => setf(img, Field::DataOff(pick(*i, nd)), *val),
        Mut::DataSize { i, val } if img.data_sizes.as_ref().map(|s| !s.is_empty()).unwrap_or(false) => {
            let n = img.data_sizes.as_ref().unwrap().len();
            setf(img, Field::DataSize(pick(*i, n)), *val)
        }
        Mut::ItemHdr { i, c, val } if !img.item_pos.is_empty() => setf(img, Field::ItemHdr(pick(*i, img.item_pos.len()), *c as usize % 2), *val),
        Mut::ResizeItem { i, delta, j } if ni > 0 => {
            let a = pick(*i, ni);
            let d = *delta as i32;
            img.set(Field::ItemHdr(a, 1), img.get(Field::ItemHdr(a, 1)).wrapping_add(d));
            let b = j.map(|j| pick(j, ni));
            let end = match b {
                Some(b) if b > a => b,
                Some(_) => a, // cannot compensate in an earlier item: size only
                None => ni - 1,
            };
            for k in a + 1..=end {
                img.item_offsets[k] = img.item_offsets[k].wrapping_add(d);
            }
            if let Some(b) = b {
                if b > a {
                    img.set(Field::ItemHdr(b, 1), img.get(Field::ItemHdr(b, 1)).wrapping_sub(d));
                    // keep the header of b where the offset table now says it is
                    let (src, dst) = (img.item_pos[b], img.item_pos[b] as i64 + d as i64);
                    if dst >= 0 && dst as usize + 8 <= img.items.len() {
                        let h: [u8; 8] = img.items[src..src + 8].try_into().unwrap();
                        img.items[dst as usize..dst as usize + 8].copy_from_slice(&h);
                        img.item_pos[b] = dst as usize;
                    }
                }
            }
        }
        Mut::SwapTypes { a, b } if nt > 1 => {
            let (a, b) = (pick(*a, nt), pick(*b, nt));
            let (ta, tb) = (img.types[a][0], img.types[b][0]);
            img.types[a][0] = tb;
            img.types[b][0] = ta;
        }
        Mut::DupType { i } if nt > 0 => {
            let t = img.types[pick(*i, nt)];
            img.types.push(t);
        }
        Mut::DropType { i } if nt > 0 => {
            img.types.remove(pick(*i, nt));
        }
        Mut::RetypeItem { i, t } if !img.item_pos.is_empty() => {
            let a = pick(*i, img.item_pos.len());
            let w = img.get(Field::ItemHdr(a, 0));
            img.set(Field::ItemHdr(a, 0), ((*t as u32) << 16 | (w as u32 & 0xffff)) as i32);
        }
        Mut::SwapItemOffsets { a, b } if img.item_offsets.len() > 1 => {
            let n = img.item_offsets.len();
            img.item_offsets.swap(pick(*a, n), pick(*b, n));
        }
        Mut::SwapDataOffsets { a, b } if nd > 1 => img.data_offsets.swap(pick(*a, nd), pick(*b, nd)),
        Mut::DataFlip { pos, xor } if !img.data.is_empty() => {
            let p = pick(*pos, img.data.len());
            img.data[p] ^= xor;
        }
        Mut::DataCut { i, n } if nd > 0 => {
            let a = pick(*i, nd);
            let start = img.data_offsets[a].max(0) as usize;
            let end = if a + 1 < nd { img.data_offsets[a + 1].max(0) as usize } else { img.data.len() };
            if start <= end && end <= img.data.len() {
                let n = (*n as usize).min(end - start);
                img.data.drain(end - n..end);
                for k in a + 1..nd {
                    img.data_offsets[k] = img.data_offsets[k].wrapping_sub(n as i32);
                }
            }
        }
        Mut::DataInsert { i, bytes } if nd > 0 => {
            let a = pick(*i, nd);
            let end = if a + 1 < nd { img.data_offsets[a + 1].max(0) as usize } else { img.data.len() };
            if end <= img.data.len() {
                for (k, b) in bytes.iter().enumerate() {
                    img.data.insert(end + k, *b);
                }
                for k in a + 1..nd {
                    img.data_offsets[k] = img.data_offsets[k].wrapping_add(bytes.len() as i32);
                }
            }
        }
        Mut::DropItemOffset { i } if !img.item_offsets.is_empty() => {
            let n = img.item_offsets.len();
            img.item_offsets.remove(pick(*i, n));
        }
        Mut::DropDataOffset { i } if nd > 0 => {
            img.data_offsets.remove(pick(*i, nd));
        }
        Mut::Truncate { n } => *cut += *n as usize,
        Mut::Append { bytes } => img.trailer.extend_from_slice(bytes),
        _ => {}
    }
}

fn check_multi(c: &MultiCase, known: Known) -> PResult {
    let m = c.model.grouped();
    let mut img = Image::build(&m, &blocks_of(&m));
    let mut cut = 0usize;
    for mu in &c.muts {
        apply(&mut img, mu, &mut cut);
    }
    match c.fix {
        1 => drop(img.fix_size_fields(m.crude)),
        2 => drop(img.fix_all(m.crude)),
        _ => {}
    }
    let mut bytes = img.bytes();
    let keep = bytes.len().saturating_sub(cut);
    bytes.truncate(keep);
    let mut t = Tally::new();
    let mut st = EnumStats { files: 0, accepted: 0, skipped_known: 0 };
    let class = known_class(&bytes);
    run_file(&bytes, if c.as_map { 2 } else { 0 }, known, &mut t, &mut st, || "mutated file".to_string())?;
    let data_ok = t.get("data:ok").copied().unwrap_or(0);
    let data_err = t.iter().filter(|(k, _)| k.starts_with("data:") && *k != "data:ok").map(|(_, v)| *v).sum::<u64>();
    let acc = st.accepted > 0;
    let unaligned_pad = m.items.iter().any(|i| i.pad % 4 != 0);
    finish_enum(t, &st);
    Ok(Outcome::nt(acc && (!c.muts.is_empty() || unaligned_pad))
        .class_if(acc, "accepted")
        .class_if(acc && data_err > 0, "accepted_with_failing_data_block")
        .class_if(acc && data_ok > 0, "accepted_with_readable_data_block")
        .class_if(class == Some(K_UNALIGNED), "class_unaligned_item_size")
        .class_if(class == Some(K_START_OVERFLOW), "class_type_start_overflow")
        .class_if(st.skipped_known > 0, "skipped_known")
        .class_if(unaligned_pad, "model_has_unaligned_item"))
}

// ---------------------------------------------------------------------------
// Section random_bytes

#[derive(Clone, Debug, Hash, Serialize, Deserialize)]
pub struct RandomCase {
    /// 0: raw bytes, 1: bytes after a valid magic+version, 2: consistent header + random body
    pub kind: u8,
    pub version: u8,
    pub counts: [u8; 5],
    pub body: Vec<u8>,
}

fn random_file(c: &RandomCase) -> Vec<u8> {
    let mut out = Vec::new();
    match c.kind {
        0 => out.extend_from_slice(&c.body),
        1 => {
            out.extend_from_slice(b"DATA");
            out.extend_from_slice(&(if c.version == 3 { 3i32 } else { 4 }).to_le_bytes());
            out.extend_from_slice(&c.body);
        }
        _ => {
            let v = if c.version == 3 { 3 } else { 4 };
            let mut hdr = [v, 0, 0, (c.counts[0] % 4) as i32, (c.counts[1] % 6) as i32, (c.counts[2] % 4) as i32, 4 * (c.counts[3] % 24) as i32, (c.counts[4] % 48) as i32];
            let total = implied_total(&hdr);
            hdr[H_SIZE] = (total - 16) as i32;
            hdr[H_SWAPLEN] = hdr[H_SIZE] - hdr[H_SIZE_DATA];
            out.extend_from_slice(b"DATA");
            for w in hdr {
                out.extend_from_slice(&w.to_le_bytes());
            }
            // body: small little-endian words, then padded with zeros to the implied size
            for b in &c.body {
                let w: i32 = if *b >= 0xf0 { -1 } else { (*b % 24) as i32 };
                out.extend_from_slice(&w.to_le_bytes());
            }
            if out.len() < total as usize {
                out.resize(total as usize, 0);
            }
        }
    }
    out
}

fn check_random(c: &RandomCase, known: Known) -> PResult {
    let bytes = random_file(c);
    let mut t = Tally::new();
    let mut st = EnumStats { files: 0, accepted: 0, skipped_known: 0 };
    run_file(&bytes, 2, known, &mut t, &mut st, || "random file".to_string())?;
    let past_header = !t.contains_key("open:WrongMagic") && !t.contains_key("open:UnsupportedVersion") && !t.contains_key("open:TooShortHeader") && !t.contains_key("open:TooShortHeaderVersion") && !t.contains_key("open:MalformedHeader");
    let acc = st.accepted > 0;
    finish_enum(t, &st);
    Ok(Outcome::nt(past_header).class_if(acc, "accepted").class_if(past_header, "got_past_header_checks"))
}

// ---------------------------------------------------------------------------
// Map model and writer (doc/map.md)

#[derive(Clone, Debug, Hash, PartialEq, Eq, Serialize, Deserialize)]
pub struct InfoM {
    pub author: Option<Vec<u8>>,
    pub mapversion: Option<Vec<u8>>,
    pub credits: Option<Vec<u8>>,
    pub license: Option<Vec<u8>>,
    /// None: item without the settings field; Some(None): field = -1
    pub settings: Option<Option<Vec<Vec<u8>>>>,
}

#[derive(Clone, Debug, Hash, PartialEq, Eq, Serialize, Deserialize)]
pub struct ImageM {
    pub version: u8,
    pub w: u8,
    pub h: u8,
    pub external: bool,
    pub name: Vec<u8>,
}

#[derive(Clone, Debug, Hash, PartialEq, Eq, Serialize, Deserialize)]
pub struct EnvM {
    pub version: u8,
    pub channels: u8,
    pub num_points: u8,
}

#[derive(Clone, Debug, Hash, PartialEq, Eq, Serialize, Deserialize)]
pub enum LayerM {
    /// kind 0 tiles, 1 game, 2 tele, 3 speedup, 4 front, 5 switch, 6 tune
    Tiles { kind: u8, version: u8, w: u8, h: u8, color: [u8; 4], env: Option<u16>, env_off: i32, image: Option<u16>, seed: u8, name: Vec<u8>, detail: bool, ddnet_ext: bool, junk_version: i32 },
    Quads { version: u8, num: u8, image: Option<u16>, name: Vec<u8>, detail: bool },
    Sounds { legacy: bool, num: u8, sound: Option<u16>, name: Vec<u8> },
}

#[derive(Clone, Debug, Hash, PartialEq, Eq, Serialize, Deserialize)]
pub struct GroupM {
    pub version: u8,
    pub offs: [i32; 4],
    pub clip: Option<[i32; 4]>,
    pub name: Vec<u8>,
    pub layers: Vec<LayerM>,
}

#[derive(Clone, Debug, Hash, PartialEq, Eq, Serialize, Deserialize)]
pub struct MapM {
    pub df_version: u8,
    pub comp: u8,
    pub info: Option<InfoM>,
    pub images: Vec<ImageM>,
    pub envelopes: Vec<EnvM>,
    pub groups: Vec<GroupM>,
    /// the game group: index among the groups, dimensions, which physics layers besides "game"
    pub game_at: u16,
    pub game_dims: (u8, u8),
    pub game_version: u8,
    pub physics: Vec<u8>,
    pub sounds: u8,
    pub extra: Vec<MItem>,
}

#[derive(Clone, Debug, PartialEq)]
pub enum ExpLayer {
    Tiles { kind: u8, w: u32, h: u32, data: usize, ext: Option<usize>, image: Option<usize>, env: Option<(usize, i32)>, color: [u8; 4], name: [u8; 12], detail: bool },
    Quads { num: usize, data: usize, image: Option<usize>, name: [u8; 12], detail: bool },
    Sounds { num: usize, data: usize, sound: Option<usize>, legacy: bool, name: [u8; 12] },
}

#[derive(Clone, Debug, PartialEq)]
pub struct ExpGroup {
    pub offs: [i32; 4],
    pub layers: std::ops::Range<usize>,
    pub clip: Option<[i32; 4]>,
    pub name: [u8; 12],
}

#[derive(Clone, Debug, Default)]
pub struct Expect {
    pub info: Option<[Option<usize>; 5]>,
    pub images: Vec<(u32, u32, usize, Option<usize>)>,
    pub groups: Vec<ExpGroup>,
    pub layers: Vec<ExpLayer>,
    pub game_group: usize,
    pub strings: Vec<(usize, Vec<u8>)>,
    pub settings: Vec<(usize, Vec<Vec<u8>>)>,
    pub tiles: Vec<(usize, usize)>, // (data index, bytes per tile)
    pub starts: [usize; 8],
}

/// I32String of doc/map.md
fn i32_string(s: &[u8], words: usize) -> Vec<i32> {
    let mut raw = vec![0u8; words * 4];
    for (i, r) in raw.iter_mut().enumerate() {
        *r = s.get(i).copied().unwrap_or(0).wrapping_add(128);
    }
    let n = raw.len();
    raw[n - 1] = 0;
    raw.chunks(4).map(|c| i32::from_be_bytes([c[0], c[1], c[2], c[3]])).collect()
}

fn name12(s: &[u8]) -> [u8; 12] {
    let mut n = [0u8; 12];
    for (i, b) in s.iter().take(11).enumerate() {
        n[i] = *b;
    }
    n
}

fn tile_bytes(seed: u8, n: usize, per: usize) -> Vec<u8> {
    (0..n * per).map(|i| seed.wrapping_add((i * 7 % 251) as u8)).collect()
}

fn per_tile(kind: u8) -> usize {
    match kind {
        2 | 6 => 2,
        3 => 6,
        _ => 4,
    }
}

pub fn build_map(mm: &MapM) -> (Model, Expect) {
    let mut items: Vec<MItem> = Vec::new();
    let mut data: Vec<MData> = Vec::new();
    let mut ex = Expect::default();
    let comp = mm.comp;
    let add_data = |bytes: Vec<u8>, data: &mut Vec<MData>| -> usize {
        data.push(MData { bytes, comp: (comp as usize + data.len()) as u8 % 6, split: 5 });
        data.len() - 1
    };
    let cstr = |s: &[u8]| -> Vec<u8> {
        let mut v: Vec<u8> = s.iter().map(|&b| if b == 0 { b'_' } else { b }).collect();
        v.push(0);
        v
    };
    let opt = |o: Option<usize>| o.map(|v| v as i32).unwrap_or(-1);
    // counts first: item indices are absolute
    let mut groups: Vec<GroupM> = mm.groups.clone();
    let game_at = if groups.is_empty() { 0 } else { pick(mm.game_at, groups.len() + 1) };
    let (gw, gh) = (mm.game_dims.0.max(1), mm.game_dims.1.max(1));
    let gv = if mm.game_version == 2 { 2 } else { 3 };
    let mut phys: Vec<u8> = Vec::new();
    for &k in &mm.physics {
        let k = 2 + k % 5;
        if !phys.contains(&k) {
            phys.push(k);
        }
    }
    let mut game_layers: Vec<LayerM> = vec![LayerM::Tiles { kind: 1, version: gv, w: gw, h: gh, color: [255; 4], env: None, env_off: 0, image: None, seed: 1, name: b"Game".to_vec(), detail: false, ddnet_ext: !phys.is_empty(), junk_version: 0 }];
    for &k in &phys {
        game_layers.push(LayerM::Tiles { kind: k, version: gv, w: gw, h: gh, color: [255; 4], env: None, env_off: 0, image: None, seed: k, name: b"Phys".to_vec(), detail: false, ddnet_ext: true, junk_version: -7 });
    }
    groups.insert(game_at, GroupM { version: 3, offs: [0, 0, 100, 100], clip: None, name: b"Game".to_vec(), layers: game_layers });
    ex.game_group = game_at;
    let n_layers: usize = groups.iter().map(|g| g.layers.len()).sum();
    let has_env = !mm.envelopes.is_empty();
    let counts = [1, mm.info.is_some() as usize, mm.images.len(), mm.envelopes.len(), groups.len(), n_layers, has_env as usize, mm.sounds as usize];
    let mut starts = [0usize; 8];
    for t in 1..8 {
        starts[t] = starts[t - 1] + counts[t - 1];
    }
    ex.starts = starts;
    let push = |t: u16, id: usize, data: Vec<i32>, items: &mut Vec<MItem>| items.push(MItem { type_id: t, id: id as u16, data, pad: 0 });
    push(0, 0, vec![1], &mut items);
    if let Some(info) = &mm.info {
        let mut idx = [None; 5];
        for (k, s) in [&info.author, &info.mapversion, &info.credits, &info.license].into_iter().enumerate() {
            if let Some(s) = s {
                let d = add_data(cstr(s), &mut data);
                ex.strings.push((d, cstr(s)[..s.len()].to_vec()));
                idx[k] = Some(d);
            }
        }
        let mut w = vec![1, opt(idx[0]), opt(idx[1]), opt(idx[2]), opt(idx[3])];
        if let Some(set) = &info.settings {
            if let Some(lines) = set {
                let mut b = Vec::new();
                let lines: Vec<Vec<u8>> = lines.iter().map(|l| cstr(l)[..l.len()].to_vec()).collect();
                for l in &lines {
                    b.extend_from_slice(l);
                    b.push(0);
                }
                if b.is_empty() {
                    b.push(0); // "with a null byte at the very end"
                }
                let d = add_data(b, &mut data);
                let lines = if lines.is_empty() { vec![Vec::new()] } else { lines };
                ex.settings.push((d, lines));
                idx[4] = Some(d);
            }
            w.push(opt(idx[4]));
        }
        ex.info = Some(idx);
        push(1, 0, w, &mut items);
    }
    for (i, im) in mm.images.iter().enumerate() {
        let name = add_data(cstr(&im.name), &mut data);
        let (w, h) = (im.w as usize, im.h as usize);
        let d = if im.external { None } else { Some(add_data(tile_bytes(i as u8, w * h, 4), &mut data)) };
        let mut wds = vec![if im.version == 2 { 2 } else { 1 }, w as i32, h as i32, im.external as i32, name as i32, opt(d)];
        if im.version == 2 {
            wds.push(1);
        }
        ex.images.push((w as u32, h as u32, name, d));
        push(2, i, wds, &mut items);
    }
    let mut point = 0;
    let env_v3 = has_env && mm.envelopes.iter().all(|e| e.version == 3);
    for (i, e) in mm.envelopes.iter().enumerate() {
        let v = e.version.clamp(1, 3) as i32;
        let mut w = vec![v, [1, 3, 4][e.channels as usize % 3], point, e.num_points as i32];
        w.extend(i32_string(b"env", 8));
        if v >= 2 {
            w.push(0);
        }
        point += e.num_points as i32;
        push(3, i, w, &mut items);
    }
    let mut layer_items: Vec<Vec<i32>> = Vec::new();
    let mut start_layer = 0usize;
    for (gi, g) in groups.iter().enumerate() {
        let v = g.version.clamp(1, 3) as i32;
        let mut w = vec![v, g.offs[0], g.offs[1], g.offs[2], g.offs[3], start_layer as i32, g.layers.len() as i32];
        if v >= 2 {
            match g.clip {
                Some(c) => w.extend_from_slice(&[1, c[0], c[1], c[2], c[3]]),
                None => w.extend_from_slice(&[0, 3, 4, 5, 6]),
            }
        }
        if v >= 3 {
            w.extend(i32_string(&g.name, 3));
        }
        ex.groups.push(ExpGroup {
            offs: g.offs,
            layers: starts[5] + start_layer..starts[5] + start_layer + g.layers.len(),
            clip: if v >= 2 { g.clip } else { None },
            name: if v >= 3 { name12(&g.name) } else { [0; 12] },
        });
        push(4, gi, w, &mut items);
        for l in &g.layers {
            match l {
                LayerM::Tiles { kind, version, w, h, color, env, env_off, image, seed, name, detail, ddnet_ext, junk_version } => {
                    let (w, h) = ((*w).max(1) as usize, (*h).max(1) as usize);
                    let v = if *version == 2 { 2 } else { 3 };
                    let image = image.and_then(|i| if mm.images.is_empty() { None } else { Some(pick(i, mm.images.len())) });
                    let env = env.and_then(|i| if mm.envelopes.is_empty() { None } else { Some(pick(i, mm.envelopes.len())) });
                    // vanilla-compatible tiles (type Tile); for special layers they are zeroes
                    let plain = *kind <= 1;
                    let main = add_data(if plain { tile_bytes(*seed, w * h, 4) } else { vec![0; w * h * 4] }, &mut data);
                    ex.tiles.push((main, 4));
                    let ext = if plain {
                        None
                    } else {
                        let d = add_data(tile_bytes(*seed, w * h, per_tile(*kind)), &mut data);
                        ex.tiles.push((d, per_tile(*kind)));
                        Some(d)
                    };
                    let tflags = [0, 1, 2, 4, 8, 16, 32][*kind as usize];
                    let mut wds = vec![*junk_version, 2, *detail as i32, v, w as i32, h as i32, tflags, color[0] as i32, color[1] as i32, color[2] as i32, color[3] as i32, opt(env), *env_off, opt(image), main as i32];
                    if v >= 3 {
                        wds.extend(i32_string(name, 3));
                    }
                    if *ddnet_ext || ext.is_some() {
                        for k in 2..=6u8 {
                            wds.push(if k == *kind { opt(ext) } else { -1 });
                        }
                    }
                    ex.layers.push(ExpLayer::Tiles {
                        kind: *kind, w: w as u32, h: h as u32, data: main, ext,
                        image: image.map(|i| starts[2] + i),
                        env: env.map(|i| (starts[3] + i, *env_off)),
                        color: *color,
                        name: if v >= 3 { name12(name) } else { [0; 12] },
                        detail: *detail,
                    });
                    layer_items.push(wds);
                }
                LayerM::Quads { version, num, image, name, detail } => {
                    let v = if *version == 1 { 1 } else { 2 };
                    let image = image.and_then(|i| if mm.images.is_empty() { None } else { Some(pick(i, mm.images.len())) });
                    let d = add_data(tile_bytes(*num, *num as usize, 152), &mut data);
                    let mut wds = vec![0x55aa, 3, *detail as i32, v, *num as i32, d as i32, opt(image)];
                    if v >= 2 {
                        wds.extend(i32_string(name, 3));
                    }
                    ex.layers.push(ExpLayer::Quads { num: *num as usize, data: d, image: image.map(|i| starts[2] + i), name: if v >= 2 { name12(name) } else { [0; 12] }, detail: *detail });
                    layer_items.push(wds);
                }
                LayerM::Sounds { legacy, num, sound, name } => {
                    let sound = sound.and_then(|i| if mm.sounds == 0 { None } else { Some(pick(i, mm.sounds as usize)) });
                    let d = add_data(tile_bytes(*num, *num as usize, if *legacy { 36 } else { 52 }), &mut data);
                    let mut wds = vec![0, if *legacy { 9 } else { 10 }, 0, if *legacy { 1 } else { 2 }, *num as i32, d as i32, opt(sound)];
                    wds.extend(i32_string(name, 3));
                    ex.layers.push(ExpLayer::Sounds { num: *num as usize, data: d, sound: sound.map(|i| starts[7] + i), legacy: *legacy, name: name12(name) });
                    layer_items.push(wds);
                }
            }
        }
        start_layer += g.layers.len();
    }
    for (i, w) in layer_items.into_iter().enumerate() {
        push(5, i, w, &mut items);
    }
    if has_env {
        let per = if env_v3 { 22 } else { 6 };
        push(6, 0, (0..point as usize * per).map(|i| i as i32).collect(), &mut items);
    }
    for i in 0..mm.sounds as usize {
        let name = add_data(cstr(b"snd"), &mut data);
        let d = add_data(tile_bytes(i as u8, 9, 1), &mut data);
        push(7, i, vec![1, 0, name as i32, d as i32, 9], &mut items);
    }
    for e in &mm.extra {
        let mut e = e.clone();
        e.type_id = e.type_id.max(8);
        items.push(e);
    }
    let model = Model { version: mm.df_version, crude: false, reversed_magic: false, items, data }.normalized();
    (model, ex)
}

fn short_name() -> BoxedStrategy<Vec<u8>> {
    proptest::collection::vec(prop_oneof![4 => 0x20u8..0x7f, 1 => 0x80u8..=0xff], 0..=11).boxed()
}

fn layer_m() -> BoxedStrategy<LayerM> {
    let idx = || proptest::option::weighted(0.5, any::<u16>());
    prop_oneof![
        4 => ((2u8..=3, 1u8..5, 1u8..5, any::<[u8; 4]>(), idx(), -3i32..3), (idx(), any::<u8>(), short_name(), any::<bool>(), any::<bool>(), word()))
            .prop_map(|((version, w, h, color, env, env_off), (image, seed, name, detail, ddnet_ext, junk_version))| LayerM::Tiles { kind: 0, version, w, h, color, env, env_off, image, seed, name, detail, ddnet_ext, junk_version }),
        2 => (1u8..=2, 0u8..3, idx(), short_name(), any::<bool>()).prop_map(|(version, num, image, name, detail)| LayerM::Quads { version, num, image, name, detail }),
        1 => (any::<bool>(), 0u8..3, idx(), short_name()).prop_map(|(legacy, num, sound, name)| LayerM::Sounds { legacy, num, sound, name }),
    ]
    .boxed()
}

fn map_m(small: bool) -> BoxedStrategy<MapM> {
    let text = || proptest::option::weighted(0.5, proptest::collection::vec(0x20u8..0x7f, 0..12));
    let info = proptest::option::weighted(
        0.8,
        (text(), text(), text(), text(), proptest::option::weighted(0.7, proptest::option::weighted(0.7, proptest::collection::vec(proptest::collection::vec(0x20u8..0x7f, 0..10), 0..4))))
            .prop_map(|(author, mapversion, credits, license, settings)| InfoM { author, mapversion, credits, license, settings }),
    );
    let image = (1u8..=2, 0u8..4, 0u8..4, any::<bool>(), proptest::collection::vec(prop_oneof![8 => 0x61u8..0x7b, 1 => Just(b'/'), 1 => Just(b'\\')], 0..8))
        .prop_map(|(version, w, h, external, name)| ImageM { version, w, h, external, name });
    let env = (1u8..=3, 0u8..3, 0u8..4).prop_map(|(version, channels, num_points)| EnvM { version, channels, num_points });
    let group = (1u8..=3, [word(), word(), word(), word()], proptest::option::weighted(0.4, [word(), word(), word(), word()]), short_name(), proptest::collection::vec(layer_m(), 0..if small { 3 } else { 5 }))
        .prop_map(|(version, offs, clip, name, layers)| GroupM { version, offs, clip, name, layers });
    let n = if small { 2 } else { 4 };
    (
        (prop_oneof![Just(3u8), Just(4u8)], 0u8..6, info, proptest::collection::vec(image, 0..n), proptest::collection::vec(env, 0..n)),
        (proptest::collection::vec(group, 0..n), any::<u16>(), (1u8..5, 1u8..5), 2u8..=3, proptest::collection::vec(0u8..5, 0..6), 0u8..3, proptest::collection::vec(item(4, false), 0..3)),
    )
        .prop_map(|((df_version, comp, info, images, envelopes), (groups, game_at, game_dims, game_version, physics, sounds, extra))| MapM {
            df_version, comp, info, images, envelopes, groups, game_at, game_dims, game_version, physics, sounds, extra,
        })
        .boxed()
}

// ---------------------------------------------------------------------------
// Section map_wellformed

fn merr<T, E: std::fmt::Debug>(what: &str, r: Result<T, E>) -> Result<T, String> {
    r.map_err(|e| format!("{} failed on a well-formed map: {:?}", what, e))
}

fn check_map_wellformed(mm: &MapM) -> PResult {
    use map::reader::{LayerTilemapType as T, LayerType};
    let (model, ex) = build_map(mm);
    let bytes = write_model(&model);
    let pre = preparse(&bytes);
    let mut t = Tally::new();
    set_fuel(4_000_000);
    let r = merr("open", guard(|| open_df(&bytes, 0)).map_err(|p| p.to_string())?)?;
    // totality of the complete traversal first
    let _ = take_range_err();
    let mut m = guard(|| traverse_map(r, &pre, true, &mut t)).map_err(|p| format!("map traversal: {}", p))?;
    if let Some(e) = take_range_err() {
        return Err(format!("well-formed map: accessor handed out an index outside the range it refers to: {}", e));
    }
    unlimited_fuel();
    // read-back against doc/map.md
    ensure_eq!(merr("version", m.version())?, 1, "version()");
    merr("check_version", m.check_version())?;
    match (&ex.info, m.info()) {
        (None, Err(map::format::Error::MissingInfo)) => {}
        (None, other) => return Err(format!("info() without an info item: {:?}", other.map(|_| ()))),
        (Some(idx), got) => {
            let got = merr("info", got)?;
            ensure_eq!([got.author, got.version, got.credits, got.license, got.settings], *idx, "info() indices");
        }
    }
    for (d, want) in &ex.strings {
        ensure_eq!(&merr("string", m.string(*d))?, want, "string({})", d);
    }
    for (d, want) in &ex.settings {
        let s = merr("settings", m.settings(*d))?;
        let got: Vec<Vec<u8>> = s.iter().map(|l| l.to_vec()).collect();
        ensure_eq!(&got, want, "settings({}) lines", d);
    }
    let images = m.reader.item_type_indices(map::format::MAP_ITEMTYPE_IMAGE);
    ensure_eq!(images.len(), ex.images.len(), "number of image items");
    for (k, i) in images.enumerate() {
        let img = merr("image", m.image(i))?;
        ensure_eq!((img.width, img.height, img.name, img.data), ex.images[k], "image({})", i);
        let want_name = &model.data[img.name].bytes;
        let legal = !want_name[..want_name.len() - 1].iter().any(|&b| b == b'/' || b == b'\\');
        match m.image_name(img.name) {
            Ok(n) => {
                ensure!(legal, "image_name accepted a name with a path separator");
                ensure_eq!(&n[..], &want_name[..want_name.len() - 1], "image_name({})", img.name);
            }
            Err(e) => ensure!(!legal, "image_name({}) failed: {:?}", img.name, e),
        }
        if let Some(d) = img.data {
            ensure_eq!(merr("image_data", m.image_data(d))?, model.data[d].bytes, "image_data({})", d);
        }
    }
    let gi = m.group_indices();
    ensure_eq!(gi.clone(), ex.starts[4]..ex.starts[4] + ex.groups.len(), "group_indices()");
    for (k, g) in gi.enumerate() {
        let got = merr("group", m.group(g))?;
        let want = &ex.groups[k];
        ensure_eq!([got.offset_x, got.offset_y, got.parallax_x, got.parallax_y], want.offs, "group({}) offsets/parallax", g);
        ensure_eq!(got.layer_indices, want.layers, "group({}) layer_indices", g);
        ensure_eq!(got.clipping.map(|c| [c.x, c.y, c.width, c.height]), want.clip, "group({}) clipping", g);
        ensure_eq!(got.name, want.name, "group({}) name", g);
        for l in want.layers.clone() {
            let layer = merr("layer", m.layer(l))?;
            match (&ex.layers[l - ex.starts[5]], layer.t) {
                (ExpLayer::Tiles { kind, w, h, data, ext, image, env, color, name, detail }, LayerType::Tilemap(tm)) => {
                    ensure_eq!((tm.width, tm.height, tm.name, layer.detail), (*w, *h, *name, *detail), "layer({}) tilemap header", l);
                    let got = match tm.type_ {
                        T::Normal(n) => {
                            ensure_eq!((n.image, n.color_env_and_offset, [n.color.red, n.color.green, n.color.blue, n.color.alpha]), (*image, *env, *color), "layer({}) tiles attributes", l);
                            (0, n.data, None)
                        }
                        T::Game(d) => (1, d, None),
                        T::RaceTeleport(d, z) => (2, z, Some(d)),
                        T::RaceSpeedup(d, z) => (3, z, Some(d)),
                        T::DdraceFront(d, z) => (4, z, Some(d)),
                        T::DdraceSwitch(d, z) => (5, z, Some(d)),
                        T::DdraceTune(d, z) => (6, z, Some(d)),
                    };
                    ensure_eq!(got, (*kind, *data, *ext), "layer({}) kind and data indices", l);
                    let tiles = merr("layer_tiles", m.layer_tiles(tm.tiles(*data)))?;
                    ensure_eq!(tiles.dim(), (*h as usize, *w as usize), "layer_tiles({}) shape", data);
                    let flat: Vec<u8> = tiles.iter().flat_map(|x| [x.index, x.flags, x.skip, x.reserved]).collect();
                    ensure_eq!(flat, model.data[*data].bytes, "layer_tiles({}) contents", data);
                    if let Some(e) = ext {
                        let want = &model.data[*e].bytes;
                        let flat: Vec<u8> = match kind {
                            2 => merr("tele_layer_tiles", m.tele_layer_tiles(tm.tiles(*e)))?.iter().flat_map(|x| [x.number, x.index]).collect(),
                            3 => merr("speedup_layer_tiles", m.speedup_layer_tiles(tm.tiles(*e)))?.iter().flat_map(|x| { let a = x.angle.get().to_le_bytes(); [x.force, x.max_speed, x.index, x.padding, a[0], a[1]] }).collect(),
                            4 => merr("layer_tiles(front)", m.layer_tiles(tm.tiles(*e)))?.iter().flat_map(|x| [x.index, x.flags, x.skip, x.reserved]).collect(),
                            5 => merr("switch_layer_tiles", m.switch_layer_tiles(tm.tiles(*e)))?.iter().flat_map(|x| [x.number, x.index, x.flags, x.delay]).collect(),
                            _ => merr("tune_layer_tiles", m.tune_layer_tiles(tm.tiles(*e)))?.iter().flat_map(|x| [x.number, x.index]).collect(),
                        };
                        ensure_eq!(&flat, want, "special tiles of layer {} (kind {})", l, kind);
                    }
                }
                (ExpLayer::Quads { num, data, image, name, detail }, LayerType::Quads(q)) => {
                    ensure_eq!((q.num_quads, q.data, q.image, q.name, layer.detail), (*num, *data, *image, *name, *detail), "layer({}) quads", l);
                }
                (ExpLayer::Sounds { num, data, sound, legacy, name }, LayerType::DdraceSounds(s)) => {
                    ensure_eq!((s.num_sources, s.data, s.sound, s.legacy, s.name), (*num, *data, *sound, *legacy, *name), "layer({}) sounds", l);
                }
                (want, _) => return Err(format!("layer({}) has the wrong kind, stored {:?}", l, want)),
            }
        }
    }
    let gl = merr("game_layers", m.game_layers())?;
    let want_g = &ex.groups[ex.game_group];
    ensure_eq!(gl.group.layer_indices, want_g.layers, "game_layers().group");
    let first = want_g.layers.start - ex.starts[5];
    let mut want = [None; 7];
    let mut dims = (0, 0);
    for l in &ex.layers[first..first + want_g.layers.len()] {
        if let ExpLayer::Tiles { kind, data, ext, w, h, .. } = l {
            if *kind >= 1 {
                want[*kind as usize] = Some(ext.unwrap_or(*data));
                dims = (*w, *h);
            }
        }
    }
    ensure_eq!((gl.width, gl.height), dims, "game_layers() dimensions");
    ensure_eq!([None, Some(gl.game_raw), gl.teleport_raw, gl.speedup_raw, gl.front_raw, gl.switch_raw, gl.tune_raw], want, "game_layers() data indices");
    let kinds = ex.layers.iter().filter(|l| matches!(l, ExpLayer::Tiles { kind, .. } if *kind >= 2)).count();
    merge_tally(t);
    Ok(Outcome::nt(ex.groups.len() >= 2 && ex.layers.len() >= 3)
        .class_if(model.version == 4, "v4")
        .class_if(kinds >= 2, "two_or_more_ddnet_physics_layers")
        .class_if(ex.info.map(|i| i[4].is_some()).unwrap_or(false), "has_settings")
        .class_if(!ex.images.is_empty(), "has_images")
        .class_if(ex.layers.iter().any(|l| matches!(l, ExpLayer::Quads { .. })), "has_quads")
        .class_if(ex.layers.iter().any(|l| matches!(l, ExpLayer::Sounds { .. })), "has_sounds_layer"))
}

// ---------------------------------------------------------------------------
// Section map_single_word: every word of every map item x boundary values; every item length

fn map_values(orig: i32, counts: &[i64]) -> Vec<i32> {
    let mut v: Vec<i64> = vec![-2, -1, 0, 1, 2, 3, 4, 5, 8, 9, 10, 16, 32, 64, 255, 256, i32::MAX as i64, i32::MIN as i64, i32::MAX as i64 - 1];
    for &c in counts {
        v.extend_from_slice(&[c - 1, c, c + 1]);
    }
    v.push(orig as i64 + 1);
    v.push(orig as i64 - 1);
    let mut v: Vec<i32> = v.into_iter().filter(|&x| x >= i32::MIN as i64 && x <= i32::MAX as i64 && x != orig as i64).map(|x| x as i32).collect();
    v.sort();
    v.dedup();
    v
}

fn check_map_single_word(mm: &MapM, known: Known) -> PResult {
    let (model, ex) = build_map(mm);
    let blocks = blocks_of(&model);
    let img = Image::build(&model, &blocks);
    let mut t = Tally::new();
    let mut st = EnumStats { files: 0, accepted: 0, skipped_known: 0 };
    let counts: Vec<i64> = vec![model.data.len() as i64, ex.images.len() as i64, mm.envelopes.len() as i64, ex.layers.len() as i64, ex.groups.len() as i64, mm.sounds as i64];
    // the base map once with the complete cross product of accessors x data indices
    run_file(&img.bytes(), 2, known, &mut t, &mut st, || "unmodified map".to_string())?;
    let before = t.clone();
    for (i, it) in model.items.iter().enumerate() {
        if it.type_id > 7 {
            continue;
        }
        for w in 0..it.data.len() {
            for v in map_values(it.data[w], &counts) {
                let mut i2 = img.clone();
                i2.set_item_word(i, 2 + w, v);
                run_file(&i2.bytes(), 1, known, &mut t, &mut st, || format!("item {} (type {}, id {}) word {}: {} -> {}", i, it.type_id, it.id, w, it.data[w], v))?;
            }
        }
        // every shorter length, and a few longer ones
        for len in (0..it.data.len()).chain(it.data.len() + 1..it.data.len() + 4) {
            let mut m2 = model.clone();
            m2.items[i].data.resize(len, -1);
            run_file(&Image::build(&m2, &blocks).bytes(), 1, known, &mut t, &mut st, || format!("item {} (type {}, id {}) resized from {} to {} words", i, it.type_id, it.id, it.data.len(), len))?;
        }
        // the item removed
        let mut m2 = model.clone();
        m2.items.remove(i);
        run_file(&Image::build(&m2, &blocks).bytes(), 1, known, &mut t, &mut st, || format!("item {} (type {}, id {}) removed", i, it.type_id, it.id))?;
    }
    let d = |k: &str| t.get(k).copied().unwrap_or(0) - before.get(k).copied().unwrap_or(0);
    let (layer_err, group_err, gl_ok) = (d("layer:err"), d("group:err"), d("game_layers:ok"));
    let files = st.files;
    finish_enum(t, &st);
    Ok(Outcome::nt(files > 500 && layer_err > 0 && gl_ok > 0)
        .class_if(layer_err > 0, "some_layer_rejected")
        .class_if(group_err > 0, "some_group_rejected")
        .class_if(files > 3000, "over_3000_files"))
}

fn probe_model(items: Vec<MItem>) -> Model {
    Model { version: 3, crude: false, reversed_magic: false, items, data: vec![] }
}

pub fn run(ctx: &Ctx) {
    ctx.set_rule(
        "files come from an independent writer (doc/datafile.md, doc/map.md). df_wellformed: one well-formed v3/v4 file per case, \
         non-trivial = >= 2 item types and a non-empty data block; df_single_field / map_single_word: per case EVERY field (word) of \
         the base file x every boundary value is written as its own file, non-trivial = at least one corrupted file was accepted by \
         open and then fully traversed; df_truncate: every prefix; df_multi: 0..4 structural mutations, non-trivial = accepted; \
         random_bytes: non-trivial = got past the header checks. `files_opened` counts the individual files.",
    );
    ctx.assume("the oracle for accepted hostile files is totality only (value or error, no panic, fuel); read-back is demanded of well-formed files only");
    ctx.assume("well-formed files list item types in ascending type_id order (DESIGN.md C16)");
    ctx.assume("files whose header implies more than 16 MiB beyond their length, and data blocks declaring more than 16 MiB uncompressed, are not opened/read (resource bound, not the property)");
    let known = Known::from(ctx);
    // libz's deflate state (~260 KiB) and the data buffers are allocated and freed once per file;
    // keep glibc from returning that memory to the kernel every time (page faults dominate otherwise)
    unsafe {
        libc::mallopt(libc::M_TRIM_THRESHOLD, 512 << 20);
        libc::mallopt(libc::M_MMAP_THRESHOLD, 32 << 20);
    }

    ctx.probe(K_UNALIGNED, || {
        let it = |id| MItem { type_id: 0, id, data: vec![], pad: 2 };
        let bytes = write_model(&probe_model(vec![it(0), it(1)]));
        check_total(&bytes, 0, 0, Known::NONE, &mut Tally::new()).map(|_| ()).map_err(|e| format!("two items of size 2: {} [file {}]", e, crate::util::hex(&bytes)))
    });
    ctx.probe(K_START_OVERFLOW, || {
        let m = probe_model(vec![MItem { type_id: 0, id: 0, data: vec![], pad: 0 }]);
        let mut img = Image::build(&m, &[]);
        img.types[0][1] = i32::MIN;
        let bytes = img.bytes();
        check_total(&bytes, 0, 0, Known::NONE, &mut Tally::new()).map(|_| ()).map_err(|e| format!("item type with start = i32::MIN: {} [file {}]", e, crate::util::hex(&bytes)))
    });

    ctx.prop(
        "df_wellformed",
        ctx.n(12_000, 400_000),
        || (model(10, 12, 6, 200, false), prop_oneof![6 => Just(0u8), 2 => Just(1u8), 1 => Just(2u8)]).prop_map(|(model, open_mode)| WellCase { model, open_mode }),
        check_wellformed,
    );
    ctx.prop("df_single_field", ctx.n(400, 8_000), || model(4, 3, 3, 16, false), |m: &Model| check_single_field(m, known));
    ctx.prop("df_truncate", ctx.n(1_500, 25_000), || model(6, 6, 4, 60, false), |m: &Model| check_truncate(m, known));
    ctx.prop(
        "df_multi",
        ctx.n(150_000, 3_000_000),
        || {
            (model(5, 4, 4, 40, true), proptest::collection::vec(mutation(), 0..4), prop_oneof![1 => Just(0u8), 2 => Just(1u8), 4 => Just(2u8)], proptest::bool::weighted(0.2))
                .prop_map(|(model, muts, fix, as_map)| MultiCase { model, muts, fix, as_map })
        },
        |c: &MultiCase| check_multi(c, known),
    );
    ctx.prop(
        "random_bytes",
        ctx.n(60_000, 2_000_000),
        || {
            (0u8..3, prop_oneof![Just(3u8), Just(4u8)], any::<[u8; 5]>(), proptest::collection::vec(any::<u8>(), 0..120))
                .prop_map(|(kind, version, counts, body)| RandomCase { kind, version, counts, body })
        },
        |c: &RandomCase| check_random(c, known),
    );

    ctx.prop("map_wellformed", ctx.n(6_000, 120_000), || map_m(false), check_map_wellformed);
    ctx.prop("map_single_word", ctx.n(100, 1_500), || map_m(true), |m: &MapM| check_map_single_word(m, known));

    use std::sync::atomic::Ordering::Relaxed;
    ctx.extra("files_opened", json!(FILES.load(Relaxed)));
    ctx.extra("hostile_files_accepted", json!(ACCEPTED.load(Relaxed)));
    ctx.add_excluded_known(SKIPPED_KNOWN.load(Relaxed));
    ctx.extra("results", json!(*TALLY.lock().unwrap()));
    shm_cleanup();
}
