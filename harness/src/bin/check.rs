use serde_json::Value;
use vh::{Ctx, Mode, Tier, CHECKS};

fn usage() -> ! {
    eprintln!("usage: check <ID> [--tier quick|thorough] [--replay FILE]");
    std::process::exit(2);
}

fn main() {
    let args: Vec<String> = std::env::args().skip(1).collect();
    if args.is_empty() {
        usage();
    }
    if args[0] == "--emit-corpus" {
        let dir = args.get(1).cloned().unwrap_or_else(|| usage());
        for (target, _, _) in vh::FUZZ_TARGETS {
            let d = format!("{}/{}", dir, target);
            std::fs::create_dir_all(&d).expect("create corpus dir");
            for (i, bytes) in vh::seed_corpus(target).iter().enumerate() {
                std::fs::write(format!("{}/seed{:02}", d, i), bytes).expect("write seed");
            }
        }
        return;
    }
    let id = args[0].clone();
    let mut tier = match std::env::var("VERIF_TIER").ok().as_deref() {
        Some("thorough") => Tier::Thorough,
        _ => Tier::Quick,
    };
    let mut replay: Option<String> = None;
    let mut i = 1;
    while i < args.len() {
        match args[i].as_str() {
            "--tier" => {
                i += 1;
                tier = match args.get(i).map(|s| s.as_str()) {
                    Some("quick") => Tier::Quick,
                    Some("thorough") => Tier::Thorough,
                    _ => usage(),
                };
            }
            "--replay" => {
                i += 1;
                replay = Some(args.get(i).cloned().unwrap_or_else(|| usage()));
            }
            _ => usage(),
        }
        i += 1;
    }
    let seed: u64 = std::env::var("VERIF_SEED")
        .ok()
        .and_then(|s| s.trim().parse::<i64>().ok())
        .map(|v| v as u64)
        .unwrap_or(20260923);
    let Some(&(sid, f)) = CHECKS.iter().find(|(n, _)| *n == id) else {
        eprintln!("unknown property {}", id);
        std::process::exit(2);
    };
    if let Some(path) = replay {
        let text = std::fs::read_to_string(&path).unwrap_or_else(|e| {
            eprintln!("cannot read {}: {}", path, e);
            std::process::exit(2)
        });
        let v: Value = serde_json::from_str(&text).unwrap_or_else(|e| {
            eprintln!("cannot parse {}: {}", path, e);
            std::process::exit(2)
        });
        // raw fuzz artifacts: {"section": "fuzz/<target>", "case": {"hex": ".."}}
        if let Some(target) = v["section"].as_str().and_then(|s| s.strip_prefix("fuzz/")) {
            let data = vh::util::unhex(v["case"]["hex"].as_str().unwrap_or(""));
            vh::install_panic_hook();
            match vh::fuzz_entry(target, &data) {
                Ok(()) => {
                    println!("replay: fuzz target {} passes on this input", target);
                    std::process::exit(0);
                }
                Err(msg) => {
                    println!("VIOLATION property={} replay={}", sid, path);
                    println!("  section=fuzz/{} reason: {}", target, msg);
                    std::process::exit(1);
                }
            }
        }
        let ctx = Ctx::new(
            sid,
            tier,
            seed,
            Mode::Replay {
                path,
                section: v["section"].as_str().unwrap_or("").to_string(),
                case: v["case"].clone(),
            },
        );
        f(&ctx);
        std::process::exit(ctx.finish());
    }
    let ctx = Ctx::new(sid, tier, seed, Mode::Run);
    // committed regression replays first
    for (path, section, case) in ctx.committed_replays() {
        let rctx = Ctx::new(sid, tier, seed, Mode::Replay { path, section, case });
        f(&rctx);
        ctx.merge_replay_run(&rctx);
    }
    f(&ctx);
    std::process::exit(ctx.finish());
}
