//! C04 - everything the connection layer sends is well-formed; bad sends are refused.
//!
//! Generator: histories of valid API calls (netsim) with payload lengths from 0 to beyond the limits,
//! many small chunks queued without a flush, resends spanning several datagrams, connless sends,
//! disconnects with NUL-free reasons. Oracle: every datagram handed to the send callback is parsed
//! by the library's own reader (true token mode) into a collecting warning sink; chunk contents are
//! compared with the reference model of what was queued; a refused send must leave the connection
//! as live as it was (differential fair-suffix run on clones).

use crate::netsim::*;
use crate::util::Warnings;
use crate::{Ctx, Outcome, PResult};
use proptest::prelude::*;
use serde::{Deserialize, Serialize};

pub const ORACLES: [&str; 3] = ["wellformed", "panic", "refusal"];

fn fail<T>(oracle: &'static str, msg: String) -> Result<T, Failure> {
    Err(Failure { oracle, msg })
}

#[derive(Default)]
pub struct DgStats {
    pub datagrams: u64,
    pub compressed: u64,
    pub multi_chunk: u64,
    pub max_chunks: usize,
    pub big_chunk: u64,
    pub control: u64,
    pub connless: u64,
    pub close: u64,
}

/// Which vital chunk of side `s` carries sequence number `seq`? (the unique candidate among the last 1024 submitted)
fn vital_candidate<P: Proto>(sim: &Sim<P>, s: usize, seq: u16) -> Option<&Vec<u8>> {
    let base = sim.session_vital_base[s];
    let n = sim.submitted_vital[s].len();
    // chunk with index idx (0-based in the session) has sequence (idx + 1) % 1024
    let mut idx = n;
    while idx > base && n - idx < 1024 {
        idx -= 1;
        if ((idx - base + 1) % 1024) as u16 == seq {
            return sim.submitted_vital[s].get(idx);
        }
    }
    None
}

pub fn check_datagram<P: Proto>(sim: &Sim<P>, v: Variant, side: usize, d: &[u8], st: &mut DgStats) -> StepResult {
    st.datagrams += 1;
    if d.len() > 1400 {
        return fail("wellformed", format!("{}: datagram of {} bytes (> 1400) handed to the send callback", P::NAME, d.len()));
    }
    let mut buf = [0u8; 2048];
    let mut w = Warnings::new();
    let hex = |d: &[u8]| crate::util::hex(&d[..d.len().min(48)]);
    // (kind, num_chunks, chunk payload, close reason, connless payload)
    enum Parsed<'a> {
        Chunks(u8, &'a [u8]),
        Close(&'a [u8]),
        OtherControl,
        Connless(&'a [u8]),
    }
    let parsed = if P::IS7 {
        use libtw2_net::protocol7::*;
        match Packet::read(&mut w, d, &mut buf[..]) {
            Err(e) => return fail("wellformed", format!("0.7: the reader rejects a datagram the connection sent: {:?} [{}..]", e, hex(d))),
            Ok(Packet::Connless(c)) => Parsed::Connless(c.payload),
            Ok(Packet::Connected(ConnectedPacket { type_: ConnectedPacketType::Chunks(_, n, data), .. })) => Parsed::Chunks(n, data),
            Ok(Packet::Connected(ConnectedPacket { type_: ConnectedPacketType::Control(ControlPacket::Close(r)), .. })) => Parsed::Close(r),
            Ok(Packet::Connected(_)) => Parsed::OtherControl,
        }
    } else {
        use libtw2_net::protocol::*;
        let has_token = match v {
            Variant::V6Token => true,
            // a connector that has not been answered yet does not know the peer's token mode and
            // appends the TOKEN_NONE marker to everything it sends (Connect, Close)
            _ => side == 0 && sim.ready_seen == 0 && d.ends_with(&[0xff; 4]),
        };
        match Packet::read(&mut w, d, Some(has_token), &mut buf[..]) {
            Err(e) => return fail("wellformed", format!("0.6: the reader (token hint {}) rejects a datagram the connection sent: {:?} [{}..]", has_token, e, hex(d))),
            Ok(Packet::Connless(c)) => Parsed::Connless(c),
            Ok(Packet::Connected(ConnectedPacket { type_: ConnectedPacketType::Chunks(_, n, data), .. })) => Parsed::Chunks(n, data),
            Ok(Packet::Connected(ConnectedPacket { type_: ConnectedPacketType::Control(ControlPacket::Close(r)), .. })) => Parsed::Close(r),
            Ok(Packet::Connected(_)) => Parsed::OtherControl,
        }
    };
    let compressed = if P::IS7 { d[0] & 0b0001_0000 != 0 } else { d[0] & 0x80 != 0 && d[0] & 0x20 == 0 };
    if compressed {
        st.compressed += 1;
    }
    match parsed {
        Parsed::Chunks(n, data) => {
            let mut count = 0usize;
            let mut chunks: Vec<(Vec<u8>, Option<(u16, bool)>)> = Vec::new();
            let mut consumed = 0usize;
            if P::IS7 {
                let mut it = libtw2_net::protocol7::ChunksIter::new(data, n);
                while let Some(c) = it.next_warn(&mut w) {
                    crate::burn();
                    count += 1;
                    chunks.push((c.data.to_vec(), c.vital));
                }
                consumed = it.pos();
            } else {
                let mut it = libtw2_net::protocol::ChunksIter::new(data, n);
                while let Some(c) = it.next_warn(&mut w) {
                    crate::burn();
                    count += 1;
                    chunks.push((c.data.to_vec(), c.vital));
                }
                consumed = it.pos();
            }
            if count != n as usize {
                return fail("wellformed", format!("{}: header says {} chunks, datagram carries {} [{}..]", P::NAME, n, count, hex(d)));
            }
            if consumed != data.len() {
                return fail("wellformed", format!("{}: chunk iterator consumed {} of {} payload bytes", P::NAME, consumed, data.len()));
            }
            if count >= 2 {
                st.multi_chunk += 1;
            }
            st.max_chunks = st.max_chunks.max(count);
            for (cd, vital) in &chunks {
                if cd.len() >= 16 {
                    st.big_chunk += 1;
                }
                match vital {
                    Some((seq, _)) => match vital_candidate(sim, side, *seq) {
                        Some(exp) if exp == cd => {}
                        Some(exp) => {
                            return fail(
                                "wellformed",
                                format!(
                                    "{}: vital chunk with sequence {} on the wire ({} bytes {}..) differs from what was queued ({} bytes {}..)",
                                    P::NAME, seq, cd.len(), hex(cd), exp.len(), hex(exp)
                                ),
                            )
                        }
                        None => return fail("wellformed", format!("{}: vital chunk with sequence {} on the wire but no such chunk was queued", P::NAME, seq)),
                    },
                    None => {
                        if !sim.submitted_nonvital[side].contains(cd) {
                            return fail("wellformed", format!("{}: non-vital chunk on the wire that was never queued ({} bytes {}..)", P::NAME, cd.len(), hex(cd)));
                        }
                    }
                }
            }
        }
        Parsed::Close(_) => {
            st.close += 1;
            st.control += 1;
        }
        Parsed::OtherControl => st.control += 1,
        Parsed::Connless(p) => {
            st.connless += 1;
            if !sim.submitted_connless[side].contains(p) {
                return fail("wellformed", format!("{}: connless payload on the wire that was never submitted ({} bytes)", P::NAME, p.len()));
            }
        }
    }
    if !w.is_empty() {
        return fail("wellformed", format!("{}: the reader warns about a datagram the connection sent: {:?} [{}..]", P::NAME, w.0, hex(d)));
    }
    Ok(())
}

#[derive(Clone, Debug, Hash, Serialize, Deserialize)]
pub struct Case {
    pub ops: Vec<Op>,
}

/// The length set of the design: limits and beyond.
pub fn c04_len_strategy() -> BoxedStrategy<u16> {
    prop_oneof![
        4 => prop::sample::select(vec![0u16, 1, 2, 15, 16, 17, 31, 32, 63, 64, 65, 127, 128, 255, 256, 1000, 1022, 1023, 1024, 1025,
            1385, 1386, 1387, 1388, 1389, 1390, 1391, 1392, 2047, 2048, 2049, 5000]),
        3 => 0u16..1400,
        3 => 0u16..24,
    ]
    .boxed()
}

fn c04_op_strategy() -> BoxedStrategy<Op> {
    prop_oneof![
        12 => (0u8..2, any::<bool>(), c04_len_strategy(), any::<u8>()).prop_map(|(side, vital, len, fill)| Op::Send { side, vital, len, fill }),
        // many tiny chunks without a flush
        2 => (0u8..2, any::<bool>(), 0u16..3, any::<u8>(), 1usize..400).prop_map(|(side, vital, len, fill, _n)| Op::Send { side, vital, len, fill }),
        4 => (0u8..2).prop_map(|side| Op::Flush { side }),
        5 => (0u8..2).prop_map(|side| Op::Tick { side }),
        4 => (0u8..10).prop_map(|dt| Op::Advance { dt }),
        6 => (0u8..2, prop_oneof![3 => Just(0u16), 1 => any::<u16>()]).prop_map(|(dir, k)| Op::Deliver { dir, k }),
        2 => (0u8..2, any::<u16>()).prop_map(|(dir, k)| Op::Drop { dir, k }),
        1 => (0u8..2, any::<u16>()).prop_map(|(dir, k)| Op::Dup { dir, k }),
        3 => (0u8..2).prop_map(|dir| Op::DeliverAll { dir }),
        2 => (0u8..2, 0u16..1500).prop_map(|(side, len)| Op::SendConnless { side, len }),
        1 => (0u8..2, prop_oneof![Just(0u8), Just(1), Just(126), Just(127), 0u8..=127]).prop_map(|(side, reason_len)| Op::Disconnect { side, reason_len }),
        1 => Just(Op::Reset),
        1 => Just(Op::Connect),
        1 => (0u8..2, prop::bool::weighted(0.35)).prop_map(|(side, on)| Op::FailSends { side, on }),
    ]
    .boxed()
}

/// An op list in which a "many tiny chunks" block is expanded.
fn case_strategy(max_ops: usize) -> BoxedStrategy<Case> {
    (
        proptest::collection::vec(c04_op_strategy(), 0..max_ops),
        proptest::option::weighted(0.35, (0u8..2, any::<bool>(), 0u16..3, 100usize..800, any::<u16>())),
    )
        .prop_map(|(mut ops, many)| {
            let mut v = handshake_prelude();
            // bring the acceptor online too
            if let Some((side, vital, len, n, at)) = many {
                let pos = crate::pick(at, ops.len() + 1);
                let block: Vec<Op> = (0..n).map(|i| Op::Send { side, vital, len, fill: i as u8 }).collect();
                let tail = ops.split_off(pos);
                ops.extend(block);
                ops.extend(tail);
            }
            v.append(&mut ops);
            Case { ops: v }
        })
        .boxed()
}

pub struct Limits {
    pub max_len: usize,
    pub max_queued: usize,
}

fn run_case<P: Proto>(v: Variant, ops: &[Op], lim: &Limits) -> PResult {
    let mut sim: Sim<P> = Sim::new(0xC04, v == Variant::V6NoToken);
    sim.max_len = lim.max_len;
    sim.max_queued = lim.max_queued;
    sim.log_sent = true;
    let mut st = DgStats::default();
    let mut aborted = false;
    let mut refused = 0u64;
    let mut refusal_checked = 0u64;
    for (i, op) in ops.iter().enumerate() {
        // a refused send must leave the connection as live as before: differential fair suffix
        let pre = if let Op::Send { side, len, .. } = op {
            let limit = if P::IS7 { 1385 } else { 1020 };
            if *len as usize >= limit && sim.online(*side as usize & 1) && sim.alive() && refusal_checked < 3 {
                Some(sim.snapshot())
            } else {
                None
            }
        } else {
            None
        };
        let too_long_before = sim.stats.too_long;
        let r = sim.step(op).and_then(|()| {
            let sent = std::mem::take(&mut sim.sent_log);
            for dg in &sent {
                check_datagram(&sim, v, dg.side, &dg.data, &mut st)?;
            }
            Ok(())
        });
        if let Err(f) = r {
            if ORACLES.contains(&f.oracle) {
                return Err(format!("op #{} {:?}: [{}] {}", i, op, f.oracle, f.msg));
            }
            aborted = true;
            break;
        }
        if sim.stats.too_long > too_long_before {
            refused += 1;
            if let Some(mut before) = pre {
                refusal_checked += 1;
                before.log_sent = false;
                let mut after = sim.snapshot();
                after.log_sent = false;
                let rb = before.fair_suffix(40);
                let ra = after.fair_suffix(40);
                match (rb, ra) {
                    (Ok(Some(_)), Ok(None)) => {
                        return Err(format!("op #{} {:?}: [refusal] {}: before the refused send the connection drained under the fair scheduler, afterwards it does not", i, op, P::NAME));
                    }
                    (Ok(Some(_)), Err(f)) => {
                        return Err(format!("op #{} {:?}: [refusal] {}: after the refused send the fair suffix fails: [{}] {}", i, op, P::NAME, f.oracle, f.msg));
                    }
                    _ => {}
                }
            }
        }
    }
    Ok(Outcome::nt(st.multi_chunk > 0 || st.big_chunk > 0 || st.compressed > 0 || refused > 0)
        .class_if(st.compressed > 0, "compressed_datagram")
        .class_if(st.multi_chunk > 0, "multi_chunk_datagram")
        .class_if(st.max_chunks >= 11, "datagram_11_plus_chunks")
        .class_if(st.max_chunks >= 200, "datagram_200_plus_chunks")
        .class_if(refused > 0, "refused_send")
        .class_if(refusal_checked > 0, "refusal_liveness_checked")
        .class_if(sim.stats.resend_datagrams > 0, "resend_datagrams")
        .class_if(st.connless > 0, "connless")
        .class_if(st.close > 0, "close")
        .class_if(sim.stats.wrapped, "sequence_wrapped")
        .class_if(aborted, "aborted_by_other_oracle"))
}

fn check(v: Variant, c: &Case, lim: &Limits) -> PResult {
    match v {
        Variant::V6Token | Variant::V6NoToken => run_case::<P6>(v, &c.ops, lim),
        Variant::V7 => run_case::<P7>(v, &c.ops, lim),
    }
}

fn sweep_one(v: Variant, len: usize, vital: bool) -> Result<bool, String> {
    let mut ops = handshake_prelude();
    // the acceptor needs to be online to send: it is after the prelude's chunk
    for side in 0..2u8 {
        ops.push(Op::Send { side, vital, len: len as u16, fill: 5 });
        ops.push(Op::Flush { side });
        ops.push(Op::Drop { dir: side, k: 0 });
        ops.push(Op::Advance { dt: 7 });
        ops.push(Op::Tick { side });
        ops.push(Op::DeliverAll { dir: side });
        ops.push(Op::DeliverAll { dir: 1 - side });
    }
    let lim = Limits { max_len: 6000, max_queued: 1000 };
    check(v, &Case { ops }, &lim).map(|_| true)
}

pub fn run(ctx: &Ctx) {
    ctx.set_rule(
        "histories of valid API calls: send (lengths from the boundary set {0..2049, 5000} and uniform 0..1400, vital or not), blocks of \
         100..800 tiny chunks without flush, flush, tick after clock advances, deliver/drop/dup, connless sends 0..1500, disconnect with \
         NUL-free reasons 0..127, reset/connect; every datagram handed to the send callback is checked; non-trivial = a datagram with >= 2 \
         chunks or a chunk >= 16 bytes or a compressed datagram or a refused send occurred; distinct by hash of the op list. Plus a sweep \
         of a single chunk of every length (sent, flushed, lost, resent) for all variants.",
    );
    ctx.assume("oracle parses with the library's own reader (as the property states) told the true token mode");
    // canonical probes for the confirmed findings / regression tests for their fixes
    ctx.probe("v6-send-1024-panics", || sweep_one(Variant::V6Token, 1024, true).map(|_| ()));
    ctx.probe("more-than-255-chunks-queued", || {
        let mut ops = handshake_prelude();
        for i in 0..300 {
            ops.push(Op::Send { side: 0, vital: false, len: 0, fill: i as u8 });
        }
        ops.push(Op::Flush { side: 0 });
        check(Variant::V7, &Case { ops }, &Limits { max_len: 6000, max_queued: 1000 }).map(|_| ())
    });
    ctx.probe("v7-chunk-header-padding-warning", || sweep_one(Variant::V7, 16, false).map(|_| ()));
    let mut lim6 = Limits { max_len: 6000, max_queued: 1000 };
    let mut lim7 = Limits { max_len: 6000, max_queued: 1000 };
    if ctx.known_open("v6-send-1024-panics") {
        lim6.max_len = 1023;
        ctx.add_excluded_known(1);
    }
    if ctx.known_open("more-than-255-chunks-queued") {
        lim6.max_queued = 250;
        lim7.max_queued = 250;
        ctx.add_excluded_known(1);
    }
    let max_ops = ctx.sz(150, 600) as usize;
    for v in VARIANTS {
        let lim = if v == Variant::V7 { &lim7 } else { &lim6 };
        ctx.prop(&format!("calls/{}", v.name()), ctx.n(3000, 300_000), || case_strategy(max_ops), |c: &Case| check(v, c, lim));
    }
    // histories through the 1024 sequence wrap (sequence numbers on the wire are checked against the model)
    for v in VARIANTS {
        let lim = if v == Variant::V7 { &lim7 } else { &lim6 };
        ctx.prop(
            &format!("wrap/{}", v.name()),
            ctx.n(100, 8000),
            || wrap_history_strategy(1000).prop_map(|ops| Case { ops }),
            |c: &Case| check(v, c, lim),
        );
    }
    // single chunk of every length, vital and not, all variants: sent, flushed, lost, resent
    let max = ctx.sz(1500, 2100);
    let lim6max = lim6.max_len as u64;
    ctx.exhaustive(
        "single_chunk_every_length",
        (max + 1) * 2 * 3,
        |i| {
            let v = VARIANTS[(i % 3) as usize];
            let vital = (i / 3) % 2 == 1;
            let len = i / 6;
            if v != Variant::V7 && len > lim6max {
                return Ok(false);
            }
            sweep_one(v, len as usize, vital)
        },
        |i| serde_json::json!({"variant": VARIANTS[(i % 3) as usize].name(), "vital": (i / 3) % 2 == 1, "len": i / 6}),
    );
}
