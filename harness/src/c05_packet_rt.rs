//! C05 - packet encoding and decoding are mutually inverse.
//!
//! Headers: exhaustive over all bit patterns / all in-range field tuples, canonical = as defined by
//! doc/packet.md and doc/packet7.md (padding zero, duplicated 0.6 sequence bits consistent).
//! Whole packets: generated `Packet` values of every kind, written and read back (true token mode).

use crate::util::{hex, Warnings};
use crate::{ensure, ensure_eq, Ctx, Outcome, PResult};
use arrayvec::ArrayVec;
use libtw2_common::bytes::{AsBytesExt, FromBytesExt};
use libtw2_net::protocol as p6;
use libtw2_net::protocol7 as p7;
use proptest::prelude::*;
use serde::{Deserialize, Serialize};
use serde_json::json;

// ---------------------------------------------------------------------------
// Packet cases shared with C06

#[derive(Clone, Debug, Hash, Serialize, Deserialize, PartialEq)]
pub enum Ctrl {
    KeepAlive,
    Connect,
    /// 0.6 ConnectAccept; 0.7 Token
    ConnectAcceptOrToken,
    Accept,
    Close(Vec<u8>),
}

#[derive(Clone, Debug, Hash, Serialize, Deserialize, PartialEq)]
pub enum Body {
    /// arbitrary payload bytes with an arbitrary chunk count
    Raw { num_chunks: u8, family: u8, len: u16, seed: u8 },
    /// concatenation of well-formed chunks: (vital: Some((sequence, resend)), family, len, seed)
    Chunks(Vec<(Option<(u16, bool)>, u8, u16, u8)>),
}

#[derive(Clone, Debug, Hash, Serialize, Deserialize, PartialEq)]
pub enum PCase {
    Connless { family: u8, len: u16, seed: u8, token: [u8; 4], response_token: [u8; 4] },
    Control { ack: u16, token: Option<[u8; 4]>, ctrl: Ctrl, response_token: [u8; 4] },
    Chunks { ack: u16, token: Option<[u8; 4]>, request_resend: bool, body: Body },
}

/// Five content families: zeros, one repeated byte, short period, text-like, pseudo-random.
pub fn content(family: u8, len: usize, seed: u8) -> Vec<u8> {
    let mut x = (seed as u32).wrapping_mul(2654435761).wrapping_add(12345);
    (0..len)
        .map(|i| match family % 5 {
            0 => 0,
            1 => seed,
            2 => [seed, 0, seed ^ 0xff, 1][i % (1 + (seed as usize % 4))],
            3 => b"the quick brown fox jumps over the lazy dog 0123456789"[(i + seed as usize) % 54],
            _ => {
                x ^= x << 13;
                x ^= x >> 17;
                x ^= x << 5;
                x as u8
            }
        })
        .collect()
}

pub fn token_strategy() -> BoxedStrategy<[u8; 4]> {
    prop_oneof![
        4 => any::<[u8; 4]>(),
        1 => Just([0xff; 4]),
        1 => Just([0; 4]),
        1 => Just(*b"TKEN"),
        1 => Just([0, 0, 0, 1]),
    ]
    .boxed()
}

fn ctrl_strategy() -> BoxedStrategy<Ctrl> {
    let reason = prop_oneof![
        2 => proptest::collection::vec(1u8..=255, 0..=127),
        1 => proptest::collection::vec(32u8..127, 0..=127),
        1 => Just(vec![]),
        1 => (1u8..=255).prop_map(|b| vec![b; 127]),
        1 => proptest::collection::vec(1u8..=255, 3..=3),
        1 => proptest::collection::vec(prop_oneof![Just(0xffu8), Just(b'T'), 1u8..=255], 4..=8),
    ];
    prop_oneof![
        1 => Just(Ctrl::KeepAlive),
        1 => Just(Ctrl::Connect),
        1 => Just(Ctrl::ConnectAcceptOrToken),
        1 => Just(Ctrl::Accept),
        3 => reason.prop_map(Ctrl::Close),
    ]
    .boxed()
}

fn body_strategy(max_payload: usize, max_chunk: usize) -> BoxedStrategy<Body> {
    let max_payload = max_payload as u16;
    let raw_len = prop_oneof![
        3 => 0u16..64,
        3 => 0u16..=max_payload,
        2 => (0u16..4).prop_map(move |d| max_payload - d),
    ];
    let chunk_len = prop_oneof![4 => 0u16..40, 1 => 0u16..=(max_chunk.min(1023) as u16), 1 => prop_oneof![Just(15u16), Just(16), Just(17), Just(63), Just(64), Just(255), Just(256)]];
    let chunk = (proptest::option::weighted(0.6, (0u16..1024, any::<bool>())), 0u8..5, chunk_len, any::<u8>());
    prop_oneof![
        2 => (any::<u8>(), 0u8..5, raw_len, any::<u8>()).prop_map(|(num_chunks, family, len, seed)| Body::Raw { num_chunks, family, len, seed }),
        3 => proptest::collection::vec(chunk, 0..8).prop_map(Body::Chunks),
    ]
    .boxed()
}

/// Largest connectionless payload: 1400-byte datagram minus the connless header (6 bytes in 0.6, 9 in 0.7).
pub fn connless_max(is7: bool) -> u16 {
    if is7 {
        1400 - 9
    } else {
        1400 - 6
    }
}

pub fn pcase_strategy(is7: bool) -> BoxedStrategy<PCase> {
    let ack = prop_oneof![3 => 0u16..1024, 1 => Just(0u16), 1 => Just(1023u16), 1 => Just(256u16), 1 => Just(255u16)];
    let token = if is7 { token_strategy().prop_map(Some).boxed() } else { proptest::option::weighted(0.6, token_strategy()).boxed() };
    let max_payload = if is7 { 1393 } else { 1393 };
    // "payload up to the size limit": a datagram is at most 1400 bytes, the connless header takes 6 (0.6) / 9 (0.7)
    let cmax: u16 = connless_max(is7);
    let connless_len = prop_oneof![2 => 0u16..64, 2 => 0u16..=cmax, 2 => (0u16..8).prop_map(move |d| cmax - d)];
    prop_oneof![
        1 => (0u8..5, connless_len, any::<u8>(), token_strategy(), token_strategy())
            .prop_map(|(family, len, seed, token, response_token)| PCase::Connless { family, len, seed, token, response_token }),
        3 => (ack.clone(), token.clone(), ctrl_strategy(), token_strategy())
            .prop_map(|(ack, token, ctrl, response_token)| PCase::Control { ack, token, ctrl, response_token }),
        6 => (ack, token, any::<bool>(), body_strategy(max_payload, if is7 { 1390 } else { 1023 }))
            .prop_map(|(ack, token, request_resend, body)| PCase::Chunks { ack, token, request_resend, body }),
    ]
    .boxed()
}

/// The payload bytes and chunk count of a chunk body; chunks that do not fit `limit` are dropped.
pub fn body_bytes(body: &Body, limit: usize, is7: bool) -> (u8, Vec<u8>, Vec<(Option<(u16, bool)>, Vec<u8>)>) {
    match body {
        Body::Raw { num_chunks, family, len, seed } => (*num_chunks, content(*family, (*len as usize).min(limit), *seed), Vec::new()),
        Body::Chunks(list) => {
            let mut buf: ArrayVec<[u8; 2048]> = ArrayVec::new();
            let mut out = Vec::new();
            let mut n = 0u8;
            for (vital, family, len, seed) in list {
                let data = content(*family, *len as usize, *seed);
                let hdr = if vital.is_some() { 3 } else { 2 };
                if buf.len() + hdr + data.len() > limit {
                    continue;
                }
                let r = if is7 { p7::write_chunk(&data, *vital, &mut buf).map(|_| ()) } else { p6::write_chunk(&data, *vital, &mut buf).map(|_| ()) };
                r.expect("chunk fits the scratch buffer");
                out.push((*vital, data));
                n += 1;
            }
            (n, buf.to_vec(), out)
        }
    }
}

/// Renders a parsed 0.6 packet into a comparable structure.
#[derive(Debug, PartialEq, Clone)]
pub enum Seen {
    Connless(Vec<u8>, Option<([u8; 4], [u8; 4])>),
    Control { ack: u16, token: Option<[u8; 4]>, ctrl: Ctrl, response_token: Option<[u8; 4]> },
    Chunks { ack: u16, token: Option<[u8; 4]>, request_resend: bool, num_chunks: u8, payload: Vec<u8> },
}

pub fn seen6(p: &p6::Packet) -> Seen {
    match *p {
        p6::Packet::Connless(d) => Seen::Connless(d.to_vec(), None),
        p6::Packet::Connected(c) => {
            let token = c.token.map(|t| t.0);
            match c.type_ {
                p6::ConnectedPacketType::Chunks(rr, n, d) => Seen::Chunks { ack: c.ack, token, request_resend: rr, num_chunks: n, payload: d.to_vec() },
                p6::ConnectedPacketType::Control(ctrl) => Seen::Control {
                    ack: c.ack,
                    token,
                    response_token: None,
                    ctrl: match ctrl {
                        p6::ControlPacket::KeepAlive => Ctrl::KeepAlive,
                        p6::ControlPacket::Connect => Ctrl::Connect,
                        p6::ControlPacket::ConnectAccept => Ctrl::ConnectAcceptOrToken,
                        p6::ControlPacket::Accept => Ctrl::Accept,
                        p6::ControlPacket::Close(r) => Ctrl::Close(r.to_vec()),
                    },
                },
            }
        }
    }
}

pub fn seen7(p: &p7::Packet) -> Seen {
    match *p {
        p7::Packet::Connless(c) => Seen::Connless(c.payload.to_vec(), Some((c.token.0, c.response_token.0))),
        p7::Packet::Connected(c) => {
            let token = Some(c.token.0);
            match c.type_ {
                p7::ConnectedPacketType::Chunks(rr, n, d) => Seen::Chunks { ack: c.ack, token, request_resend: rr, num_chunks: n, payload: d.to_vec() },
                p7::ConnectedPacketType::Control(ctrl) => {
                    let (ctrl, rt) = match ctrl {
                        p7::ControlPacket::KeepAlive => (Ctrl::KeepAlive, None),
                        p7::ControlPacket::Connect(t) => (Ctrl::Connect, Some(t.0)),
                        p7::ControlPacket::Token(t) => (Ctrl::ConnectAcceptOrToken, Some(t.0)),
                        p7::ControlPacket::Accept => (Ctrl::Accept, None),
                        p7::ControlPacket::Close(r) => (Ctrl::Close(r.to_vec()), None),
                    };
                    Seen::Control { ack: c.ack, token, ctrl, response_token: rt }
                }
            }
        }
    }
}

/// Writes the case with the library writer. Returns (bytes, expected view, chunk list).
pub fn write_case(c: &PCase, is7: bool) -> Result<(Vec<u8>, Seen, Vec<(Option<(u16, bool)>, Vec<u8>)>), String> {
    let mut out = [0u8; 2048];
    if is7 {
        use p7::*;
        match c {
            PCase::Connless { family, len, seed, token, response_token } => {
                let payload = content(*family, *len as usize, *seed);
                let p = Packet::Connless(ConnlessPacket { payload: &payload, token: Token(*token), response_token: Token(*response_token) });
                let w = p.write(&mut out[..]).map_err(|e| format!("0.7 connless write failed: {:?}", e))?;
                Ok((w.to_vec(), Seen::Connless(payload.clone(), Some((*token, *response_token))), vec![]))
            }
            PCase::Control { ack, token, ctrl, response_token } => {
                let token = token.unwrap_or([0xff; 4]);
                // writer precondition (asserted): response tokens are never the all-ones value
                let rt = if *response_token == [0xff; 4] { [0xfe; 4] } else { *response_token };
                let cp = match ctrl {
                    Ctrl::KeepAlive => ControlPacket::KeepAlive,
                    Ctrl::Connect => ControlPacket::Connect(Token(rt)),
                    Ctrl::ConnectAcceptOrToken => ControlPacket::Token(Token(rt)),
                    Ctrl::Accept => ControlPacket::Accept,
                    Ctrl::Close(r) => ControlPacket::Close(r),
                };
                let p = Packet::Connected(ConnectedPacket { ack: *ack, token: Token(token), type_: ConnectedPacketType::Control(cp) });
                let w = p.write(&mut out[..]).map_err(|e| format!("0.7 control write failed: {:?}", e))?;
                let rt_seen = match ctrl {
                    Ctrl::Connect | Ctrl::ConnectAcceptOrToken => Some(rt),
                    _ => None,
                };
                Ok((w.to_vec(), Seen::Control { ack: *ack, token: Some(token), ctrl: ctrl.clone(), response_token: rt_seen }, vec![]))
            }
            PCase::Chunks { ack, token, request_resend, body } => {
                let token = token.unwrap_or([0xff; 4]);
                let (n, payload, chunks) = body_bytes(body, 1393, true);
                let p = Packet::Connected(ConnectedPacket { ack: *ack, token: Token(token), type_: ConnectedPacketType::Chunks(*request_resend, n, &payload) });
                let w = p.write(&mut out[..]).map_err(|e| format!("0.7 chunks write failed: {:?}", e))?;
                Ok((w.to_vec(), Seen::Chunks { ack: *ack, token: Some(token), request_resend: *request_resend, num_chunks: n, payload }, chunks))
            }
        }
    } else {
        use p6::*;
        match c {
            PCase::Connless { family, len, seed, .. } => {
                let payload = content(*family, *len as usize, *seed);
                let w = Packet::Connless(&payload).write(&mut out[..]).map_err(|e| format!("0.6 connless write failed: {:?}", e))?;
                Ok((w.to_vec(), Seen::Connless(payload.clone(), None), vec![]))
            }
            PCase::Control { ack, token, ctrl, .. } => {
                let cp = match ctrl {
                    Ctrl::KeepAlive => ControlPacket::KeepAlive,
                    Ctrl::Connect => ControlPacket::Connect,
                    Ctrl::ConnectAcceptOrToken => ControlPacket::ConnectAccept,
                    Ctrl::Accept => ControlPacket::Accept,
                    Ctrl::Close(r) => ControlPacket::Close(r),
                };
                let p = Packet::Connected(ConnectedPacket { ack: *ack, token: token.map(Token), type_: ConnectedPacketType::Control(cp) });
                let w = p.write(&mut out[..]).map_err(|e| format!("0.6 control write failed: {:?}", e))?;
                Ok((w.to_vec(), Seen::Control { ack: *ack, token: *token, ctrl: ctrl.clone(), response_token: None }, vec![]))
            }
            PCase::Chunks { ack, token, request_resend, body } => {
                let limit = if token.is_some() { 1393 } else { 1397 };
                let (n, payload, chunks) = body_bytes(body, limit, false);
                let p = Packet::Connected(ConnectedPacket { ack: *ack, token: token.map(Token), type_: ConnectedPacketType::Chunks(*request_resend, n, &payload) });
                let w = p.write(&mut out[..]).map_err(|e| format!("0.6 chunks write failed: {:?}", e))?;
                Ok((w.to_vec(), Seen::Chunks { ack: *ack, token: *token, request_resend: *request_resend, num_chunks: n, payload }, chunks))
            }
        }
    }
}

fn check_packet(c: &PCase, is7: bool) -> PResult {
    let (bytes, expect, chunks) = write_case(c, is7)?;
    ensure!(bytes.len() <= 1400, "written packet has {} bytes", bytes.len());
    let mut scratch = [0u8; 2048];
    let mut w = Warnings::new();
    let got = if is7 {
        let p = p7::Packet::read(&mut w, &bytes, &mut scratch[..]).map_err(|e| format!("0.7: reading back the written packet fails: {:?} [{}]", e, hex(&bytes[..bytes.len().min(40)])))?;
        seen7(&p)
    } else {
        let has_token = match &expect {
            Seen::Connless(..) => false,
            Seen::Control { token, .. } | Seen::Chunks { token, .. } => token.is_some(),
        };
        let p = p6::Packet::read(&mut w, &bytes, Some(has_token), &mut scratch[..]).map_err(|e| format!("0.6: reading back the written packet (token hint {}) fails: {:?} [{}]", has_token, e, hex(&bytes[..bytes.len().min(40)])))?;
        seen6(&p)
    };
    if got != expect {
        return Err(format!("read(write(p)) != p:\n wrote {:?}\n read  {:?}\n bytes [{}..]", short(&expect), short(&got), hex(&bytes[..bytes.len().min(48)])));
    }
    // the only warning permitted: a chunk packet that really has no chunks and no resend request
    let allowed_nochunks = matches!(&expect, Seen::Chunks { num_chunks: 0, request_resend: false, .. });
    let unexpected: Vec<&String> = w.0.iter().filter(|x| !(allowed_nochunks && x.as_str() == "ChunksNoChunks")).collect();
    ensure!(unexpected.is_empty(), "reading back a written packet warns {:?}: {:?} [{}..]", unexpected, short(&expect), hex(&bytes[..bytes.len().min(48)]));
    // re-iterate the chunks
    let mut nchunks = 0;
    if let Seen::Chunks { num_chunks, payload, .. } = &got {
        if !chunks.is_empty() || matches!(c, PCase::Chunks { body: Body::Chunks(_), .. }) {
            let mut cw = Warnings::new();
            let mut seen: Vec<(Option<(u16, bool)>, Vec<u8>)> = Vec::new();
            if is7 {
                let mut it = p7::ChunksIter::new(payload, *num_chunks);
                while let Some(ch) = it.next_warn(&mut cw) {
                    seen.push((ch.vital, ch.data.to_vec()));
                }
            } else {
                let mut it = p6::ChunksIter::new(payload, *num_chunks);
                while let Some(ch) = it.next_warn(&mut cw) {
                    seen.push((ch.vital, ch.data.to_vec()));
                }
            }
            ensure_eq!(seen, chunks, "chunks re-iterated from the read-back packet");
            ensure!(cw.is_empty(), "iterating the chunks of a well-formed packet warns {:?}", cw.0);
            nchunks = seen.len();
        }
    }
    let compressed = if is7 { bytes[0] & 0b0001_0000 != 0 && bytes[0] & 0b0010_0000 == 0 } else { bytes[0] & 0x80 != 0 && bytes[0] & 0x20 == 0 };
    let kind = match &expect {
        Seen::Connless(..) => "connless",
        Seen::Control { ctrl: Ctrl::Close(r), .. } if !r.is_empty() => "close_with_reason",
        Seen::Control { .. } => "control",
        Seen::Chunks { .. } => "chunks",
    };
    let nontrivial = compressed || nchunks >= 2 || kind == "close_with_reason";
    Ok(Outcome::nt(nontrivial)
        .class(kind)
        .class_if(compressed, "compressed")
        .class_if(kind == "chunks" && !compressed, "chunks_uncompressed")
        .class_if(nchunks >= 2, "two_plus_chunks")
        .class_if(bytes.len() >= 1390, "near_max_size")
        .class_if(matches!(&expect, Seen::Control { token: Some(_), .. } | Seen::Chunks { token: Some(_), .. }), "with_token")
        .class_if(matches!(&expect, Seen::Control { token: None, .. } | Seen::Chunks { token: None, .. }), "without_token"))
}

fn short(s: &Seen) -> String {
    let t = format!("{:?}", s);
    if t.len() > 400 {
        format!("{}...", &t[..400])
    } else {
        t
    }
}

// ---------------------------------------------------------------------------
// Headers

fn hdr6_packet(i: u64) -> Result<bool, String> {
    let b = [(i >> 16) as u8, (i >> 8) as u8, i as u8];
    let canonical = b[0] & 0b0000_1100 == 0;
    let mut w = Warnings::new();
    let h = p6::PacketHeaderPacked::from_array(b).unpack_warn(&mut w);
    if canonical {
        ensure!(w.is_empty(), "0.6 packet header {} is canonical but unpack warns {:?}", hex(&b), w.0);
        let back = *h.pack().as_byte_array();
        ensure_eq!(back, b, "0.6 packet header pack(unpack(b)) for {}", hex(&b));
        // in-range field tuple: flags 0..15, ack 0..1023, num_chunks 0..255 -> exactly the canonical patterns
        let h2 = p6::PacketHeader { flags: b[0] >> 4, ack: (((b[0] & 3) as u16) << 8) | b[1] as u16, num_chunks: b[2] };
        ensure_eq!(h2.pack().unpack(), h2, "0.6 packet header unpack(pack(h))");
        ensure_eq!(h, h2, "0.6 packet header fields for {}", hex(&b));
    }
    Ok(canonical)
}

fn hdr6_chunk(i: u64) -> Result<bool, String> {
    if i < 65536 {
        let b = [(i >> 8) as u8, i as u8];
        let canonical = b[1] & 0xf0 == 0;
        let mut w = Warnings::new();
        let h = p6::ChunkHeaderPacked::from_array(b).unpack_warn(&mut w);
        if canonical {
            ensure!(w.is_empty(), "0.6 chunk header {} canonical but warns {:?}", hex(&b), w.0);
            let packed = h.pack();
        ensure_eq!(*packed.as_byte_array(), b, "0.6 chunk header pack(unpack(b)) {}", hex(&b));
            let h2 = p6::ChunkHeader { flags: b[0] >> 6, size: (((b[0] & 0x3f) as u16) << 4) | (b[1] & 0xf) as u16 };
            ensure_eq!(h, h2, "0.6 chunk header fields {}", hex(&b));
            ensure_eq!(h2.pack().unpack(), h2, "0.6 chunk header unpack(pack(h))");
        }
        Ok(canonical)
    } else {
        let i = i - 65536;
        let b = [(i >> 16) as u8, (i >> 8) as u8, i as u8];
        let canonical = (b[1] & 0x30) >> 4 == (b[2] & 0xc0) >> 6;
        let mut w = Warnings::new();
        let h = p6::ChunkHeaderVitalPacked::from_array(b).unpack_warn(&mut w);
        if canonical {
            ensure!(w.is_empty(), "0.6 vital chunk header {} canonical but warns {:?}", hex(&b), w.0);
            let packed = h.pack();
        ensure_eq!(*packed.as_byte_array(), b, "0.6 vital chunk header pack(unpack(b)) {}", hex(&b));
            let h2 = p6::ChunkHeaderVital {
                h: p6::ChunkHeader { flags: b[0] >> 6, size: (((b[0] & 0x3f) as u16) << 4) | (b[1] & 0xf) as u16 },
                sequence: (((b[1] & 0xf0) as u16) << 2) | b[2] as u16,
            };
            ensure_eq!(h, h2, "0.6 vital chunk header fields {}", hex(&b));
            ensure_eq!(h2.pack().unpack(), h2, "0.6 vital chunk header unpack(pack(h))");
        }
        Ok(canonical)
    }
}

const TOKENS: [[u8; 4]; 8] = [[0; 4], [0xff; 4], [1, 2, 3, 4], [0x80, 0, 0, 0], [0, 0, 0, 1], [0xde, 0xad, 0xbe, 0xef], [0x7f, 0xff, 0xff, 0xff], [0x55, 0xaa, 0x55, 0xaa]];

fn hdr7_packet(i: u64) -> Result<bool, String> {
    let t = TOKENS[(i >> 24) as usize];
    let b = [(i >> 16) as u8, (i >> 8) as u8, i as u8, t[0], t[1], t[2], t[3]];
    let canonical = b[0] & 0xc0 == 0;
    let mut w = Warnings::new();
    let h = p7::PacketHeaderPacked::from_array(b).unpack_warn(&mut w);
    if canonical {
        ensure!(w.is_empty(), "0.7 packet header {} canonical but warns {:?}", hex(&b), w.0);
        let packed = h.pack();
        ensure_eq!(*packed.as_byte_array(), b, "0.7 packet header pack(unpack(b)) {}", hex(&b));
        let h2 = p7::PacketHeader { flags: (b[0] >> 2) & 0xf, ack: (((b[0] & 3) as u16) << 8) | b[1] as u16, num_chunks: b[2], token: p7::Token(t) };
        ensure_eq!(h, h2, "0.7 packet header fields {}", hex(&b));
        ensure_eq!(h2.pack().unpack(), h2, "0.7 packet header unpack(pack(h))");
    }
    Ok(canonical)
}

fn hdr7_connless(i: u64) -> Result<bool, String> {
    let t = TOKENS[((i >> 8) & 7) as usize];
    let r = TOKENS[((i >> 11) & 7) as usize];
    let b = [i as u8, t[0], t[1], t[2], t[3], r[0], r[1], r[2], r[3]];
    let canonical = b[0] & 0xc0 == 0;
    let mut w = Warnings::new();
    let h = p7::PacketHeaderConnlessPacked::from_array(b).unpack_warn(&mut w);
    if canonical {
        ensure!(w.is_empty(), "0.7 connless header {} canonical but warns {:?}", hex(&b), w.0);
        let packed = h.pack();
        ensure_eq!(*packed.as_byte_array(), b, "0.7 connless header pack(unpack(b)) {}", hex(&b));
        let h2 = p7::PacketHeaderConnless { flags: (b[0] >> 2) & 0xf, version: b[0] & 3, token: p7::Token(t), response_token: p7::Token(r) };
        ensure_eq!(h, h2, "0.7 connless header fields {}", hex(&b));
        ensure_eq!(h2.pack().unpack(), h2, "0.7 connless header unpack(pack(h))");
    }
    Ok(canonical)
}

fn hdr7_chunk(i: u64) -> Result<bool, String> {
    if i < 65536 {
        let b = [(i >> 8) as u8, i as u8];
        let canonical = b[1] & 0xc0 == 0;
        let mut w = Warnings::new();
        let h = p7::ChunkHeaderPacked::from_array(b).unpack_warn(&mut w);
        if canonical {
            ensure!(w.is_empty(), "0.7 chunk header {} canonical but warns {:?}", hex(&b), w.0);
            let packed = h.pack();
        ensure_eq!(*packed.as_byte_array(), b, "0.7 chunk header pack(unpack(b)) {}", hex(&b));
            let h2 = p7::ChunkHeader { flags: b[0] >> 6, size: (((b[0] & 0x3f) as u16) << 6) | (b[1] & 0x3f) as u16 };
            ensure_eq!(h, h2, "0.7 chunk header fields {}", hex(&b));
            ensure_eq!(h2.pack().unpack(), h2, "0.7 chunk header unpack(pack(h))");
        }
        Ok(canonical)
    } else {
        let i = i - 65536;
        let b = [(i >> 16) as u8, (i >> 8) as u8, i as u8];
        let mut w = Warnings::new();
        let h = p7::ChunkHeaderVitalPacked::from_array(b).unpack_warn(&mut w);
        ensure!(w.is_empty(), "0.7 vital chunk header {} (every pattern is canonical) warns {:?}", hex(&b), w.0);
        let packed = h.pack();
        ensure_eq!(*packed.as_byte_array(), b, "0.7 vital chunk header pack(unpack(b)) {}", hex(&b));
        let h2 = p7::ChunkHeaderVital {
            h: p7::ChunkHeader { flags: b[0] >> 6, size: (((b[0] & 0x3f) as u16) << 6) | (b[1] & 0x3f) as u16 },
            sequence: (((b[1] & 0xc0) as u16) << 2) | b[2] as u16,
        };
        ensure_eq!(h, h2, "0.7 vital chunk header fields {}", hex(&b));
        ensure_eq!(h2.pack().unpack(), h2, "0.7 vital chunk header unpack(pack(h))");
        Ok(true)
    }
}

/// every payload length for two content families: connless and single-chunk packets
fn every_length(i: u64) -> Result<bool, String> {
    let is7 = i & 1 == 1;
    let family = if (i >> 1) & 1 == 1 { 4 } else { 0 };
    let kind = (i >> 2) % 3;
    let len = (i >> 2) / 3;
    let c = match kind {
        0 => PCase::Connless { family, len: len.min(connless_max(is7) as u64) as u16, seed: len as u8, token: [1, 2, 3, 4], response_token: [5, 6, 7, 8] },
        1 => PCase::Chunks { ack: (len % 1024) as u16, token: Some([9, 9, 9, len as u8]), request_resend: len % 2 == 0, body: Body::Raw { num_chunks: 1, family, len: len as u16, seed: len as u8 } },
        _ => PCase::Chunks { ack: 0, token: None, request_resend: false, body: Body::Raw { num_chunks: 3, family, len: len as u16, seed: (len >> 3) as u8 } },
    };
    check_packet(&c, is7).map(|o| o.nontrivial)
}

pub fn run(ctx: &Ctx) {
    ctx.set_rule(
        "headers: every bit pattern enumerated (non-trivial = canonical per doc/packet.md / doc/packet7.md, where unpack must not warn and \
         pack(unpack(b)) == b and the fields equal an independent decoding; canonical patterns are in bijection with the in-range field tuples, \
         for which unpack(pack(h)) == h is checked too); packets: proptest-generated Packet values of every kind (connless, each control \
         message x token x ack x close reason, chunk packets from well-formed chunk lists or raw payloads up to the size limit, five content \
         families) written and read back with the true token mode; non-trivial = the written form is compressed, or >= 2 chunks, or a close \
         reason >= 1 byte; distinct by case hash",
    );
    ctx.assume("only warning tolerated: ChunksNoChunks for a chunk packet that really has zero chunks and no resend request");
    ctx.assume("writer preconditions respected: NUL-free close reasons <= 127 bytes, 0.7 response tokens != all-ones, payload within the packet size limit");
    ctx.exhaustive("hdr6_packet", 1 << 24, hdr6_packet, |i| json!(format!("{:06x}", i)));
    ctx.exhaustive("hdr6_chunk", 65536 + (1 << 24), hdr6_chunk, |i| json!(format!("{:06x}", i)));
    ctx.exhaustive("hdr7_packet", 8 << 24, hdr7_packet, |i| json!(format!("{:07x}", i)));
    ctx.exhaustive("hdr7_connless", 256 * 64, hdr7_connless, |i| json!(format!("{:04x}", i)));
    ctx.exhaustive("hdr7_chunk", 65536 + (1 << 24), hdr7_chunk, |i| json!(format!("{:06x}", i)));
    ctx.prop("packets/0.6", ctx.n(600_000, 60_000_000), || pcase_strategy(false), |c: &PCase| check_packet(c, false));
    ctx.prop("packets/0.7", ctx.n(600_000, 60_000_000), || pcase_strategy(true), |c: &PCase| check_packet(c, true));
    ctx.exhaustive("every_length", 1398 * 3 * 4, every_length, |i| json!({"is7": i & 1 == 1, "kind": (i >> 2) % 3, "len": (i >> 2) / 3}));
}
