//! C11 - snapshot and delta parsers are total and enforce their limits.
//!
//! Generators: structured snapshots / deltas serialised by an independent writer (so duplicates,
//! oversized counts, unsorted keys, registry items of wrong length ... can be produced), then
//! corrupted on the wire (single fields set to boundary values, truncation at every position,
//! insertions, byte-level damage of the varint form), plus plain random words / bytes.
//!
//! Oracle: (1) every library call returns (no panic, callbacks bounded by fuel) and allocates at
//! most 64 x input bytes + 64 KiB; (2) accept / reject and the accepted content agree with a small
//! reference reader written from doc/snapshot.md and the limits of the property statement
//! (1024 items, 64 KiB); (3) every accepted snapshot can be written to both wire forms inside
//! 64 KiB, read back to an equal snapshot, enumerated, looked up, checksummed, diffed against
//! other accepted snapshots (and the empty one) in both directions, and recycled into a builder.

use crate::{
    alloc_max_single, alloc_peak, alloc_track_start, burn, ensure, ensure_eq, guard, pick,
    set_fuel, unlimited_fuel, Ctx, Outcome, PResult,
};
use libtw2_packer::{with_packer, IntUnpacker, Unpacker};
use libtw2_snapshot::format::{TypeId, Warning};
use libtw2_snapshot::snap::{BuilderError, Error};
use libtw2_snapshot::{Delta, Snap};
use libtw2_warn::{Ignore, Warn};
use proptest::prelude::*;
use serde::{Deserialize, Serialize};
use serde_json::json;
use std::collections::{BTreeMap, BTreeSet};
use std::sync::atomic::{AtomicU64, Ordering};
use uuid::Uuid;

// Limits from the property statement (deliberately not the library's constants).
pub const LIMIT_ITEMS: usize = 1024;
pub const LIMIT_BYTES: usize = 64 * 1024;
pub const LIMIT_WORDS: usize = LIMIT_BYTES / 4;

// ---------------------------------------------------------------------------
// Known findings (input classes that are steered around when listed in known_findings.json)

pub const K_APPLY_MISMATCH: &str = "apply-update-size-mismatch";
pub const K_CREATE_MISMATCH: &str = "create-size-mismatch";
pub const K_RECYCLE_LOW: &str = "recycle-registry-id-below-0x4000";
pub const K_RECYCLE_LADDER: &str = "recycle-registry-id-ladder";
pub const K_RECYCLE_UUID: &str = "recycle-uuid-type-number-lost";
pub const K_RECYCLE_HIGH: &str = "recycle-type-ge-0x8000";

#[derive(Clone, Copy, Debug, Default)]
pub struct Known {
    /// delta updates a live item of the old snapshot with a different size -> read_with_delta panics
    pub apply_mismatch: bool,
    /// two accepted snapshots share a key with different sizes -> Delta::create panics
    pub create_mismatch: bool,
    /// registry item with id < 0x4000 -> recycle + add_item(new uuid) panics
    pub recycle_low: bool,
    /// registry ids climbing in steps < 256 up to >= 0x7f00 -> recycle / add_item panics
    pub recycle_ladder: bool,
    /// (C10 root cause) parsed registry loses the type numbers -> recycle panics with >= 2 uuid
    /// types, adding an item of a known uuid type corrupts the registry with 1
    pub recycle_uuid: bool,
    /// items of type >= 0x8000 sort before the registry -> recycle does not advance the next type id
    pub recycle_high: bool,
}

impl Known {
    pub fn none() -> Known {
        Known::default()
    }
    pub fn all() -> Known {
        Known {
            apply_mismatch: true,
            create_mismatch: true,
            recycle_low: true,
            recycle_ladder: true,
            recycle_uuid: true,
            recycle_high: true,
        }
    }
    /// From a list of open finding keys (for callers without a `Ctx`, e.g. fuzz targets).
    pub fn from_keys(keys: &[&str]) -> Known {
        let has = |k: &str| keys.iter().any(|x| *x == k);
        Known {
            apply_mismatch: has(K_APPLY_MISMATCH),
            create_mismatch: has(K_CREATE_MISMATCH),
            recycle_low: has(K_RECYCLE_LOW),
            recycle_ladder: has(K_RECYCLE_LADDER),
            recycle_uuid: has(K_RECYCLE_UUID),
            recycle_high: has(K_RECYCLE_HIGH),
        }
    }
    pub fn from_ctx(ctx: &Ctx) -> Known {
        Known {
            apply_mismatch: ctx.known_open(K_APPLY_MISMATCH),
            create_mismatch: ctx.known_open(K_CREATE_MISMATCH),
            recycle_low: ctx.known_open(K_RECYCLE_LOW),
            recycle_ladder: ctx.known_open(K_RECYCLE_LADDER),
            recycle_uuid: ctx.known_open(K_RECYCLE_UUID),
            recycle_high: ctx.known_open(K_RECYCLE_HIGH),
        }
    }
}

static EXCLUDED: AtomicU64 = AtomicU64::new(0);
static VARIANTS: AtomicU64 = AtomicU64::new(0);
static REUSED: AtomicU64 = AtomicU64::new(0);

fn excluded() {
    EXCLUDED.fetch_add(1, Ordering::Relaxed);
}

// ---------------------------------------------------------------------------
// Error variant bookkeeping

pub const ERR_NAMES: [&str; 18] = [
    "UnexpectedEnd",
    "IntOutOfRange",
    "DeletedItemsUnpacking",
    "ItemDiffsUnpacking",
    "TypeIdRange",
    "IdRange",
    "NegativeSize",
    "TooLongDiff",
    "TooLongSnap",
    "TooManyItems",
    "DeltaDifferingSizes",
    "OffsetsUnpacking",
    "InvalidOffset",
    "ItemsUnpacking",
    "DuplicateKey",
    "DuplicateUuidType",
    "InvalidUuidType",
    "MissingUuidType",
];

fn err_index(e: &Error) -> usize {
    match e {
        Error::UnexpectedEnd => 0,
        Error::IntOutOfRange => 1,
        Error::DeletedItemsUnpacking => 2,
        Error::ItemDiffsUnpacking => 3,
        Error::TypeIdRange => 4,
        Error::IdRange => 5,
        Error::NegativeSize => 6,
        Error::TooLongDiff => 7,
        Error::TooLongSnap => 8,
        Error::TooManyItems => 9,
        Error::DeltaDifferingSizes => 10,
        Error::OffsetsUnpacking => 11,
        Error::InvalidOffset => 12,
        Error::ItemsUnpacking => 13,
        Error::DuplicateKey => 14,
        Error::DuplicateUuidType => 15,
        Error::InvalidUuidType => 16,
        Error::MissingUuidType => 17,
    }
}

const OPS: [&str; 3] = ["snap_read", "delta_read", "read_with_delta"];
static ERR_SEEN: [[AtomicU64; 18]; 3] = {
    const Z: AtomicU64 = AtomicU64::new(0);
    const R: [AtomicU64; 18] = [Z; 18];
    [R; 3]
};

fn note_err(op: usize, e: &Error) -> &'static str {
    let i = err_index(e);
    ERR_SEEN[op][i].fetch_add(1, Ordering::Relaxed);
    ERR_NAMES[i]
}

// ---------------------------------------------------------------------------
// Warning sink (does not allocate, burns fuel)

#[derive(Default, Clone, Copy, Debug)]
pub struct Sink {
    pub n: usize,
    pub kinds: u32,
}

impl Warn<Warning> for Sink {
    fn warn(&mut self, w: Warning) {
        burn();
        self.n += 1;
        self.kinds |= 1
            << match w {
                Warning::Packer(_) => 0,
                Warning::NonZeroPadding => 1,
                Warning::DuplicateDelete => 2,
                Warning::DuplicateUpdate => 3,
                Warning::UnknownDelete => 4,
                Warning::DeleteUpdate => 5,
                Warning::NumUpdatedItems => 6,
                Warning::ExcessSnapData => 7,
                Warning::ExcessUuidItemData => 8,
            };
    }
}

// ---------------------------------------------------------------------------
// Reference model (doc/snapshot.md + the limits of the statement)

/// Items by unsigned key.
pub type Items = BTreeMap<u32, Vec<i32>>;

#[derive(Clone, Debug)]
pub enum Verdict<T> {
    /// must be accepted with this content
    Accept(T),
    /// must be refused
    Reject(&'static str),
    /// the documents do not decide; if accepted the content must be this
    Either(T),
}

fn key_type(k: u32) -> u16 {
    (k >> 16) as u16
}
fn key_id(k: u32) -> u16 {
    k as u16
}
fn mk_key(ty: u16, id: u16) -> u32 {
    ((ty as u32) << 16) | id as u32
}

pub fn model_words(items: &Items) -> usize {
    2 + 2 * items.len() + items.values().map(|d| d.len()).sum::<usize>()
}

fn within_limits(items: &Items) -> Result<(), &'static str> {
    if items.len() > LIMIT_ITEMS {
        return Err("more than 1024 items");
    }
    if model_words(items) * 4 > LIMIT_BYTES {
        return Err("more than 64 KiB");
    }
    Ok(())
}

/// Registry (type 0) entries: id -> uuid words.
fn registry(items: &Items) -> Vec<(u16, [i32; 4])> {
    items
        .range(0..0x1_0000u32)
        .filter(|(_, d)| d.len() >= 4)
        .map(|(&k, d)| (key_id(k), [d[0], d[1], d[2], d[3]]))
        .collect()
}

/// Ok(true): must be accepted; Ok(false): the registry numbers a uuid type outside 0x4000..0x8000,
/// which the documents do not speak about (the library accepts it today; refusing would be fine too).
fn registry_rules(items: &Items) -> Result<bool, &'static str> {
    let mut seen = BTreeSet::new();
    let mut in_range = true;
    for (k, d) in items.range(0..0x1_0000u32) {
        if !(0x4000..0x8000).contains(k) {
            in_range = false;
        }
        if d.len() < 4 {
            return Err("registry item shorter than a uuid");
        }
        if !seen.insert([d[0], d[1], d[2], d[3]]) {
            return Err("two registry items with the same uuid");
        }
    }
    let mut prev = None;
    for &k in items.keys() {
        let t = key_type(k);
        if t >= 0x4000 && prev != Some(t) {
            if !items.contains_key(&mk_key(0, t)) {
                return Err("item of an extended type without registry entry");
            }
            prev = Some(t);
        }
    }
    Ok(in_range)
}

/// Canonical serialisation (ascending unsigned key order) as documented.
pub fn model_serialize(items: &Items) -> Vec<i32> {
    let data: usize = items.values().map(|d| d.len() + 1).sum();
    let mut out = Vec::with_capacity(2 + items.len() + data);
    out.push((data * 4) as i32);
    out.push(items.len() as i32);
    let mut off = 0usize;
    for d in items.values() {
        out.push((off * 4) as i32);
        off += d.len() + 1;
    }
    for (&k, d) in items {
        out.push(k as i32);
        out.extend_from_slice(d);
    }
    out
}

pub fn model_snap(ints: &[i32]) -> Verdict<Items> {
    if ints.len() < 2 {
        return Verdict::Reject("header incomplete");
    }
    let (ds, n) = (ints[0], ints[1]);
    if ds < 0 || n < 0 {
        return Verdict::Reject("negative header field");
    }
    let rest = &ints[2..];
    let n = n as usize;
    if n > rest.len() {
        return Verdict::Reject("offset table longer than the input");
    }
    if ds % 4 != 0 {
        return Verdict::Reject("data_size not a multiple of 4");
    }
    let il = (ds / 4) as usize;
    if n + il > rest.len() {
        return Verdict::Reject("item area longer than the input");
    }
    let offs = &rest[..n];
    let area = &rest[n..n + il];
    if n == 0 {
        return if il == 0 {
            Verdict::Accept(Items::new())
        } else {
            Verdict::Either(Items::new())
        };
    }
    let mut starts = Vec::with_capacity(n + 1);
    for (i, &o) in offs.iter().enumerate() {
        if o < 0 {
            return Verdict::Reject("negative offset");
        }
        if o % 4 != 0 {
            return Verdict::Reject("unaligned offset");
        }
        let w = (o / 4) as usize;
        if i == 0 && w != 0 {
            return Verdict::Reject("first offset not 0");
        }
        if i > 0 && w <= starts[i - 1] {
            return Verdict::Reject("offsets not strictly increasing");
        }
        if w >= il {
            return Verdict::Reject("offset outside the item area");
        }
        starts.push(w);
    }
    starts.push(il);
    if n > LIMIT_ITEMS {
        return Verdict::Reject("more than 1024 items");
    }
    let mut items = Items::new();
    for i in 0..n {
        let (s, e) = (starts[i], starts[i + 1]);
        if items.insert(area[s] as u32, area[s + 1..e].to_vec()).is_some() {
            return Verdict::Reject("duplicate key");
        }
    }
    if let Err(why) = within_limits(&items) {
        return Verdict::Reject(why);
    }
    match registry_rules(&items) {
        Err(why) => Verdict::Reject(why),
        Ok(true) => Verdict::Accept(items),
        Ok(false) => Verdict::Either(items),
    }
}

#[derive(Clone, Copy, Debug, Hash, PartialEq, Eq, Serialize, Deserialize)]
pub enum Table {
    /// every size explicit
    None,
    /// pre-agreed sizes of the 0.6 protocol (doc/snapshot.md appendix)
    V06,
    /// V06 plus two absurd entries (types 30, 31) - a caller-supplied table, used to reach TooLongDiff
    Huge,
}

const SIZES_06: [u32; 21] = [
    0, 10, 6, 5, 4, 3, 8, 4, 15, 22, 5, 17, 3, 2, 2, 2, 2, 3, 3, 3, 3,
];

pub fn table_size(t: Table, ty: u16) -> Option<u32> {
    match t {
        Table::None => None,
        Table::V06 => {
            if (1..=20).contains(&ty) {
                Some(SIZES_06[ty as usize])
            } else {
                None
            }
        }
        Table::Huge => match ty {
            30 => Some(u32::MAX),
            31 => Some(0x7fff_ffff),
            _ => table_size(Table::V06, ty),
        },
    }
}

#[derive(Clone, Debug, Default, PartialEq, Eq)]
pub struct DeltaModel {
    pub deleted: BTreeSet<u32>,
    pub updates: BTreeMap<u32, Vec<i32>>,
}

impl DeltaModel {
    fn words(&self) -> usize {
        3 + self.deleted.len() + self.updates.values().map(|d| d.len() + 3).sum::<usize>()
    }
}

pub fn model_delta(ints: &[i32], table: Table) -> Verdict<DeltaModel> {
    if ints.len() < 3 {
        return Verdict::Reject("header incomplete");
    }
    let (nd, nu) = (ints[0], ints[1]);
    if nd < 0 || nu < 0 {
        return Verdict::Reject("negative header field");
    }
    let mut pos = 3usize;
    if (nd as usize) > ints.len() - pos {
        return Verdict::Reject("removed keys longer than the input");
    }
    let mut m = DeltaModel::default();
    for _ in 0..nd {
        m.deleted.insert(ints[pos] as u32);
        pos += 1;
    }
    let mut buf_len: u64 = 0;
    while pos < ints.len() {
        if ints.len() - pos < 2 {
            return Verdict::Reject("item delta header incomplete");
        }
        let (ty, id) = (ints[pos], ints[pos + 1]);
        pos += 2;
        if !(0..=0xffff).contains(&ty) {
            return Verdict::Reject("type id outside 16 bits");
        }
        if !(0..=0xffff).contains(&id) {
            return Verdict::Reject("id outside 16 bits");
        }
        let size = match table_size(table, ty as u16) {
            Some(s) => s as u64,
            None => {
                if pos >= ints.len() {
                    return Verdict::Reject("size missing");
                }
                let s = ints[pos];
                pos += 1;
                if s < 0 {
                    return Verdict::Reject("negative size");
                }
                s as u64
            }
        };
        if buf_len + size > u32::MAX as u64 {
            return Verdict::Reject("difference buffer index overflow");
        }
        if size > (ints.len() - pos) as u64 {
            return Verdict::Reject("item delta data longer than the input");
        }
        let size = size as usize;
        m.updates
            .insert(mk_key(ty as u16, id as u16), ints[pos..pos + size].to_vec());
        pos += size;
        buf_len += size as u64;
    }
    Verdict::Accept(m)
}

/// Returns the verdict and whether the delta updates a *live* item with a different size
/// (the `apply-update-size-mismatch` class).
pub fn model_apply(from: &Items, d: &DeltaModel) -> (Verdict<Items>, bool) {
    let mut res: Items = from
        .iter()
        .filter(|(k, _)| !d.deleted.contains(k))
        .map(|(k, v)| (*k, v.clone()))
        .collect();
    let mut mismatch = false;
    let mut mismatch_live = false;
    for (k, diff) in &d.updates {
        match from.get(k) {
            Some(old) if old.len() != diff.len() => {
                mismatch = true;
                if res.contains_key(k) {
                    mismatch_live = true;
                }
            }
            Some(old) => {
                let v: Vec<i32> = old.iter().zip(diff).map(|(a, b)| a.wrapping_add(*b)).collect();
                res.insert(*k, v);
            }
            None => {
                res.insert(*k, diff.clone());
            }
        }
    }
    if mismatch {
        return (
            Verdict::Reject("item delta size differs from the size of the old item"),
            mismatch_live,
        );
    }
    if let Err(why) = within_limits(&res) {
        return (Verdict::Reject(why), false);
    }
    match registry_rules(&res) {
        Err(why) => (Verdict::Reject(why), false),
        Ok(true) => (Verdict::Accept(res), false),
        Ok(false) => (Verdict::Either(res), false),
    }
}

// ---------------------------------------------------------------------------
// Varint wire form (writer is ours; reading for the model goes through the packer, which C08 checks)

pub fn varint(v: i32, out: &mut Vec<u8>) {
    let sign = v < 0;
    let mut bits: u32 = if sign { !(v as u32) } else { v as u32 };
    let mut b = (bits & 0x3f) as u8 | if sign { 0x40 } else { 0 };
    bits >>= 6;
    while bits != 0 {
        out.push(b | 0x80);
        b = (bits & 0x7f) as u8;
        bits >>= 7;
    }
    out.push(b);
}

pub fn varints(ints: &[i32]) -> Vec<u8> {
    let mut out = Vec::with_capacity(ints.len() * 2);
    for &v in ints {
        varint(v, &mut out);
    }
    out
}

/// (complete integers, whether the input ends inside an integer)
pub fn decode_varints(bytes: &[u8]) -> (Vec<i32>, bool) {
    let mut u = Unpacker::new(bytes);
    let mut out = Vec::new();
    while !u.is_empty() {
        match u.read_int(&mut Ignore) {
            Ok(v) => out.push(v),
            Err(_) => return (out, true),
        }
    }
    (out, false)
}

// ---------------------------------------------------------------------------
// Measured library calls

/// Runs one library call: panic / fuel capture and the allocation bound of the statement.
fn measured<R>(what: &str, input_bytes: usize, f: impl FnOnce() -> R) -> Result<R, String> {
    set_fuel((4 * input_bytes + 64) as i64);
    alloc_track_start();
    let r = guard(f);
    let peak = alloc_peak();
    let single = alloc_max_single();
    unlimited_fuel();
    let r = r.map_err(|p| format!("{}: {}", what, p))?;
    let bound = 64 * input_bytes + LIMIT_BYTES;
    ensure!(
        peak <= bound && single <= bound,
        "{}: allocated peak {} bytes (largest single request {}) for {} input bytes; bound is 64 x input + 64 KiB = {}",
        what,
        peak,
        single,
        input_bytes,
        bound
    );
    Ok(r)
}

fn table_fn(t: Table) -> impl FnMut(u16) -> Option<u32> {
    move |ty| {
        burn();
        table_size(t, ty)
    }
}

// Objects the parsers read into: a fresh one, or one that already holds something else (a previously
// read snapshot / a snapshot produced by applying a delta / a previously read delta). Which one is a
// pure function of the input, so replays are exact. What the object held before must not matter.
thread_local! {
    static DIRT: (Snap, Snap, Delta) = make_dirt();
}

fn make_dirt() -> (Snap, Snap, Delta) {
    let mut m = Items::new();
    m.insert(mk_key(0, 0x4000), UUID_POOL[0].to_vec());
    m.insert(mk_key(0, 0x4001), UUID_POOL[1].to_vec());
    m.insert(mk_key(0x4000, 7), vec![1, 2]);
    m.insert(mk_key(5, 1), vec![3, 4, 5]);
    m.insert(mk_key(0x8001, 9), vec![6]);
    let mut a = Snap::default();
    let _ = a.read_from_ints(&mut Sink::default(), &model_serialize(&m));
    // delta on the empty snapshot: adds (6, 2) = [8, 9] (explicit size) and (1, 3) = [7]
    let mut d = Delta::new();
    let _ = d.read_from_ints(&mut Sink::default(), table_fn(Table::None), &mut IntUnpacker::new(&[0, 2, 0, 6, 2, 2, 8, 9, 1, 3, 1, 7]));
    let mut b = Snap::default();
    let _ = b.read_with_delta(&mut Sink::default(), &a, &d);
    (a, b, d)
}

fn input_sel(words: impl Iterator<Item = i32>, len: usize) -> usize {
    let mut h = len as u32;
    for w in words {
        h = h.wrapping_mul(31).wrapping_add(w as u32);
    }
    ((h >> 3) % 3) as usize
}

fn start_snap(sel: usize) -> Snap {
    if sel != 0 {
        REUSED.fetch_add(1, Ordering::Relaxed);
    }
    match sel {
        0 => Snap::default(),
        1 => DIRT.with(|d| d.0.clone()),
        _ => DIRT.with(|d| d.1.clone()),
    }
}

fn start_delta(sel: usize) -> Delta {
    if sel != 0 {
        REUSED.fetch_add(1, Ordering::Relaxed);
        DIRT.with(|d| d.2.clone())
    } else {
        Delta::new()
    }
}

pub fn lib_snap_from_ints(ints: &[i32]) -> Result<(Snap, Result<(), Error>, Sink), String> {
    let mut w = Sink::default();
    let mut s = start_snap(input_sel(ints.iter().cloned(), ints.len()));
    let (s, r) = measured("Snap::read_from_ints", ints.len() * 4, || {
        let r = s.read_from_ints(&mut w, ints);
        (s, r)
    })?;
    Ok((s, r, w))
}

pub fn lib_snap_from_bytes(bytes: &[u8]) -> Result<(Snap, Result<(), Error>, Sink), String> {
    let mut w = Sink::default();
    let mut s = start_snap(input_sel(bytes.iter().map(|&b| b as i32), bytes.len()));
    let (s, r) = measured("Snap::read", bytes.len(), || {
        let mut buf = Vec::new();
        let r = s.read(&mut w, &mut buf, bytes);
        (s, r)
    })?;
    Ok((s, r, w))
}

pub fn lib_delta_from_ints(
    table: Table,
    ints: &[i32],
) -> Result<(Delta, Result<(), Error>, Sink), String> {
    let mut w = Sink::default();
    let mut d = start_delta(input_sel(ints.iter().cloned(), ints.len()) & 1);
    let (d, r) = measured("Delta::read_from_ints", ints.len() * 4, || {
        let r = d.read_from_ints(&mut w, table_fn(table), &mut IntUnpacker::new(ints));
        (d, r)
    })?;
    Ok((d, r, w))
}

pub fn lib_delta_from_bytes(
    table: Table,
    bytes: &[u8],
) -> Result<(Delta, Result<(), Error>, Sink), String> {
    let mut w = Sink::default();
    let mut d = start_delta(input_sel(bytes.iter().map(|&b| b as i32), bytes.len()) & 1);
    let (d, r) = measured("Delta::read", bytes.len(), || {
        let r = d.read(&mut w, table_fn(table), &mut Unpacker::new(bytes));
        (d, r)
    })?;
    Ok((d, r, w))
}

fn lib_apply(
    from: &Snap,
    from_words: usize,
    delta: &Delta,
    delta_words: usize,
) -> Result<(Snap, Result<(), Error>, Sink), String> {
    let mut w = Sink::default();
    let mut s = start_snap((from_words + 2 * delta_words) % 3);
    let (s, r) = measured("Snap::read_with_delta", (from_words + delta_words) * 4, || {
        let r = s.read_with_delta(&mut w, from, delta);
        (s, r)
    })?;
    Ok((s, r, w))
}

/// `write_to_ints` into a buffer of at most 64 KiB (`hint`: expected number of words, to keep the
/// buffers of the many small cases small; a too small hint falls back to the full 64 KiB).
fn lib_write_ints_hint(what: &str, s: &Snap, hint: usize) -> Result<Vec<i32>, String> {
    let attempt = |words: usize| {
        guard(|| {
            let mut out = vec![0i32; words];
            let mut buf = Vec::new();
            let n = s.write_to_ints(&mut buf, &mut out).map(|w| w.len());
            n.map(|n| {
                out.truncate(n);
                out
            })
        })
        .map_err(|p| format!("{}: write_to_ints: {}", what, p))
    };
    let first = (hint + 4).min(LIMIT_WORDS);
    if let Ok(v) = attempt(first)? {
        return Ok(v);
    }
    if first < LIMIT_WORDS {
        if let Ok(v) = attempt(LIMIT_WORDS)? {
            return Ok(v);
        }
    }
    Err(format!("{}: write_to_ints does not fit into 64 KiB", what))
}

fn lib_write_ints(what: &str, s: &Snap) -> Result<Vec<i32>, String> {
    lib_write_ints_hint(what, s, LIMIT_WORDS)
}

fn lib_write_bytes(what: &str, s: &Snap, hint: usize) -> Result<Vec<u8>, String> {
    let attempt = |words: usize| {
        guard(|| {
            let mut out: Vec<u8> = Vec::with_capacity(5 * words);
            let mut buf = Vec::new();
            let r = with_packer(&mut out, |p| s.write(&mut buf, p).map(|b| b.len()));
            r.map(|_| out)
        })
        .map_err(|p| format!("{}: write: {}", what, p))
    };
    let first = (hint + 4).min(LIMIT_WORDS);
    if let Ok(v) = attempt(first)? {
        return Ok(v);
    }
    if first < LIMIT_WORDS {
        if let Ok(v) = attempt(LIMIT_WORDS)? {
            return Ok(v);
        }
    }
    Err(format!("{}: write fails with 5 bytes of room per word of a 64 KiB snapshot", what))
}

fn lib_delta_write(what: &str, d: &Delta, hint: usize) -> Result<Vec<i32>, String> {
    // a delta read from the wire is bounded by its input only, not by the snapshot limits
    let full = (3 + LIMIT_ITEMS * 4 + 2 * LIMIT_WORDS).max(hint + 4);
    let attempt = |words: usize| {
        guard(|| {
            let mut out = vec![0i32; words];
            let n = d.write_to_ints(|_| None, &mut out).map(|w| w.len());
            n.map(|n| {
                out.truncate(n);
                out
            })
        })
        .map_err(|p| format!("{}: Delta::write_to_ints: {}", what, p))
    };
    let first = (hint + 4).min(full);
    if let Ok(v) = attempt(first)? {
        return Ok(v);
    }
    if first < full {
        if let Ok(v) = attempt(full)? {
            return Ok(v);
        }
    }
    Err(format!("{}: Delta::write_to_ints does not fit", what))
}

// ---------------------------------------------------------------------------
// What is demanded of an accepted snapshot

#[derive(Clone, Debug, Default)]
pub struct Report {
    pub accepted: bool,
    pub err: Option<&'static str>,
    /// accepted although the input is not the canonical serialisation of its content
    pub hostile: bool,
    pub items: usize,
    pub words: usize,
    pub registry: usize,
    pub high_types: bool,
    pub warnings: u32,
}

fn expected_typed(m: &Items) -> Vec<(TypeId, u16, Vec<i32>)> {
    let reg: BTreeMap<u16, [i32; 4]> = registry(m).into_iter().collect();
    let mut out = Vec::new();
    for (&k, d) in m {
        let t = key_type(k);
        if t == 0 {
            continue;
        }
        let ty = if t < 0x4000 {
            TypeId::Ordinal(t)
        } else {
            match reg.get(&t) {
                Some(u) => TypeId::Uuid(words_uuid(u)),
                None => continue,
            }
        };
        out.push((ty, key_id(k), d.clone()));
    }
    out.sort();
    out
}

fn words_uuid(w: &[i32; 4]) -> Uuid {
    let mut b = [0u8; 16];
    for (i, x) in w.iter().enumerate() {
        b[4 * i..4 * i + 4].copy_from_slice(&x.to_be_bytes());
    }
    Uuid::from_bytes(b)
}

fn model_crc(m: &Items) -> i32 {
    m.values().flatten().fold(0i32, |s, &a| s.wrapping_add(a))
}

/// Checks on one accepted snapshot `s` whose content must be `m`.
pub fn check_accepted(k: &Known, what: &str, s: &Snap, m: &Items, deep: bool) -> Result<(), String> {
    // content, limits, write_to_ints
    let hint = model_words(m);
    let canon = lib_write_ints_hint(what, s, hint)?;
    let expect = model_serialize(m);
    ensure!(
        canon == expect,
        "{}: content differs from the documented reading of the input: written {:?}, expected {:?}",
        what,
        clip(&canon),
        clip(&expect)
    );
    ensure!(canon.len() >= 2, "{}: written form shorter than a header", what);
    ensure!(
        canon[1] >= 0 && canon[1] as usize <= LIMIT_ITEMS,
        "{}: accepted snapshot holds {} items",
        what,
        canon[1]
    );
    ensure!(
        canon.len() * 4 <= LIMIT_BYTES,
        "{}: accepted snapshot serialises to {} bytes",
        what,
        canon.len() * 4
    );
    // crc
    let crc = guard(|| s.crc()).map_err(|p| format!("{}: crc: {}", what, p))?;
    ensure_eq!(crc, model_crc(m), "{}: crc", what);
    // enumerate
    let typed = guard(|| {
        set_fuel(2 * LIMIT_ITEMS as i64 + 16);
        let it = s.items();
        let announced = it.len();
        let mut v = Vec::new();
        for i in it {
            burn();
            v.push((i.type_id, i.id, i.data.to_vec()));
        }
        unlimited_fuel();
        (announced, v)
    });
    unlimited_fuel();
    let (announced, mut typed) = typed.map_err(|p| format!("{}: items(): {}", what, p))?;
    ensure_eq!(announced, typed.len(), "{}: items().len() vs. items yielded", what);
    typed.sort();
    let exp_typed = expected_typed(m);
    ensure!(
        typed == exp_typed,
        "{}: items() yields {:?}, expected {:?}",
        what,
        clip(&typed),
        clip(&exp_typed)
    );
    // look-ups
    let mut probes: Vec<u32> = m.keys().copied().take(24).collect();
    probes.extend(m.keys().rev().copied().take(8));
    let extra: Vec<u32> = probes.iter().map(|k| k ^ 1).chain([mk_key(1, 0), mk_key(0x3fff, 0xffff)]).collect();
    probes.extend(extra);
    for key in probes {
        let (t, id) = (key_type(key), key_id(key));
        if t == 0 || t >= 0x4000 {
            continue;
        }
        let got = guard(|| s.item(TypeId::Ordinal(t), id).map(|d| d.to_vec()))
            .map_err(|p| format!("{}: item({}, {}): {}", what, t, id, p))?;
        ensure!(
            got.as_ref() == m.get(&key),
            "{}: item({}, {}) = {:?}, expected {:?}",
            what,
            t,
            id,
            got,
            m.get(&key)
        );
    }
    let reg = registry(m);
    for (tnum, u) in reg.iter().take(8) {
        let uuid = words_uuid(u);
        for id in [0u16, 1, *tnum] {
            // the value is C10's business (type numbers of parsed registries); here: returns
            guard(|| s.item(TypeId::Uuid(uuid), id).map(|d| d.len()))
                .map_err(|p| format!("{}: item(uuid of registry entry {}, {}): {}", what, tnum, id, p))?;
        }
    }
    guard(|| s.item(TypeId::Uuid(Uuid::from_bytes([0xee; 16])), 0).is_some())
        .map_err(|p| format!("{}: item(unknown uuid): {}", what, p))?;
    // both wire forms and back
    let bytes = lib_write_bytes(what, s, hint)?;
    ensure!(
        bytes == varints(&canon),
        "{}: write() is not the varint form of write_to_ints()",
        what
    );
    {
        // a registry item longer than a uuid is accepted with a warning, also the second time
        let long_reg = m.range(0..0x1_0000u32).any(|(_, d)| d.len() > 4);
        let allowed: u32 = if long_reg { 1 << 8 } else { 0 };
        let (s2, r, w) = lib_snap_from_ints(&canon)?;
        ensure!(r.is_ok(), "{}: reading the written ints back fails with {:?}", what, r);
        ensure!(w.kinds & !allowed == 0, "{}: reading the written ints back warns (kinds {:#x})", what, w.kinds);
        let again = lib_write_ints_hint(what, &s2, hint)?;
        ensure!(again == canon, "{}: snapshot read back from its ints differs", what);
        ensure_eq!(s2.crc(), crc, "{}: crc after reading back", what);
        let (s3, r, w) = lib_snap_from_bytes(&bytes)?;
        ensure!(r.is_ok(), "{}: reading the written bytes back fails with {:?}", what, r);
        ensure!(w.kinds & !allowed == 0, "{}: reading the written bytes back warns (kinds {:#x})", what, w.kinds);
        let again = lib_write_ints_hint(what, &s3, hint)?;
        ensure!(again == canon, "{}: snapshot read back from its bytes differs", what);
    }
    if deep {
        let empty = Snap::empty();
        let em = Items::new();
        check_pair(k, &format!("{} -> empty", what), s, m, &empty, &em)?;
        check_pair(k, &format!("empty -> {}", what), &empty, &em, s, m)?;
        check_recycle(k, what, s, m)?;
    }
    Ok(())
}

fn clip<T: std::fmt::Debug>(v: &[T]) -> String {
    if v.len() <= 48 {
        format!("{:?}", v)
    } else {
        format!("{:?}.. ({} elements)", &v[..48], v.len())
    }
}

/// `Delta::create(a, b)`, through the wire, applied to `a`, must give `b`.
pub fn check_pair(k: &Known, what: &str, a: &Snap, am: &Items, b: &Snap, bm: &Items) -> Result<(), String> {
    let mismatch = am.iter().any(|(key, d)| bm.get(key).map(|e| e.len() != d.len()).unwrap_or(false));
    if mismatch && k.create_mismatch {
        excluded();
        return Ok(());
    }
    let d = guard(|| {
        let mut d = Delta::new();
        d.create(a, b);
        d
    })
    .map_err(|p| format!("{}: Delta::create on two accepted snapshots: {}", what, p))?;
    let wire = lib_delta_write(what, &d, am.len() + 3 * bm.len() + model_words(bm) + 3)?;
    let (d2, r, w) = lib_delta_from_ints(Table::None, &wire)?;
    ensure!(r.is_ok(), "{}: created delta does not read back: {:?}", what, r);
    ensure!(w.n == 0, "{}: created delta reads back with warnings (kinds {:#x})", what, w.kinds);
    let (res, r, _) = lib_apply(a, model_words(am), &d2, wire.len())?;
    ensure!(r.is_ok(), "{}: applying the created delta fails with {:?}", what, r);
    let got = lib_write_ints_hint(what, &res, model_words(bm))?;
    let expect = model_serialize(bm);
    ensure!(
        got == expect,
        "{}: create + apply does not reproduce the target: {:?} vs {:?}",
        what,
        clip(&got),
        clip(&expect)
    );
    Ok(())
}

const FRESH: [[u8; 16]; 3] = [[0xf1; 16], [0xf2; 16], [0xf3; 16]];

#[derive(Clone, Copy, Debug, Default)]
pub struct RecycleClass {
    /// a registry id below 0x4000 (a uuid type whose number is an ordinal, or 0)
    pub low: bool,
    /// ... or push it to 0x7f00 and beyond
    pub ladder: bool,
    /// items of type >= 0x8000 hide the registry from `recycle` while the registry holds 0x4000..0x4003
    pub high: bool,
    /// the chain of registry ids from 0x4000 on (steps < 256) ends at 0x7f00 or later: a builder may
    /// run out of type numbers
    pub exhaustible: bool,
}

/// Input classes of the recycle findings, described by what the registry ids look like: the
/// "next free type number" is the end of the chain of registry ids that starts at 0x4000 and
/// continues while the next id is less than 256 away.
pub fn recycle_class(m: &Items) -> RecycleClass {
    let high = m.keys().any(|&key| key_type(key) >= 0x8000);
    let reg_ids: Vec<u32> = m.range(0..0x1_0000u32).map(|(k, _)| *k).collect();
    let low = reg_ids.iter().any(|&id| id < 0x4000);
    let mut next: u32 = 0x4000;
    for &id in &reg_ids {
        if id >= 0x4000 && id < next + 256 {
            next = id + 1;
        }
    }
    let exhaustible = next >= 0x7f00;
    if high {
        return RecycleClass {
            low,
            ladder: false,
            high: reg_ids.iter().any(|id| (0x4000..0x4004).contains(id)),
            exhaustible,
        };
    }
    RecycleClass {
        low,
        ladder: exhaustible,
        high: false,
        exhaustible,
    }
}

/// recycle -> add items -> finish on a clone of an accepted snapshot.
pub fn check_recycle(k: &Known, what: &str, s: &Snap, m: &Items) -> Result<(), String> {
    let reg = registry(m);
    let cls = recycle_class(m);
    if (cls.low && k.recycle_low)
        || (cls.ladder && k.recycle_ladder)
        || (cls.high && k.recycle_high)
        || (reg.len() >= 2 && k.recycle_uuid)
    {
        excluded();
        return Ok(());
    }
    let add_known = !reg.is_empty() && !k.recycle_uuid;
    if !reg.is_empty() && k.recycle_uuid {
        excluded();
    }
    let reg_uuids: BTreeSet<Uuid> = reg.iter().map(|r| words_uuid(&r.1)).collect();
    let fresh = FRESH
        .iter()
        .map(|b| Uuid::from_bytes(*b))
        .find(|u| !reg_uuids.contains(u))
        .unwrap_or_else(|| Uuid::from_bytes([0xf4; 16]));
    let known_uuid = reg.first().map(|r| words_uuid(&r.1));
    let r = guard(|| {
        let mut b = s.clone().recycle();
        let r1 = b.add_item(TypeId::Ordinal(1), 7, &[1, 2, 3]);
        let r2 = b.add_item(TypeId::Uuid(fresh), 9, &[4, 5]);
        let r3 = match (add_known, known_uuid) {
            (true, Some(u)) => Some(b.add_item(TypeId::Uuid(u), 3, &[6])),
            _ => None,
        };
        let r4 = b.add_item(TypeId::Uuid(fresh), 9, &[4, 5]);
        (b.finish(), r1, r2, r3, r4)
    })
    .map_err(|p| format!("{}: recycle / add_item / finish: {}", what, p))?;
    let (s2, r1, r2, r3, r4) = r;
    let roomy = reg.len() + 8 <= LIMIT_ITEMS;
    if roomy {
        ensure!(r1.is_ok(), "{}: after recycle, add_item(1, 7) fails with {:?}", what, r1);
        // where the registry ids climb to the end of the extended range there may be no type number
        // left to hand out: refusing is fine there, anything else must work
        ensure!(
            r2.is_ok() || (cls.exhaustible && r2 == Err(BuilderError::TooManyItems)),
            "{}: after recycle, add_item(new uuid, 9) fails with {:?}",
            what,
            r2
        );
        if let Some(r3) = &r3 {
            ensure!(
                r3.is_ok() || (cls.exhaustible && *r3 == Err(BuilderError::TooManyItems)),
                "{}: after recycle, add_item(known uuid, 3) fails with {:?}",
                what,
                r3
            );
        }
        ensure!(
            if r2.is_ok() { r4 == Err(BuilderError::DuplicateKey) } else { r4.is_err() },
            "{}: after recycle, adding the same key twice gives {:?}",
            what,
            r4
        );
    }
    // the finished snapshot is again subject to everything (content: whatever it serialises to)
    let what2 = format!("{} (recycled)", what);
    let canon = lib_write_ints(&what2, &s2)?;
    let m2 = match model_snap(&canon) {
        Verdict::Accept(m2) => m2,
        Verdict::Either(m2) => m2,
        Verdict::Reject(why) => {
            return Err(format!(
                "{}: the snapshot built after recycle serialises to something that must be refused ({}): {:?}",
                what,
                why,
                clip(&canon)
            ))
        }
    };
    check_accepted(k, &what2, &s2, &m2, false)?;
    if roomy {
        let got = guard(|| s2.item(TypeId::Ordinal(1), 7).map(|d| d.to_vec())).map_err(|p| format!("{}: item: {}", what2, p))?;
        ensure!(got.as_deref() == Some(&[1, 2, 3][..]), "{}: item(1, 7) = {:?}", what2, got);
        let got = guard(|| s2.item(TypeId::Uuid(fresh), 9).map(|d| d.to_vec())).map_err(|p| format!("{}: item: {}", what2, p))?;
        ensure!(
            got.as_deref() == if r2.is_ok() { Some(&[4, 5][..]) } else { None },
            "{}: item(new uuid, 9) = {:?}",
            what2,
            got
        );
    }
    Ok(())
}

// ---------------------------------------------------------------------------
// Oracle entry points (also meant for the fuzz targets)

fn judge_snap(
    k: &Known,
    what: &str,
    op: usize,
    s: &Snap,
    r: &Result<(), Error>,
    verdict: &Verdict<Items>,
    warnings: &Sink,
    deep: bool,
) -> Result<Report, String> {
    let mut rep = Report {
        warnings: warnings.kinds,
        ..Report::default()
    };
    match (r, verdict) {
        (Err(e), Verdict::Accept(m)) => Err(format!(
            "{}: refused with {:?} although the input is well-formed per doc/snapshot.md and within the limits ({} items, {} bytes)",
            what,
            e,
            m.len(),
            model_words(m) * 4
        )),
        (Ok(()), Verdict::Reject(why)) => {
            let became = match lib_write_ints(what, s) {
                Ok(canon) => clip(&canon),
                Err(e) => format!("<{}>", e),
            };
            Err(format!(
                "{}: accepted an input that must be refused ({}); it became {}",
                what, why, became
            ))
        }
        (Err(e), _) => {
            rep.err = Some(note_err(op, e));
            Ok(rep)
        }
        (Ok(()), Verdict::Accept(m)) | (Ok(()), Verdict::Either(m)) => {
            check_accepted(k, what, s, m, deep)?;
            rep.accepted = true;
            rep.items = m.len();
            rep.words = model_words(m);
            rep.registry = registry(m).len();
            rep.high_types = m.keys().any(|&key| key_type(key) >= 0x8000);
            Ok(rep)
        }
    }
}

/// Snapshot from words: total, bounded, agrees with the reference reader, usable afterwards.
pub fn oracle_snap_ints(k: &Known, ints: &[i32], deep: bool) -> Result<Report, String> {
    VARIANTS.fetch_add(1, Ordering::Relaxed);
    let (s, r, w) = lib_snap_from_ints(ints)?;
    let verdict = model_snap(ints);
    let mut rep = judge_snap(k, "Snap::read_from_ints", 0, &s, &r, &verdict, &w, deep)?;
    if rep.accepted {
        if let Verdict::Accept(m) | Verdict::Either(m) = &verdict {
            rep.hostile = model_serialize(m) != ints;
        }
    }
    Ok(rep)
}

/// Snapshot from bytes (varint form).
pub fn oracle_snap_bytes(k: &Known, bytes: &[u8], deep: bool) -> Result<Report, String> {
    VARIANTS.fetch_add(1, Ordering::Relaxed);
    let (s, r, w) = lib_snap_from_bytes(bytes)?;
    let (ints, _) = decode_varints(bytes);
    let verdict = model_snap(&ints);
    let mut rep = judge_snap(k, "Snap::read", 0, &s, &r, &verdict, &w, deep)?;
    if rep.accepted {
        if let Verdict::Accept(m) | Verdict::Either(m) = &verdict {
            rep.hostile = varints(&model_serialize(m)) != bytes;
        }
    }
    Ok(rep)
}

#[derive(Clone, Debug, Default)]
pub struct DReport {
    pub parse_err: Option<&'static str>,
    pub parsed: bool,
    pub hostile: bool,
    pub deleted: usize,
    pub updates: usize,
    pub warnings: u32,
    pub from_items: usize,
    pub applied: Option<Report>,
    pub applied_empty: Option<Report>,
    pub skipped_known: bool,
}

fn judge_delta(
    what: &str,
    d: &Delta,
    r: &Result<(), Error>,
    verdict: &Verdict<DeltaModel>,
    rep: &mut DReport,
) -> Result<Option<DeltaModel>, String> {
    match (r, verdict) {
        (Err(e), Verdict::Accept(m)) => Err(format!(
            "{}: refused with {:?} although the input is a well-formed delta ({} removals, {} item deltas)",
            what,
            e,
            m.deleted.len(),
            m.updates.len()
        )),
        (Ok(()), Verdict::Reject(why)) => Err(format!(
            "{}: accepted an input that must be refused ({})",
            what, why
        )),
        (Err(e), _) => {
            rep.parse_err = Some(note_err(1, e));
            Ok(None)
        }
        (Ok(()), Verdict::Accept(m)) | (Ok(()), Verdict::Either(m)) => {
            // content: through the delta's own writer with explicit sizes
            let wire = lib_delta_write(what, d, m.words())?;
            match model_delta(&wire, Table::None) {
                Verdict::Accept(back) | Verdict::Either(back) => {
                    ensure!(
                        back == *m,
                        "{}: delta content differs from the documented reading: holds {:?}, expected {:?}",
                        what,
                        back,
                        m
                    );
                    ensure!(
                        wire[0] as usize == m.deleted.len() && wire[1] as usize == m.updates.len() && wire[2] == 0,
                        "{}: written delta header {:?} for {} removals and {} item deltas",
                        what,
                        &wire[..3],
                        m.deleted.len(),
                        m.updates.len()
                    );
                }
                Verdict::Reject(why) => {
                    return Err(format!(
                        "{}: the accepted delta writes out as something malformed ({}): {}",
                        what,
                        why,
                        clip(&wire)
                    ))
                }
            }
            rep.parsed = true;
            rep.deleted = m.deleted.len();
            rep.updates = m.updates.len();
            Ok(Some(m.clone()))
        }
    }
}

fn apply_and_judge(
    k: &Known,
    what: &str,
    from: &Snap,
    fm: &Items,
    d: &Delta,
    dm: &DeltaModel,
    deep: bool,
    skipped: &mut bool,
) -> Result<Option<Report>, String> {
    let (verdict, mismatch_live) = model_apply(fm, dm);
    if mismatch_live && k.apply_mismatch {
        excluded();
        *skipped = true;
        return Ok(None);
    }
    let (res, r, w) = lib_apply(from, model_words(fm), d, dm.words())?;
    let rep = judge_snap(k, what, 2, &res, &r, &verdict, &w, deep)?;
    if deep && rep.accepted {
        if let Verdict::Accept(rm) | Verdict::Either(rm) = &verdict {
            check_pair(k, &format!("{}: result -> old", what), &res, rm, from, fm)?;
            check_pair(k, &format!("{}: old -> result", what), from, fm, &res, rm)?;
        }
    }
    Ok(Some(rep))
}

fn parse_from(from: &[i32]) -> Result<(Snap, Items), String> {
    let (s, r, _) = lib_snap_from_ints(from)?;
    match (r, model_snap(from)) {
        (Ok(()), Verdict::Accept(m)) | (Ok(()), Verdict::Either(m)) => Ok((s, m)),
        // disagreements are the snapshot oracle's business
        _ => Ok((Snap::empty(), Items::new())),
    }
}

fn delta_common(
    k: &Known,
    what: &str,
    d: &Delta,
    r: &Result<(), Error>,
    w: &Sink,
    verdict: &Verdict<DeltaModel>,
    from: &[i32],
    deep: bool,
) -> Result<DReport, String> {
    let mut rep = DReport {
        warnings: w.kinds,
        ..DReport::default()
    };
    let Some(dm) = judge_delta(what, d, r, verdict, &mut rep)? else {
        return Ok(rep);
    };
    let (fs, fm) = parse_from(from)?;
    rep.from_items = fm.len();
    let mut skipped = false;
    rep.applied = apply_and_judge(k, "read_with_delta(old, delta)", &fs, &fm, d, &dm, deep, &mut skipped)?;
    if !fm.is_empty() {
        rep.applied_empty = apply_and_judge(
            k,
            "read_with_delta(empty, delta)",
            &Snap::empty(),
            &Items::new(),
            d,
            &dm,
            deep,
            &mut skipped,
        )?;
    }
    rep.skipped_known = skipped;
    Ok(rep)
}

/// Delta from words, applied to the snapshot given as words (the empty one if that is refused) and to the empty one.
pub fn oracle_delta_ints(k: &Known, table: Table, delta: &[i32], from: &[i32], deep: bool) -> Result<DReport, String> {
    VARIANTS.fetch_add(1, Ordering::Relaxed);
    let (d, r, w) = lib_delta_from_ints(table, delta)?;
    let verdict = model_delta(delta, table);
    let mut rep = delta_common(k, "Delta::read_from_ints", &d, &r, &w, &verdict, from, deep)?;
    rep.hostile = rep.parsed && w.n > 0;
    Ok(rep)
}

/// Delta from bytes (varint form).
pub fn oracle_delta_bytes(k: &Known, table: Table, delta: &[u8], from: &[i32], deep: bool) -> Result<DReport, String> {
    VARIANTS.fetch_add(1, Ordering::Relaxed);
    let (d, r, w) = lib_delta_from_bytes(table, delta)?;
    let (ints, incomplete) = decode_varints(delta);
    let verdict = if incomplete {
        Verdict::Reject("input ends inside an integer")
    } else {
        model_delta(&ints, table)
    };
    let mut rep = delta_common(k, "Delta::read", &d, &r, &w, &verdict, from, deep)?;
    rep.hostile = rep.parsed && w.n > 0;
    Ok(rep)
}

// ---------------------------------------------------------------------------
// Structured inputs

const UUID_POOL: [[i32; 4]; 5] = [
    [0x1a3fcc94, 0x1e53461e, -0x6ed1dee0, 0x0882024b],
    [1, 2, 3, 4],
    [-1, -1, -1, -1],
    [0, 0, 0, 0],
    [i32::MIN, i32::MAX, 0, 1],
];

#[derive(Clone, Debug, Hash, Serialize, Deserialize)]
pub enum Chunk {
    One { ty: u16, id: u16, data: Vec<i32> },
    /// `count` items (ty, id0 + i) of `len` words each
    Run { ty: u16, id0: u16, count: u16, len: u8, fill: i32 },
    /// one item of `len` words
    Big { ty: u16, id: u16, len: u16, fill: i32 },
    /// registry entry (0, tnum) holding the first `len` words of a pool uuid (padded with 7s beyond 4),
    /// followed by `uses` items of type `tnum`
    Reg { tnum: u16, which: u8, len: u8, uses: u8 },
    /// `count` registry entries (0, start + i * step) with distinct uuids
    Ladder { start: u16, step: u16, count: u16 },
}

#[derive(Clone, Debug, Hash, Serialize, Deserialize)]
pub struct SnapSpec {
    pub chunks: Vec<Chunk>,
}

pub fn expand(spec: &SnapSpec) -> Vec<(u32, Vec<i32>)> {
    let mut out = Vec::new();
    for c in &spec.chunks {
        match c {
            Chunk::One { ty, id, data } => out.push((mk_key(*ty, *id), data.clone())),
            Chunk::Run { ty, id0, count, len, fill } => {
                for i in 0..*count {
                    let mut d = vec![*fill; *len as usize];
                    if let Some(x) = d.first_mut() {
                        *x = i as i32;
                    }
                    out.push((mk_key(*ty, id0.wrapping_add(i)), d));
                }
            }
            Chunk::Big { ty, id, len, fill } => out.push((mk_key(*ty, *id), vec![*fill; *len as usize])),
            Chunk::Reg { tnum, which, len, uses } => {
                let u = UUID_POOL[*which as usize % UUID_POOL.len()];
                let mut d: Vec<i32> = u.to_vec();
                d.resize((*len as usize).max(4), 7);
                d.truncate(*len as usize);
                out.push((mk_key(0, *tnum), d));
                for i in 0..*uses {
                    out.push((mk_key(*tnum, i as u16), vec![i as i32, 5]));
                }
            }
            Chunk::Ladder { start, step, count } => {
                for i in 0..*count {
                    let id = start.wrapping_add(step.wrapping_mul(i));
                    out.push((mk_key(0, id), vec![0x4c4144, i as i32, *start as i32, *step as i32]));
                }
            }
        }
    }
    out
}

fn dedup(items: Vec<(u32, Vec<i32>)>) -> Vec<(u32, Vec<i32>)> {
    let mut seen = BTreeSet::new();
    items.into_iter().filter(|(k, _)| seen.insert(*k)).collect()
}

/// Repairs what would make the reader refuse a (deduplicated) item list for registry reasons:
/// short registry items, repeated uuids, extended types without registry entry.
pub fn make_acceptable(items: Vec<(u32, Vec<i32>)>) -> Vec<(u32, Vec<i32>)> {
    let mut items = dedup(items);
    let mut uuids = BTreeSet::new();
    for (k, d) in items.iter_mut() {
        if key_type(*k) == 0 {
            if d.len() < 4 {
                d.resize(4, 0x55);
            }
            while !uuids.insert([d[0], d[1], d[2], d[3]]) {
                d[3] = d[3].wrapping_add(1);
            }
        }
    }
    let have: BTreeSet<u32> = items.iter().map(|(k, _)| *k).collect();
    let mut added = BTreeSet::new();
    for i in 0..items.len() {
        let t = key_type(items[i].0);
        if t >= 0x4000 && !have.contains(&mk_key(0, t)) && added.insert(t) {
            let mut u = [0x5555, t as i32, 1, 2];
            while !uuids.insert(u) {
                u[3] += 1;
            }
            items.push((mk_key(0, t), u.to_vec()));
        }
    }
    items
}

/// Positions of the structural fields of a wire form, by group.
#[derive(Clone, Debug, Default)]
pub struct Layout {
    pub groups: Vec<Vec<usize>>,
    pub count: i32,
}

/// Our own writer: items in the given order, duplicates and all.
pub fn snap_wire(items: &[(u32, Vec<i32>)]) -> (Vec<i32>, Layout) {
    let n = items.len();
    let data: usize = items.iter().map(|(_, d)| d.len() + 1).sum();
    let mut out = Vec::with_capacity(2 + n + data);
    out.push((data as i64 * 4) as i32);
    out.push(n as i32);
    let mut lay = Layout {
        groups: vec![vec![0], vec![1], vec![], vec![], vec![]],
        count: n as i32,
    };
    let mut off = 0usize;
    for (i, (_, d)) in items.iter().enumerate() {
        lay.groups[2].push(2 + i);
        out.push((off as i64 * 4) as i32);
        off += d.len() + 1;
    }
    for (k, d) in items {
        lay.groups[3].push(out.len());
        out.push(*k as i32);
        for (j, &x) in d.iter().enumerate() {
            if j < 4 {
                lay.groups[4].push(out.len());
            }
            out.push(x);
        }
    }
    (out, lay)
}

#[derive(Clone, Debug, Hash, Serialize, Deserialize)]
pub enum Val {
    Abs(i32),
    Add(i32),
    /// item / entry count of the structure plus this
    Count(i32),
    /// replace the upper 16 bits
    Hi(u16),
    /// replace the lower 16 bits
    Lo(u16),
}

#[derive(Clone, Debug, Hash, Serialize, Deserialize)]
pub enum Mutation {
    /// set the `idx`-th field of structural group `group` (falls back to any word)
    Set { group: u8, idx: u16, val: Val },
    SetAny { idx: u16, val: Val },
    Truncate { at: u16 },
    Append { words: Vec<i32> },
    Remove { at: u16 },
    Insert { at: u16, word: i32 },
    /// copy word `from` over word `to`
    Copy { from: u16, to: u16 },
}

fn resolve(val: &Val, cur: i32, count: i32) -> i32 {
    match val {
        Val::Abs(x) => *x,
        Val::Add(d) => cur.wrapping_add(*d),
        Val::Count(d) => count.wrapping_add(*d),
        Val::Hi(t) => (((*t as u32) << 16) | (cur as u32 & 0xffff)) as i32,
        Val::Lo(i) => ((cur as u32 & 0xffff_0000) | *i as u32) as i32,
    }
}

pub fn mutate(ints: &mut Vec<i32>, lay: &Layout, m: &Mutation) {
    match m {
        Mutation::Set { group, idx, val } => {
            let g = &lay.groups[*group as usize % lay.groups.len()];
            let pos = if g.is_empty() {
                if ints.is_empty() {
                    return;
                }
                pick(*idx, ints.len())
            } else {
                g[pick(*idx, g.len())]
            };
            if pos < ints.len() {
                ints[pos] = resolve(val, ints[pos], lay.count);
            }
        }
        Mutation::SetAny { idx, val } => {
            if !ints.is_empty() {
                let pos = pick(*idx, ints.len());
                ints[pos] = resolve(val, ints[pos], lay.count);
            }
        }
        Mutation::Truncate { at } => {
            let l = pick(*at, ints.len() + 1);
            ints.truncate(l);
        }
        Mutation::Append { words } => ints.extend_from_slice(words),
        Mutation::Remove { at } => {
            if !ints.is_empty() {
                let pos = pick(*at, ints.len());
                ints.remove(pos);
            }
        }
        Mutation::Insert { at, word } => {
            let pos = pick(*at, ints.len() + 1);
            ints.insert(pos, *word);
        }
        Mutation::Copy { from, to } => {
            if !ints.is_empty() {
                let (a, b) = (pick(*from, ints.len()), pick(*to, ints.len()));
                ints[b] = ints[a];
            }
        }
    }
}

#[derive(Clone, Debug, Hash, Serialize, Deserialize)]
pub enum ByteMut {
    Truncate { at: u16 },
    Set { at: u16, byte: u8 },
    Append { bytes: Vec<u8> },
    Remove { at: u16 },
}

pub fn mutate_bytes(b: &mut Vec<u8>, m: &ByteMut) {
    match m {
        ByteMut::Truncate { at } => {
            let l = pick(*at, b.len() + 1);
            b.truncate(l);
        }
        ByteMut::Set { at, byte } => {
            if !b.is_empty() {
                let p = pick(*at, b.len());
                b[p] = *byte;
            }
        }
        ByteMut::Append { bytes } => b.extend_from_slice(bytes),
        ByteMut::Remove { at } => {
            if !b.is_empty() {
                let p = pick(*at, b.len());
                b.remove(p);
            }
        }
    }
}

#[derive(Clone, Debug, Hash, Serialize, Deserialize)]
pub enum Wire {
    Ints,
    Bytes(Vec<ByteMut>),
}

#[derive(Clone, Debug, Hash, Serialize, Deserialize)]
pub struct SnapCase {
    pub spec: SnapSpec,
    pub muts: Vec<Mutation>,
    pub wire: Wire,
}

// --- deltas

#[derive(Clone, Debug, Hash, Serialize, Deserialize)]
pub enum KeySel {
    Lit { ty: i32, id: i32 },
    /// key of the `n`-th item of the old snapshot
    From(u16),
}

#[derive(Clone, Debug, Hash, Serialize, Deserialize)]
pub struct Upd {
    pub key: KeySel,
    pub data: Vec<i32>,
    /// for `KeySel::From`: give the difference the size of the old item
    pub match_len: bool,
}

#[derive(Clone, Debug, Hash, Serialize, Deserialize)]
pub struct DeltaSpec {
    pub deleted: Vec<KeySel>,
    pub updates: Vec<Upd>,
    pub nd_off: i32,
    pub nu_off: i32,
    pub pad: i32,
}

pub fn delta_wire(spec: &DeltaSpec, from: &[(u32, Vec<i32>)], table: Table) -> (Vec<i32>, Layout) {
    let sel = |k: &KeySel| -> (i32, i32, Option<usize>) {
        match k {
            KeySel::Lit { ty, id } => (*ty, *id, None),
            KeySel::From(n) => {
                if from.is_empty() {
                    (1, 0, None)
                } else {
                    let i = pick(*n, from.len());
                    (key_type(from[i].0) as i32, key_id(from[i].0) as i32, Some(from[i].1.len()))
                }
            }
        }
    };
    let mut lay = Layout {
        groups: vec![vec![0], vec![1], vec![2], vec![], vec![], vec![], vec![], vec![]],
        count: spec.updates.len() as i32,
    };
    let mut out = vec![
        (spec.deleted.len() as i32).wrapping_add(spec.nd_off),
        (spec.updates.len() as i32).wrapping_add(spec.nu_off),
        spec.pad,
    ];
    for k in &spec.deleted {
        let (ty, id, _) = sel(k);
        lay.groups[3].push(out.len());
        out.push(((ty as u32) << 16 | (id as u32 & 0xffff)) as i32);
    }
    for u in &spec.updates {
        let (ty, id, old_len) = sel(&u.key);
        let mut data = u.data.clone();
        if let (true, Some(l)) = (u.match_len, old_len) {
            data.resize(l, 1);
        }
        let pre = if (0..=0xffff).contains(&ty) { table_size(table, ty as u16) } else { None };
        lay.groups[4].push(out.len());
        out.push(ty);
        lay.groups[5].push(out.len());
        out.push(id);
        match pre {
            Some(s) if s <= 64 => data.resize(s as usize, 2),
            Some(_) => {}
            None => {
                lay.groups[6].push(out.len());
                out.push(data.len() as i32);
            }
        }
        for (j, &x) in data.iter().enumerate() {
            if j < 4 {
                lay.groups[7].push(out.len());
            }
            out.push(x);
        }
    }
    (out, lay)
}

#[derive(Clone, Debug, Hash, Serialize, Deserialize)]
pub struct DeltaCase {
    /// repair the old snapshot so that it is accepted (see `make_acceptable`)
    pub fix_from: bool,
    pub from: SnapSpec,
    pub delta: DeltaSpec,
    pub muts: Vec<Mutation>,
    pub table: Table,
    pub wire: Wire,
}

#[derive(Clone, Debug, Hash, Serialize, Deserialize)]
pub struct PairCase {
    pub a: SnapSpec,
    pub b: SnapSpec,
    /// keys of `a` (by index) that `b` holds too, with this data (`true`: resized to the size in `a`)
    pub share: Vec<(u16, Vec<i32>, bool)>,
}

#[derive(Clone, Debug, Hash, Serialize, Deserialize)]
pub struct RandomWords {
    pub words: Vec<i32>,
    pub table: Table,
}

#[derive(Clone, Debug, Hash, Serialize, Deserialize)]
pub struct RandomBytes {
    pub bytes: Vec<u8>,
    pub table: Table,
}

// ---------------------------------------------------------------------------
// Strategies

const WORDS: [i32; 30] = [
    0, 1, -1, 2, 3, 4, 5, 8, 12, 16, -4, i32::MIN, i32::MAX, 0x7fff_fffc, 1023, 1024, 1025, 16383, 16384, 16385,
    65532, 65536, 65540, 0x3fff, 0x4000, 0x7fff, 0x8000, 0xffff, 0x10000, -0x8000,
];
const HALVES: [u16; 10] = [0, 1, 0x3fff, 0x4000, 0x4001, 0x40ff, 0x7fff, 0x8000, 0xfffe, 0xffff];

pub(crate) fn word() -> BoxedStrategy<i32> {
    prop_oneof![
        4 => -3i32..=6,
        3 => proptest::sample::select(&WORDS[..]),
        1 => 0i32..70000,
        2 => any::<i32>(),
    ]
    .boxed()
}

fn ty_strategy() -> BoxedStrategy<u16> {
    prop_oneof![
        5 => 1u16..=20,
        2 => Just(0u16),
        2 => proptest::sample::select(&[0x3fffu16, 0x4000, 0x4001, 0x40ff, 0x7fff, 0x8000, 0x8001, 0xffff][..]),
        1 => proptest::sample::select(&[30u16, 31, 21][..]),
        1 => any::<u16>(),
    ]
    .boxed()
}

fn id_strategy() -> BoxedStrategy<u16> {
    prop_oneof![
        5 => 0u16..6,
        2 => proptest::sample::select(&[0u16, 1, 0xff, 0x100, 0x3fff, 0x4000, 0x4001, 0x40ff, 0x41fe, 0x7eff, 0x7f00, 0x7fff, 0x8000, 0xfffe, 0xffff][..]),
        1 => any::<u16>(),
    ]
    .boxed()
}

fn data_strategy() -> BoxedStrategy<Vec<i32>> {
    prop_oneof![
        6 => proptest::collection::vec(word(), 0..=6),
        1 => proptest::collection::vec(word(), 7..=30),
        1 => (0usize..UUID_POOL.len(), 0usize..=6).prop_map(|(w, l)| {
            let mut d = UUID_POOL[w].to_vec();
            d.resize(l.max(4), 9);
            d.truncate(l);
            d
        }),
    ]
    .boxed()
}

/// `hostile`: how much of the strange material (registry damage, ladders, bulk) to include
fn chunk_strategy(hostile: bool) -> BoxedStrategy<Chunk> {
    let one = (ty_strategy(), id_strategy(), data_strategy()).prop_map(|(ty, id, data)| Chunk::One { ty, id, data });
    let table_item = (1u16..=20, id_strategy(), word(), any::<bool>()).prop_map(|(ty, id, fill, ok)| {
        let l = SIZES_06[ty as usize] as usize;
        Chunk::One { ty, id, data: vec![fill; if ok { l } else { l + 1 }] }
    });
    let reg = (
        prop_oneof![6 => 0x4000u16..0x4004, 1 => proptest::sample::select(&[0x7fffu16, 0x8000, 0x8001, 0xffff][..]), 2 => id_strategy()],
        0u8..UUID_POOL.len() as u8,
        prop_oneof![8 => Just(4u8), 1 => 0u8..=3, 1 => 5u8..=6],
        0u8..3,
    )
        .prop_map(|(tnum, which, len, uses)| Chunk::Reg { tnum, which, len, uses });
    if !hostile {
        return prop_oneof![6 => one, 2 => table_item, 2 => reg].boxed();
    }
    let run = (ty_strategy(), id_strategy(), prop_oneof![3 => 0u16..40, 1 => 1000u16..1040], 0u8..=16, word())
        .prop_map(|(ty, id0, count, len, fill)| Chunk::Run { ty, id0, count, len, fill });
    let big = (ty_strategy(), id_strategy(), prop_oneof![1 => 100u16..2000, 1 => 14000u16..17000], word())
        .prop_map(|(ty, id, len, fill)| Chunk::Big { ty, id, len, fill });
    let ladder = (
        prop_oneof![2 => Just(0x4000u16), 1 => Just(0x40ffu16), 1 => id_strategy()],
        prop_oneof![2 => 250u16..=257, 1 => 1u16..300],
        prop_oneof![2 => 0u16..8, 1 => 60u16..70, 1 => 185u16..200],
    )
        .prop_map(|(start, step, count)| Chunk::Ladder { start, step, count });
    prop_oneof![30 => one, 6 => table_item, 10 => reg, 3 => run, 1 => big, 2 => ladder].boxed()
}

fn spec_strategy(hostile: bool, max_chunks: usize) -> BoxedStrategy<SnapSpec> {
    proptest::collection::vec(chunk_strategy(hostile), 0..=max_chunks)
        .prop_map(|chunks| SnapSpec { chunks })
        .boxed()
}

/// Snapshots whose serialised size lands within a few words of 64 KiB or whose item count is near 1024.
fn limit_spec_strategy() -> BoxedStrategy<SnapSpec> {
    let size = (proptest::collection::vec(chunk_strategy(false), 0..4), -3i32..=3, ty_strategy(), id_strategy()).prop_map(
        |(chunks, d, ty, id)| {
            let mut spec = SnapSpec { chunks };
            let items = dedup(expand(&spec));
            let used = 2 + 2 * (items.len() + 1) + items.iter().map(|(_, d)| d.len()).sum::<usize>();
            let len = (LIMIT_WORDS as i32 - used as i32 + d).clamp(0, 17000) as u16;
            spec.chunks.push(Chunk::Big { ty, id, len, fill: 1 });
            spec
        },
    );
    let count = (1u16..=20, 1018u16..=1030, 0u8..=14, proptest::collection::vec(chunk_strategy(false), 0..3)).prop_map(
        |(ty, count, len, mut chunks)| {
            chunks.push(Chunk::Run { ty, id0: 100, count, len, fill: 3 });
            SnapSpec { chunks }
        },
    );
    prop_oneof![size, count].boxed()
}

fn val_strategy() -> BoxedStrategy<Val> {
    prop_oneof![
        4 => proptest::sample::select(&WORDS[..]).prop_map(Val::Abs),
        1 => any::<i32>().prop_map(Val::Abs),
        3 => proptest::sample::select(&[1i32, -1, 4, -4, 2, 8, -8][..]).prop_map(Val::Add),
        2 => (-2i32..=2).prop_map(Val::Count),
        2 => proptest::sample::select(&HALVES[..]).prop_map(Val::Hi),
        2 => proptest::sample::select(&HALVES[..]).prop_map(Val::Lo),
    ]
    .boxed()
}

fn mutation_strategy(groups: u8) -> BoxedStrategy<Mutation> {
    prop_oneof![
        8 => (0..groups, any::<u16>(), val_strategy()).prop_map(|(group, idx, val)| Mutation::Set { group, idx, val }),
        2 => (any::<u16>(), val_strategy()).prop_map(|(idx, val)| Mutation::SetAny { idx, val }),
        2 => any::<u16>().prop_map(|at| Mutation::Truncate { at }),
        1 => proptest::collection::vec(word(), 1..5).prop_map(|words| Mutation::Append { words }),
        1 => any::<u16>().prop_map(|at| Mutation::Remove { at }),
        1 => (any::<u16>(), word()).prop_map(|(at, word)| Mutation::Insert { at, word }),
        1 => (any::<u16>(), any::<u16>()).prop_map(|(from, to)| Mutation::Copy { from, to }),
    ]
    .boxed()
}

pub(crate) fn muts_strategy(groups: u8) -> BoxedStrategy<Vec<Mutation>> {
    prop_oneof![
        1 => Just(Vec::new()),
        5 => proptest::collection::vec(mutation_strategy(groups), 1..=1),
        2 => proptest::collection::vec(mutation_strategy(groups), 2..=3),
    ]
    .boxed()
}

pub(crate) fn byte_muts_strategy() -> BoxedStrategy<Vec<ByteMut>> {
    let m = prop_oneof![
        3 => any::<u16>().prop_map(|at| ByteMut::Truncate { at }),
        3 => (any::<u16>(), prop_oneof![any::<u8>(), proptest::sample::select(&[0u8, 0x80, 0xff, 0x40, 0x7f, 0xc0][..])])
            .prop_map(|(at, byte)| ByteMut::Set { at, byte }),
        1 => proptest::collection::vec(any::<u8>(), 1..4).prop_map(|bytes| ByteMut::Append { bytes }),
        1 => any::<u16>().prop_map(|at| ByteMut::Remove { at }),
    ];
    proptest::collection::vec(m, 0..=2).boxed()
}

fn snap_case_strategy(bytes: bool) -> BoxedStrategy<SnapCase> {
    let spec = prop_oneof![8 => spec_strategy(true, 6), 1 => limit_spec_strategy()];
    if bytes {
        (spec, muts_strategy(5), byte_muts_strategy())
            .prop_map(|(spec, muts, bm)| SnapCase { spec, muts, wire: Wire::Bytes(bm) })
            .boxed()
    } else {
        (spec, muts_strategy(5)).prop_map(|(spec, muts)| SnapCase { spec, muts, wire: Wire::Ints }).boxed()
    }
}

fn keysel_strategy() -> BoxedStrategy<KeySel> {
    prop_oneof![
        5 => any::<u16>().prop_map(KeySel::From),
        4 => (ty_strategy(), id_strategy()).prop_map(|(ty, id)| KeySel::Lit { ty: ty as i32, id: id as i32 }),
        1 => (word(), word()).prop_map(|(ty, id)| KeySel::Lit { ty, id }),
    ]
    .boxed()
}

pub(crate) fn delta_spec_strategy(max: usize) -> BoxedStrategy<DeltaSpec> {
    let upd = (keysel_strategy(), data_strategy(), proptest::bool::weighted(0.7))
        .prop_map(|(key, data, match_len)| Upd { key, data, match_len });
    let off = || prop_oneof![8 => Just(0i32), 1 => -2i32..=2, 1 => word()];
    (
        proptest::collection::vec(keysel_strategy(), 0..=max),
        proptest::collection::vec(upd, 0..=max),
        off(),
        off(),
        prop_oneof![6 => Just(0i32), 1 => word()],
    )
        .prop_map(|(deleted, updates, nd_off, nu_off, pad)| DeltaSpec { deleted, updates, nd_off, nu_off, pad })
        .boxed()
}

pub(crate) fn table_strategy() -> BoxedStrategy<Table> {
    prop_oneof![4 => Just(Table::None), 4 => Just(Table::V06), 1 => Just(Table::Huge)].boxed()
}

fn delta_case_strategy(bytes: bool) -> BoxedStrategy<DeltaCase> {
    let from = prop_oneof![10 => spec_strategy(false, 6), 2 => spec_strategy(true, 4), 1 => limit_spec_strategy()];
    let wire = if bytes { byte_muts_strategy().prop_map(Wire::Bytes).boxed() } else { Just(Wire::Ints).boxed() };
    (proptest::bool::weighted(0.85), from, delta_spec_strategy(5), muts_strategy(8), table_strategy(), wire)
        .prop_map(|(fix_from, from, delta, muts, table, wire)| DeltaCase { fix_from, from, delta, muts, table, wire })
        .boxed()
}

// ---------------------------------------------------------------------------
// Case checks

pub fn snap_case_ints(c: &SnapCase) -> Vec<i32> {
    let items = expand(&c.spec);
    let (mut ints, lay) = snap_wire(&items);
    for m in &c.muts {
        mutate(&mut ints, &lay, m);
    }
    ints
}

fn snap_outcome(rep: &Report, input_len: usize) -> Outcome {
    let nt = input_len > 0 && (rep.err.is_some() || (rep.accepted && rep.hostile));
    let mut o = Outcome::nt(nt)
        .class_if(rep.accepted, "accepted")
        .class_if(rep.accepted && rep.hostile, "accepted_noncanonical")
        .class_if(rep.accepted && rep.items >= 1000, "accepted_ge_1000_items")
        .class_if(rep.accepted && rep.words * 4 >= 60 * 1024, "accepted_ge_60KiB")
        .class_if(rep.accepted && rep.registry > 0, "accepted_with_registry")
        .class_if(rep.accepted && rep.registry >= 2, "accepted_with_2plus_uuid_types")
        .class_if(rep.accepted && rep.high_types, "accepted_with_type_ge_0x8000")
        .class_if(rep.accepted && rep.warnings != 0, "accepted_with_warning");
    if let Some(e) = rep.err {
        o = o.class(e);
    }
    o
}

fn check_snap_case(k: &Known, c: &SnapCase) -> PResult {
    let ints = snap_case_ints(c);
    match &c.wire {
        Wire::Ints => {
            let rep = oracle_snap_ints(k, &ints, true)?;
            Ok(snap_outcome(&rep, ints.len()))
        }
        Wire::Bytes(bm) => {
            let mut bytes = varints(&ints);
            for m in bm {
                mutate_bytes(&mut bytes, m);
            }
            let rep = oracle_snap_bytes(k, &bytes, true)?;
            Ok(snap_outcome(&rep, bytes.len()))
        }
    }
}

fn delta_outcome(rep: &DReport, input_len: usize) -> Outcome {
    let applied_ok = rep.applied.as_ref().map(|r| r.accepted).unwrap_or(false);
    let applied_err = rep.applied.as_ref().and_then(|r| r.err).or(rep.applied_empty.as_ref().and_then(|r| r.err));
    let nt = input_len > 0 && (rep.parse_err.is_some() || applied_err.is_some() || (rep.parsed && (rep.hostile || rep.from_items > 0)));
    let mut o = Outcome::nt(nt)
        .class_if(rep.parsed, "delta_accepted")
        .class_if(rep.parsed && rep.warnings != 0, "delta_accepted_with_warning")
        .class_if(rep.parsed && rep.warnings & (1 << 3) != 0, "warn_duplicate_update")
        .class_if(rep.parsed && rep.warnings & (1 << 5) != 0, "warn_delete_update")
        .class_if(rep.parsed && rep.warnings & (1 << 2) != 0, "warn_duplicate_delete")
        .class_if(rep.parsed && rep.from_items > 0, "applied_to_nonempty")
        .class_if(applied_ok, "apply_accepted")
        .class_if(applied_ok && rep.from_items > 0 && rep.updates > 0, "apply_accepted_nonempty_with_updates")
        .class_if(rep.skipped_known, "skipped_known_size_mismatch")
        .class_if(rep.applied.as_ref().map(|r| r.warnings & (1 << 4) != 0).unwrap_or(false), "warn_unknown_delete");
    if let Some(e) = rep.parse_err {
        o = o.class(e);
    }
    if let Some(e) = applied_err {
        o = o.class(match e {
            "DeltaDifferingSizes" => "apply:DeltaDifferingSizes",
            "TooManyItems" => "apply:TooManyItems",
            "TooLongSnap" => "apply:TooLongSnap",
            "DuplicateUuidType" => "apply:DuplicateUuidType",
            "InvalidUuidType" => "apply:InvalidUuidType",
            "MissingUuidType" => "apply:MissingUuidType",
            _ => "apply:other",
        });
    }
    o
}

pub fn delta_case_inputs(c: &DeltaCase) -> (Vec<i32>, Vec<i32>) {
    let from_items = if c.fix_from { make_acceptable(expand(&c.from)) } else { dedup(expand(&c.from)) };
    let (from_ints, _) = snap_wire(&from_items);
    let (mut ints, lay) = delta_wire(&c.delta, &from_items, c.table);
    for m in &c.muts {
        mutate(&mut ints, &lay, m);
    }
    (from_ints, ints)
}

fn check_delta_case(k: &Known, c: &DeltaCase) -> PResult {
    let (from_ints, ints) = delta_case_inputs(c);
    match &c.wire {
        Wire::Ints => {
            let rep = oracle_delta_ints(k, c.table, &ints, &from_ints, true)?;
            Ok(delta_outcome(&rep, ints.len()))
        }
        Wire::Bytes(bm) => {
            let mut bytes = varints(&ints);
            for m in bm {
                mutate_bytes(&mut bytes, m);
            }
            let rep = oracle_delta_bytes(k, c.table, &bytes, &from_ints, true)?;
            Ok(delta_outcome(&rep, bytes.len()))
        }
    }
}

fn check_pair_case(k: &Known, c: &PairCase) -> PResult {
    let parse = |items: &[(u32, Vec<i32>)]| -> Result<Option<(Snap, Items)>, String> {
        let (ints, _) = snap_wire(items);
        let (s, r, _) = lib_snap_from_ints(&ints)?;
        Ok(match (r, model_snap(&ints)) {
            (Ok(()), Verdict::Accept(m)) | (Ok(()), Verdict::Either(m)) => Some((s, m)),
            _ => None,
        })
    };
    let a_items = make_acceptable(expand(&c.a));
    let mut b_items = Vec::new();
    if !a_items.is_empty() {
        for (idx, data, same) in &c.share {
            let (key, old) = &a_items[pick(*idx, a_items.len())];
            let mut d = data.clone();
            if *same {
                d.resize(old.len(), 3);
            }
            b_items.push((*key, d));
        }
    }
    b_items.extend(expand(&c.b));
    let b_items = make_acceptable(b_items);
    let (Some((a, am)), Some((b, bm))) = (parse(&a_items)?, parse(&b_items)?) else {
        return Ok(Outcome::trivial().class("not_both_accepted"));
    };
    let mismatch = am.iter().any(|(key, d)| bm.get(key).map(|e| e.len() != d.len()).unwrap_or(false));
    let common = am.keys().filter(|key| bm.contains_key(key)).count();
    check_pair(k, "a -> b", &a, &am, &b, &bm)?;
    check_pair(k, "b -> a", &b, &bm, &a, &am)?;
    Ok(Outcome::nt(!am.is_empty() && !bm.is_empty() && !(mismatch && k.create_mismatch))
        .class_if(common > 0, "common_keys")
        .class_if(mismatch, "size_mismatch_on_common_key")
        .class_if(am.len() + bm.len() > 100, "over_100_items"))
}

fn sweep_values(cur: i32, count: i32) -> Vec<i32> {
    let mut v: Vec<i32> = WORDS.to_vec();
    for d in [1i32, -1, 4, -4] {
        v.push(cur.wrapping_add(d));
    }
    v.push(count + 1);
    v.push(count - 1);
    v.push((count + 1) * 4);
    for h in HALVES {
        v.push((((h as u32) << 16) | (cur as u32 & 0xffff)) as i32);
        v.push(((cur as u32 & 0xffff_0000) | h as u32) as i32);
    }
    v.sort();
    v.dedup();
    v.retain(|&x| x != cur);
    v
}

const BYTE_VALUES: [u8; 6] = [0x00, 0x3f, 0x40, 0x80, 0xc0, 0xff];

/// Every single-word corruption of a small valid snapshot with every boundary value, every
/// truncation of the word form, every truncation and boundary-byte corruption of the byte form.
fn check_snap_sweep(k: &Known, spec: &SnapSpec) -> PResult {
    let items = dedup(expand(spec));
    let (ints, lay) = snap_wire(&items);
    ensure!(ints.len() <= 400, "generator: sweep base too large");
    let base = oracle_snap_ints(k, &ints, true).map_err(|e| format!("[unmodified] {}", e))?;
    let mut acc_hostile = 0u32;
    let mut rejected = 0u32;
    let mut tally = |r: &Report| {
        if r.accepted && r.hostile {
            acc_hostile += 1;
        }
        if r.err.is_some() {
            rejected += 1;
        }
    };
    let mut work = ints.clone();
    for pos in 0..ints.len() {
        for v in sweep_values(ints[pos], lay.count) {
            work[pos] = v;
            let r = oracle_snap_ints(k, &work, true).map_err(|e| format!("[word {} := {}] {}", pos, v, e))?;
            tally(&r);
        }
        work[pos] = ints[pos];
    }
    for cut in 0..ints.len() {
        let r = oracle_snap_ints(k, &ints[..cut], true).map_err(|e| format!("[first {} words] {}", cut, e))?;
        tally(&r);
    }
    let bytes = varints(&ints);
    for cut in 0..bytes.len() {
        let r = oracle_snap_bytes(k, &bytes[..cut], true).map_err(|e| format!("[first {} bytes] {}", cut, e))?;
        tally(&r);
    }
    let mut bw = bytes.clone();
    for pos in 0..bytes.len() {
        for b in BYTE_VALUES {
            if b != bytes[pos] {
                bw[pos] = b;
                let r = oracle_snap_bytes(k, &bw, true).map_err(|e| format!("[byte {} := {:#x}] {}", pos, b, e))?;
                tally(&r);
            }
        }
        bw[pos] = bytes[pos];
    }
    Ok(Outcome::nt(base.accepted && acc_hostile > 0 && rejected > 0)
        .class_if(base.accepted, "base_accepted")
        .class_if(acc_hostile > 0, "some_corruption_accepted")
        .class_if(base.registry > 0, "base_with_registry"))
}

#[derive(Clone, Debug, Hash, Serialize, Deserialize)]
pub struct DeltaSweepCase {
    pub from: SnapSpec,
    pub delta: DeltaSpec,
    pub table: Table,
}

fn check_delta_sweep(k: &Known, c: &DeltaSweepCase) -> PResult {
    let from_items = make_acceptable(expand(&c.from));
    let (from_ints, _) = snap_wire(&from_items);
    let (ints, lay) = delta_wire(&c.delta, &from_items, c.table);
    ensure!(ints.len() <= 400 && from_ints.len() <= 600, "generator: sweep base too large");
    let base = oracle_delta_ints(k, c.table, &ints, &from_ints, true).map_err(|e| format!("[unmodified] {}", e))?;
    let mut parsed = 0u32;
    let mut applied = 0u32;
    let mut rejected = 0u32;
    let mut tally = |r: &DReport| {
        if r.parsed {
            parsed += 1;
        }
        if r.applied.as_ref().map(|a| a.accepted).unwrap_or(false) {
            applied += 1;
        }
        if r.parse_err.is_some() || r.applied.as_ref().map(|a| a.err.is_some()).unwrap_or(false) {
            rejected += 1;
        }
    };
    let mut work = ints.clone();
    for pos in 0..ints.len() {
        for v in sweep_values(ints[pos], lay.count) {
            work[pos] = v;
            let r = oracle_delta_ints(k, c.table, &work, &from_ints, true)
                .map_err(|e| format!("[word {} := {}] {}", pos, v, e))?;
            tally(&r);
        }
        work[pos] = ints[pos];
    }
    for cut in 0..ints.len() {
        let r = oracle_delta_ints(k, c.table, &ints[..cut], &from_ints, true)
            .map_err(|e| format!("[first {} words] {}", cut, e))?;
        tally(&r);
    }
    let bytes = varints(&ints);
    for cut in 0..bytes.len() {
        let r = oracle_delta_bytes(k, c.table, &bytes[..cut], &from_ints, true)
            .map_err(|e| format!("[first {} bytes] {}", cut, e))?;
        tally(&r);
    }
    let mut bw = bytes.clone();
    for pos in 0..bytes.len() {
        for b in BYTE_VALUES {
            if b != bytes[pos] {
                bw[pos] = b;
                let r = oracle_delta_bytes(k, c.table, &bw, &from_ints, true)
                    .map_err(|e| format!("[byte {} := {:#x}] {}", pos, b, e))?;
                tally(&r);
            }
        }
        bw[pos] = bytes[pos];
    }
    Ok(Outcome::nt(base.parsed && applied > 0 && rejected > 0)
        .class_if(base.parsed, "base_accepted")
        .class_if(base.applied.as_ref().map(|a| a.accepted).unwrap_or(false), "base_applied")
        .class_if(base.from_items > 0, "old_snapshot_nonempty")
        .class_if(parsed > 0, "some_corruption_accepted"))
}

fn small_from_ints() -> Vec<i32> {
    let mut m = Items::new();
    m.insert(mk_key(1, 0), vec![1; 10]);
    m.insert(mk_key(5, 1), vec![7, 8, 9]);
    m.insert(mk_key(0, 0x4000), UUID_POOL[0].to_vec());
    m.insert(mk_key(0x4000, 2), vec![3]);
    m.insert(mk_key(21, 0), vec![]);
    model_serialize(&m)
}

fn check_random_words(k: &Known, c: &RandomWords) -> PResult {
    let s = oracle_snap_ints(k, &c.words, true)?;
    let from = small_from_ints();
    let d = oracle_delta_ints(k, c.table, &c.words, &from, true)?;
    let mut o = Outcome::nt(!c.words.is_empty())
        .class_if(s.accepted, "snap_accepted")
        .class_if(d.parsed, "delta_accepted")
        .class_if(d.applied.as_ref().map(|a| a.accepted).unwrap_or(false), "apply_accepted");
    if let Some(e) = s.err {
        o = o.class(e);
    }
    if let Some(e) = d.parse_err {
        o = o.class(e);
    }
    Ok(o)
}

fn check_random_bytes(k: &Known, c: &RandomBytes) -> PResult {
    let s = oracle_snap_bytes(k, &c.bytes, true)?;
    let from = small_from_ints();
    let d = oracle_delta_bytes(k, c.table, &c.bytes, &from, true)?;
    let mut o = Outcome::nt(!c.bytes.is_empty())
        .class_if(s.accepted, "snap_accepted")
        .class_if(d.parsed, "delta_accepted")
        .class_if(d.applied.as_ref().map(|a| a.accepted).unwrap_or(false), "apply_accepted");
    if let Some(e) = s.err {
        o = o.class(e);
    }
    if let Some(e) = d.parse_err {
        o = o.class(e);
    }
    Ok(o)
}

// ---------------------------------------------------------------------------
// Probes (one canonical input per finding)

fn one_item(ty: u16, id: u16, data: &[i32]) -> Vec<i32> {
    let mut m = Items::new();
    m.insert(mk_key(ty, id), data.to_vec());
    model_serialize(&m)
}

/// None: the library refuses the probe input (which settles the finding just as well).
fn parsed(ints: &[i32]) -> Result<Option<(Snap, Items)>, String> {
    let (s, r, _) = lib_snap_from_ints(ints)?;
    match (r, model_snap(ints)) {
        (Ok(()), Verdict::Accept(m)) | (Ok(()), Verdict::Either(m)) => Ok(Some((s, m))),
        (Err(_), Verdict::Either(_)) => Ok(None),
        (r, _) => Err(format!("probe input {} unexpectedly gives {:?}", clip(ints), r)),
    }
}

pub fn probe_apply_mismatch() -> Result<(), String> {
    // old snapshot {(1,0): [0]}, delta: update (1,0) with a two-word difference
    oracle_delta_ints(&Known::none(), Table::None, &[0, 1, 0, 1, 0, 2, 5, 5], &one_item(1, 0, &[0]), false).map(|_| ())
}

pub fn probe_create_mismatch() -> Result<(), String> {
    let (Some((a, am)), Some((b, bm))) = (parsed(&one_item(1, 0, &[0]))?, parsed(&one_item(1, 0, &[0, 0]))?) else {
        return Ok(());
    };
    check_pair(&Known::none(), "{(1,0):[0]} -> {(1,0):[0,0]}", &a, &am, &b, &bm)
}

pub fn probe_recycle_low() -> Result<(), String> {
    let Some((s, m)) = parsed(&one_item(0, 5, &UUID_POOL[1]))? else {
        return Ok(());
    };
    check_recycle(&Known { recycle_low: false, ..Known::all() }, "{(0,5): uuid}", &s, &m)
}

pub fn probe_recycle_ladder() -> Result<(), String> {
    let k = Known { recycle_ladder: false, recycle_uuid: false, ..Known::all() };
    // up to 0x8000: the next type number becomes 0x8000
    let spec = SnapSpec {
        chunks: vec![
            Chunk::Ladder { start: 0x40ff, step: 255, count: 64 },
            Chunk::One { ty: 0, id: 0x7fff, data: UUID_POOL[1].to_vec() },
        ],
    };
    if let Some((s, m)) = parsed(&snap_wire(&expand(&spec)).0)? {
        check_recycle(&k, "registry ids 0x40ff, 0x41fe, .. 0x7fc0, 0x7fff", &s, &m)?;
    }
    // up to 0xffff: next + 256 leaves the 16 bits
    let spec = SnapSpec {
        chunks: vec![
            Chunk::Ladder { start: 0x40ff, step: 255, count: 192 },
            Chunk::One { ty: 0, id: 0xffff, data: UUID_POOL[1].to_vec() },
        ],
    };
    if let Some((s, m)) = parsed(&snap_wire(&expand(&spec)).0)? {
        check_recycle(&k, "registry ids 0x40ff, 0x41fe, .. 0xff40, 0xffff", &s, &m)?;
    }
    Ok(())
}

fn two_uuid_types() -> Vec<i32> {
    let mut m = Items::new();
    m.insert(mk_key(0, 0x4000), UUID_POOL[0].to_vec());
    m.insert(mk_key(0, 0x4001), UUID_POOL[1].to_vec());
    model_serialize(&m)
}

pub fn probe_recycle_uuid() -> Result<(), String> {
    let Some((s, m)) = parsed(&two_uuid_types())? else {
        return Ok(());
    };
    check_recycle(&Known { recycle_uuid: false, ..Known::all() }, "{(0,0x4000): uuid A, (0,0x4001): uuid B}", &s, &m)
}

pub fn probe_recycle_high() -> Result<(), String> {
    let mut m = Items::new();
    m.insert(mk_key(0, 0x4000), UUID_POOL[0].to_vec());
    m.insert(mk_key(0, 0x8000), UUID_POOL[1].to_vec());
    m.insert(mk_key(0x8000, 0), vec![1]);
    let Some((s, m)) = parsed(&model_serialize(&m))? else {
        return Ok(());
    };
    check_recycle(
        &Known { recycle_high: false, recycle_uuid: false, ..Known::all() },
        "{(0,0x4000): uuid A, (0,0x8000): uuid B, (0x8000,0): [1]}",
        &s,
        &m,
    )
}

/// Performance only: the checks allocate and free many 64..80 KiB buffers per case; with glibc's
/// default trim threshold every such free at the top of an arena returns memory to the kernel and
/// the next allocation faults it back in (measured: 2x wall, 10x system time).
fn tune_malloc() {
    #[cfg(all(target_os = "linux", target_env = "gnu"))]
    unsafe {
        libc::mallopt(libc::M_TRIM_THRESHOLD, 512 << 20);
        libc::mallopt(libc::M_MMAP_THRESHOLD, 64 << 20);
    }
}

// ---------------------------------------------------------------------------

pub fn run(ctx: &Ctx) {
    ctx.set_rule(
        "snapshots/deltas written by the harness's own writer from structured specs (ordinal, registry, extended and >= 0x8000 types, \
         boundary ids, duplicate keys, registry ladders, runs near 1024 items, bodies near 64 KiB), then 0-3 wire corruptions (a structural \
         field or any word set to a boundary value / neighbour / count+-1 / swapped key half, truncation, insertion, removal, copy) and for \
         the byte form 0-2 byte corruptions; *_sweep sections take a small valid object and try every word x ~55 boundary values, every \
         word- and byte-truncation and 6 boundary values in every byte; random_* are plain words/bytes. Non-trivial = non-empty input that was \
         refused with an error variant, or accepted although it is not the canonical form of its content (deltas: accepted with warnings or \
         applied to a non-empty snapshot); sweeps: base accepted and at least one corruption accepted and one refused. Distinct by case hash.",
    );
    ctx.assume("accept/reject and accepted content are judged by a reference reader written from doc/snapshot.md, the mechanism list of the property and the limits 1024 items / 64 KiB");
    ctx.assume("varint decoding of the byte forms is taken from libtw2_packer::Unpacker (C08's subject)");
    ctx.assume("allocation bound checked: peak live bytes and largest single request of one call <= 64 x input bytes + 64 KiB (per-thread counting allocator)");
    ctx.assume("'never loops' is observed through callbacks only (warning sink, size table: fuel 4 x input bytes + 64) and the wall-clock watchdog");
    let k = Known::from_ctx(ctx);
    tune_malloc();

    ctx.probe(K_APPLY_MISMATCH, probe_apply_mismatch);
    ctx.probe(K_CREATE_MISMATCH, probe_create_mismatch);
    ctx.probe(K_RECYCLE_LOW, probe_recycle_low);
    ctx.probe(K_RECYCLE_LADDER, probe_recycle_ladder);
    ctx.probe(K_RECYCLE_UUID, probe_recycle_uuid);
    ctx.probe(K_RECYCLE_HIGH, || {
        if guard(probe_recycle_uuid).map(|r| r.is_err()).unwrap_or(true) {
            // masked: while the parsed registry loses its type numbers, recycle fails earlier on this input
            return Ok(());
        }
        probe_recycle_high()
    });

    ctx.prop("snap_ints", ctx.n(300_000, 4_000_000), || snap_case_strategy(false), |c: &SnapCase| check_snap_case(&k, c));
    ctx.prop("snap_bytes", ctx.n(150_000, 2_000_000), || snap_case_strategy(true), |c: &SnapCase| check_snap_case(&k, c));
    ctx.prop("snap_sweep", ctx.n(3_000, 40_000), || spec_strategy(false, 3), |c: &SnapSpec| check_snap_sweep(&k, c));
    ctx.prop("delta_ints", ctx.n(300_000, 4_000_000), || delta_case_strategy(false), |c: &DeltaCase| check_delta_case(&k, c));
    ctx.prop("delta_bytes", ctx.n(150_000, 2_000_000), || delta_case_strategy(true), |c: &DeltaCase| check_delta_case(&k, c));
    ctx.prop(
        "delta_sweep",
        ctx.n(2_000, 25_000),
        || {
            (spec_strategy(false, 3), delta_spec_strategy(3), table_strategy())
                .prop_map(|(from, delta, table)| DeltaSweepCase { from, delta, table })
        },
        |c: &DeltaSweepCase| check_delta_sweep(&k, c),
    );
    ctx.prop(
        "snap_pairs",
        ctx.n(100_000, 1_000_000),
        || {
            let s = || prop_oneof![6 => spec_strategy(false, 6), 3 => spec_strategy(true, 4), 1 => limit_spec_strategy()];
            let share = proptest::collection::vec((any::<u16>(), data_strategy(), proptest::bool::weighted(0.8)), 0..5);
            (s(), s(), share).prop_map(|(a, b, share)| PairCase { a, b, share })
        },
        |c: &PairCase| check_pair_case(&k, c),
    );
    ctx.prop(
        "random_words",
        ctx.n(250_000, 5_000_000),
        || (proptest::collection::vec(word(), 0..24), table_strategy()).prop_map(|(words, table)| RandomWords { words, table }),
        |c: &RandomWords| check_random_words(&k, c),
    );
    ctx.prop(
        "random_bytes",
        ctx.n(200_000, 5_000_000),
        || {
            let byte = prop_oneof![3 => any::<u8>(), 2 => 0u8..8, 1 => proptest::sample::select(&BYTE_VALUES[..])];
            (proptest::collection::vec(byte, 0..40), table_strategy()).prop_map(|(bytes, table)| RandomBytes { bytes, table })
        },
        |c: &RandomBytes| check_random_bytes(&k, c),
    );

    crate::c11_manager::run(ctx, &k);

    ctx.add_excluded_known(EXCLUDED.swap(0, Ordering::Relaxed));
    let mut hit = serde_json::Map::new();
    let mut distinct = BTreeSet::new();
    for (o, op) in OPS.iter().enumerate() {
        let mut per = serde_json::Map::new();
        for (i, name) in ERR_NAMES.iter().enumerate() {
            let n = ERR_SEEN[o][i].load(Ordering::Relaxed);
            if n > 0 {
                per.insert(name.to_string(), json!(n));
                distinct.insert(*name);
            }
        }
        hit.insert(op.to_string(), serde_json::Value::Object(per));
    }
    ctx.extra("error_variants_hit", serde_json::Value::Object(hit));
    ctx.extra("distinct_error_variants_hit", json!(distinct.len()));
    let missing: Vec<&str> = ERR_NAMES.iter().copied().filter(|n| !distinct.contains(n)).collect();
    ctx.extra("error_variants_missing", json!(missing));
    ctx.extra("library_inputs_judged", json!(VARIANTS.load(Ordering::Relaxed)));
    ctx.extra("parses_into_an_object_that_already_held_something_else", json!(REUSED.load(Ordering::Relaxed)));
}
