//! C02 - the connection makes progress: every call returns, chunks get through, deadlines are finite.
//!
//! Generator: adversarial prefix (C01's histories, chunk sizes over the whole accepted range) followed
//! by a fair suffix executed by the harness. Oracles: per-call fuel on every callback (termination),
//! finite deadline while anything is pending, bounded liveness under the fair scheduler.

use crate::netsim::*;
use crate::{Ctx, Outcome, PResult};
use proptest::prelude::*;
use serde::{Deserialize, Serialize};

pub const ORACLES: [&str; 3] = ["termination", "deadline", "liveness"];
pub const FAIR_ROUNDS: usize = 40;

#[derive(Clone, Debug, Hash, Serialize, Deserialize)]
pub struct Case {
    pub ops: Vec<Op>,
}

fn fail<T>(oracle: &'static str, msg: String) -> Result<T, Failure> {
    Err(Failure { oracle, msg })
}

/// (2) while anything is unsent, unacknowledged or mid-handshake the reported deadline is finite.
pub fn deadline_check<P: Proto>(sim: &Sim<P>) -> StepResult {
    for side in 0..2 {
        let (state, unacked, queued, rr) = P::summary(&sim.ends[side]);
        let mid_handshake = if P::IS7 {
            matches!(state, "Token" | "Connecting" | "Pending")
        } else {
            matches!(state, "Connecting" | "Pending")
        };
        let pending = mid_handshake || (state == "Online" && (unacked > 0 || queued > 0 || rr));
        if pending && !P::needs_tick(&sim.ends[side]).is_active() {
            return fail(
                "deadline",
                format!(
                    "{}: side {} is {} with {} unacknowledged / {} queued chunks (resend requested: {}) but needs_tick() reports no deadline",
                    P::NAME, side, state, unacked, queued, rr
                ),
            );
        }
    }
    Ok(())
}

fn run_case<P: Proto>(ops: &[Op], strip: bool, max_len: usize) -> PResult {
    let mut sim: Sim<P> = Sim::new(0xC02, strip);
    sim.max_len = max_len;
    let mut aborted = false;
    for (i, op) in ops.iter().enumerate() {
        let r = sim.step(op).and_then(|()| deadline_check(&sim));
        if let Err(f) = r {
            if ORACLES.contains(&f.oracle) {
                return Err(format!("op #{} {:?}: [{}] {}", i, op, f.oracle, f.msg));
            }
            aborted = true;
            break;
        }
    }
    let mut rounds = None;
    let mut pending_before = 0;
    let needed_retransmit = sim.stats.faults_on_vital > 0 || sim.stats.handshake_lost > 0;
    let mut had_max = false;
    if !aborted && sim.alive() {
        for s in 0..2 {
            pending_before += P::summary(&sim.ends[s]).1;
            had_max |= sim.submitted_vital[s][sim.delivered_vital[s]..].iter().any(|c| c.len() >= max_len.saturating_sub(2));
        }
        let before = sim.stats.clone();
        match sim.fair_suffix(FAIR_ROUNDS) {
            Ok(Some(r)) => rounds = Some(r),
            Ok(None) => {
                let mut detail = String::new();
                for s in 0..2 {
                    let (st, un, q, rr) = P::summary(&sim.ends[s]);
                    detail.push_str(&format!(
                        " side{}: {} unacked={} queued={} rr={} delivered_to_peer={}/{} deadline={:?};",
                        s, st, un, q, rr, sim.delivered_vital[s], sim.submitted_vital[s].len(),
                        P::needs_tick(&sim.ends[s]).to_opt().map(|t| t.as_usecs_since_epoch())
                    ));
                }
                return Err(format!(
                    "[liveness] {}: not quiescent after {} fair rounds (ready_seen={}, now={}us):{}",
                    P::NAME, FAIR_ROUNDS, sim.ready_seen, sim.now_us, detail
                ));
            }
            Err(f) => {
                if ORACLES.contains(&f.oracle) || f.oracle == "vital_prefix" {
                    return Err(format!("fair suffix: [{}] {}", f.oracle, f.msg));
                }
                aborted = true;
            }
        }
        let _ = before;
        if !aborted {
            deadline_check(&sim).map_err(|f| format!("after fair suffix: [{}] {}", f.oracle, f.msg))?;
        }
    }
    Ok(Outcome::nt(rounds.is_some() && needed_retransmit)
        .class_if(rounds.is_some(), "fair_suffix_ran")
        .class_if(rounds.map(|r| r >= 4).unwrap_or(false), "four_plus_rounds")
        .class_if(rounds.map(|r| r >= 10).unwrap_or(false), "ten_plus_rounds")
        .class_if(pending_before > 0, "unacked_at_suffix_start")
        .class_if(pending_before >= 20, "twenty_plus_unacked_at_suffix_start")
        .class_if(had_max, "largest_size_chunk_pending")
        .class_if(sim.stats.handshake_lost > 0, "handshake_datagram_faulted")
        .class_if(sim.stats.wrapped, "sequence_wrapped")
        .class_if(!sim.alive(), "session_not_alive_at_end")
        .class_if(aborted, "aborted_by_other_oracle"))
}

fn check(v: Variant, c: &Case, max_len: usize) -> PResult {
    match v {
        Variant::V6Token => run_case::<P6>(&c.ops, false, max_len),
        Variant::V6NoToken => run_case::<P6>(&c.ops, true, max_len),
        Variant::V7 => run_case::<P7>(&c.ops, false, max_len),
    }
}

/// Largest chunk length generated per variant: the largest the layer accepts.
pub fn max_len_for(v: Variant, ctx: &Ctx) -> usize {
    match v {
        Variant::V7 => {
            if ctx.known_open("v7-resend-spin-largest-chunk") {
                ctx.add_excluded_known(3);
                1387
            } else {
                1390
            }
        }
        _ => 1023,
    }
}

pub fn run_all(ctx: &Ctx) {
    let max_ops = ctx.sz(200, 1000) as usize;
    for v in VARIANTS {
        let max_len = max_len_for(v, ctx);
        ctx.prop(
            &format!("progress/{}", v.name()),
            ctx.n(3000, 200_000),
            || {
                // mostly no disconnects so that the liveness clause applies; a few with session ops
                (prop::bool::weighted(0.1), history_strategy(max_len, max_ops, false), history_strategy(max_len, max_ops, true))
                    .prop_map(|(s, a, b)| Case { ops: if s { b } else { a } })
            },
            |c: &Case| check(v, c, max_len),
        );
    }
    // canonical probe: the largest accepted vital chunk is lost once and must be resent
    ctx.probe("v7-resend-spin-largest-chunk", || {
        let mut ops = handshake_prelude();
        ops.push(Op::Send { side: 0, vital: true, len: 1390, fill: 3 });
        ops.push(Op::Flush { side: 0 });
        ops.push(Op::Drop { dir: 0, k: 0 });
        run_case::<P7>(&ops, false, 1390).map(|_| ())
    });
}

/// Bounded exhaustive schedule enumeration (C01's DFS) with the fair suffix appended at every state.
fn schedules(ctx: &Ctx) {
    let depth = ctx.sz(8, 11) as u32;
    for v in VARIANTS {
        for split in [1usize, 3] {
            let counts = std::sync::Mutex::new((0u64, 0u64));
            ctx.exhaustive(
                &format!("schedules/{}/split{}", v.name(), split),
                1,
                |_| {
                    let (mut st, mut tr) = (0, 0);
                    fn leaf<P: Proto>(sim: &Sim<P>) -> Result<(), String> {
                        deadline_check(sim).map_err(|f| format!("[{}] {}", f.oracle, f.msg))?;
                        let mut s = sim.snapshot();
                        match s.fair_suffix(FAIR_ROUNDS) {
                            Ok(Some(_)) => Ok(()),
                            Ok(None) => Err(format!("[liveness] {}: state not quiescent after {} fair rounds", P::NAME, FAIR_ROUNDS)),
                            Err(f) => Err(format!("fair suffix: [{}] {}", f.oracle, f.msg)),
                        }
                    }
                    let r = match v {
                        Variant::V6Token => crate::c01_vital::explore::<P6>(false, 3, split, depth, &mut st, &mut tr, &mut leaf::<P6>),
                        Variant::V6NoToken => crate::c01_vital::explore::<P6>(true, 3, split, depth, &mut st, &mut tr, &mut leaf::<P6>),
                        Variant::V7 => crate::c01_vital::explore::<P7>(false, 3, split, depth, &mut st, &mut tr, &mut leaf::<P7>),
                    };
                    *counts.lock().unwrap() = (st, tr);
                    r.map(|()| true)
                },
                |_| serde_json::json!({"scenario": "3 vital chunks, every deliver/drop/dup/tick schedule, fair suffix at every state", "split": split, "variant": v.name()}),
            );
            let (st, tr) = *counts.lock().unwrap();
            ctx.extra(&format!("dfs_{}_split{}", v.name(), split), serde_json::json!({"states": st, "transitions": tr, "depth": depth}));
        }
    }
}

/// Floods: one side submits 500..1000 small vital chunks without waiting for acknowledgements
/// (more than half the sequence space outstanding, still below the protocol's 1024 limit), the first
/// datagrams are lost, nothing is duplicated or delayed; then the fair suffix must drain everything.
#[derive(Clone, Debug, Hash, Serialize, Deserialize)]
pub struct Flood {
    pub side: u8,
    pub n: u16,
    pub len: u8,
    pub flush_every: u16,
    pub lose_first: u8,
    pub lose_acks: bool,
    pub peer_sends: u8,
}

fn run_flood<P: Proto>(f: &Flood, strip: bool) -> PResult {
    let mut sim: Sim<P> = Sim::new(0xF100D, strip);
    sim.max_unacked = 1010;
    sim.max_queued = 250;
    let side = (f.side & 1) as usize;
    let step = |sim: &mut Sim<P>, op: Op| -> Result<(), String> {
        sim.step(&op).and_then(|()| deadline_check(sim)).map_err(|e| format!("{:?}: [{}] {}", op, e.oracle, e.msg))
    };
    for op in handshake_prelude() {
        step(&mut sim, op)?;
    }
    // bring the acceptor online as a sender too
    step(&mut sim, Op::Send { side: 1, vital: true, len: 9, fill: 2 })?;
    step(&mut sim, Op::Flush { side: 1 })?;
    step(&mut sim, Op::DeliverAll { dir: 1 })?;
    step(&mut sim, Op::DeliverAll { dir: 0 })?;
    for i in 0..f.n {
        step(&mut sim, Op::Send { side: side as u8, vital: true, len: f.len as u16, fill: i as u8 })?;
        if f.flush_every > 0 && (i + 1) % f.flush_every == 0 {
            step(&mut sim, Op::Flush { side: side as u8 })?;
        }
    }
    step(&mut sim, Op::Flush { side: side as u8 })?;
    for _ in 0..f.lose_first {
        step(&mut sim, Op::Drop { dir: side as u8, k: 0 })?;
    }
    for i in 0..f.peer_sends {
        step(&mut sim, Op::Send { side: 1 - side as u8, vital: i % 2 == 0, len: 10, fill: i })?;
    }
    step(&mut sim, Op::DeliverAll { dir: side as u8 })?;
    if f.lose_acks {
        while !sim.net[1 - side].is_empty() {
            step(&mut sim, Op::Drop { dir: 1 - side as u8, k: 0 })?;
        }
    }
    let unacked = P::summary(&sim.ends[side]).1;
    match sim.fair_suffix(FAIR_ROUNDS) {
        Ok(Some(r)) => Ok(Outcome::nt(f.lose_first > 0 || f.lose_acks)
            .class_if(unacked >= 512, "over_half_the_sequence_space_unacked")
            .class_if(unacked >= 900, "nine_hundred_plus_unacked")
            .class_if(r >= 4, "four_plus_rounds")),
        Ok(None) => {
            let mut detail = String::new();
            for s in 0..2 {
                let (st, un, q, rr) = P::summary(&sim.ends[s]);
                detail.push_str(&format!(" side{}: {} unacked={} queued={} rr={} delivered_to_peer={}/{};", s, st, un, q, rr, sim.delivered_vital[s], sim.submitted_vital[s].len()));
            }
            Err(format!("[liveness] {}: flood of {} chunks ({} unacknowledged) not drained after {} fair rounds:{}", P::NAME, f.n, unacked, FAIR_ROUNDS, detail))
        }
        Err(e) => Err(format!("fair suffix after a flood of {} chunks: [{}] {}", f.n, e.oracle, e.msg)),
    }
}

fn floods(ctx: &Ctx) {
    for v in VARIANTS {
        ctx.prop(
            &format!("flood/{}", v.name()),
            ctx.n(40, 10_000),
            || {
                (0u8..2, prop_oneof![2 => 500u16..=1000, 1 => 511u16..=514, 1 => 1000u16..=1005], 0u8..12, prop_oneof![Just(0u16), Just(1), 2u16..300], 0u8..4, any::<bool>(), 0u8..4)
                    .prop_map(|(side, n, len, flush_every, lose_first, lose_acks, peer_sends)| Flood { side, n, len, flush_every, lose_first, lose_acks, peer_sends })
            },
            |f: &Flood| match v {
                Variant::V6Token => run_flood::<P6>(f, false),
                Variant::V6NoToken => run_flood::<P6>(f, true),
                Variant::V7 => run_flood::<P7>(f, false),
            },
        );
    }
}

pub fn run(ctx: &Ctx) {
    ctx.set_rule(
        "adversarial prefix = C01-style history (sends of every accepted size incl. the largest, flush, tick, clock advance, \
         deliver/drop/dup/reorder, bursts) then the harness-executed fair suffix (deliver all FIFO, tick at deadline, <= 40 rounds); \
         non-trivial = the prefix hit a datagram carrying a vital chunk or a handshake message with a fault, so the suffix needs a \
         retransmission, and the suffix ran; distinct by hash of the op list",
    );
    ctx.assume("bounded liveness under ONE fair scheduler (FIFO delivery, tick at the reported deadline); every callback burns fuel: a call that makes more than 50000 callback invocations is reported as non-terminating");
    ctx.assume("0.7 acceptor state PendingConnect reports no deadline; measured, not asserted (the connector retransmits)");
    run_all(ctx);
    schedules(ctx);
    floods(ctx);
    crate::c02_mesh::run(ctx);
}
