//! C09 - applying a snapshot delta reproduces the target snapshot.
//!
//! Oracles: (1) round trip `A.read_with_delta(create(A, B)) == B` directly and through both wire
//! forms, (2) an independent reader of the delta/snapshot wire forms written from doc/snapshot.md
//! (deleted keys = keys(A) \ keys(B), differences wrap, `_size` present iff not pre-agreed),
//! (3) metamorphic `create(A, A)`, (4) differential with the bundled DDNet reference.
//!
//! The `pub` items are shared with C10 (snapshot serialization round trip).

use crate::util::Warnings;
use crate::{burn, ensure, ensure_eq, Ctx, Outcome, PResult};
use libtw2_packer::{with_packer, IntUnpacker, Unpacker};
use libtw2_snapshot::format::TypeId;
use libtw2_snapshot::snap::{self, Builder, Delta, RawBuilder, RawSnap};
use libtw2_snapshot::Snap;
use libtw2_snapshot_reference::snap as refsnap;
use proptest::prelude::*;
use serde::{Deserialize, Serialize};
use serde_json::{json, Value};
use std::cell::RefCell;
use std::collections::{BTreeMap, BTreeSet};
use std::sync::atomic::{AtomicU64, Ordering};
use uuid::Uuid;

/// Key under which the UUID-registry defect (C10) is listed when it is open.
pub const KEY_UUID_REGISTRY: &str = "uuid-registry-after-read";

// ---------------------------------------------------------------------------
// Models written from doc/snapshot.md

pub const MAX_ITEMS: usize = 1024;
/// 64 KiB in 32-bit words.
pub const MAX_INTS: usize = 16 * 1024;

/// (type, id) -> data, ordered by the unsigned item key.
pub type RawModel = BTreeMap<(u16, u16), Vec<i32>>;
pub type TypedModel = BTreeMap<(TypeId, u16), Vec<i32>>;
/// type -> pre-agreed item size in words.
pub type SizeTable = BTreeMap<u16, u32>;

pub fn ukey(t: u16, id: u16) -> i32 {
    (((t as u32) << 16) | id as u32) as i32
}

pub fn split_key(k: i32) -> (u16, u16) {
    ((k as u32 >> 16) as u16, k as u32 as u16)
}

/// Does one more item with `len` data words fit next to `n_items` items with `n_words` data words?
pub fn fits(n_items: usize, n_words: usize, len: usize) -> bool {
    n_items + 1 <= MAX_ITEMS && 2 + 2 * (n_items + 1) + n_words + len <= MAX_INTS
}

pub fn model_words(m: &RawModel) -> usize {
    m.values().map(|d| d.len()).sum()
}

pub fn model_crc(m: &RawModel) -> i32 {
    m.values().flatten().fold(0i32, |s, &w| s.wrapping_add(w))
}

pub fn uuid_words(u: &[u8; 16]) -> [i32; 4] {
    let mut r = [0i32; 4];
    for i in 0..4 {
        r[i] = i32::from_be_bytes([u[4 * i], u[4 * i + 1], u[4 * i + 2], u[4 * i + 3]]);
    }
    r
}

pub fn words_uuid(w: &[i32]) -> [u8; 16] {
    let mut r = [0u8; 16];
    for i in 0..4 {
        r[4 * i..4 * i + 4].copy_from_slice(&w[i].to_be_bytes());
    }
    r
}

/// Reader for the integer wire form of a snapshot, written from doc/snapshot.md. Items in wire order.
pub fn parse_snap_ints(ints: &[i32]) -> Result<Vec<((u16, u16), Vec<i32>)>, String> {
    ensure!(ints.len() >= 2, "serialized snapshot has {} words, header needs 2", ints.len());
    let (data_size, num) = (ints[0], ints[1]);
    ensure!(data_size >= 0 && data_size % 4 == 0, "data_size {} is not a non-negative multiple of 4", data_size);
    ensure!(num >= 0, "num_items {} negative", num);
    let n = num as usize;
    let d = data_size as usize / 4;
    ensure_eq!(ints.len(), 2 + n + d, "serialized snapshot length vs header (num_items {}, data_size {})", num, data_size);
    let offs = &ints[2..2 + n];
    let items = &ints[2 + n..];
    if n == 0 {
        ensure!(d == 0, "no items but data_size {}", data_size);
    }
    let mut out = Vec::with_capacity(n);
    for i in 0..n {
        let off = offs[i];
        ensure!(off >= 0 && off % 4 == 0, "offset #{} = {} invalid", i, off);
        let start = off as usize / 4;
        if i == 0 {
            ensure!(start == 0, "first offset is {} instead of 0", off);
        }
        let end = if i + 1 < n {
            let o = offs[i + 1];
            ensure!(o >= 0 && o % 4 == 0, "offset #{} = {} invalid", i + 1, o);
            o as usize / 4
        } else {
            d
        };
        ensure!(start < end && end <= d, "item #{} spans words {}..{} of {}", i, start, end, d);
        out.push((split_key(items[start]), items[start + 1..end].to_vec()));
    }
    Ok(out)
}

pub fn to_raw_model(items: Vec<((u16, u16), Vec<i32>)>) -> Result<RawModel, String> {
    let mut m = RawModel::new();
    for (k, d) in items {
        ensure!(m.insert(k, d).is_none(), "serialized snapshot contains key {:?} twice", k);
    }
    Ok(m)
}

/// First difference between two raw models, rendered shortly.
pub fn first_diff<K: Ord + std::fmt::Debug + Clone>(got: &BTreeMap<K, Vec<i32>>, want: &BTreeMap<K, Vec<i32>>) -> Option<String> {
    for (k, d) in want {
        match got.get(k) {
            None => return Some(format!("item {:?} missing (expected data {:?})", k, clip(d))),
            Some(g) if g != d => return Some(format!("item {:?} has data {:?}, expected {:?}", k, clip(g), clip(d))),
            _ => {}
        }
    }
    for (k, d) in got {
        if !want.contains_key(k) {
            return Some(format!("unexpected item {:?} with data {:?}", k, clip(d)));
        }
    }
    None
}

pub fn clip(d: &[i32]) -> String {
    if d.len() <= 12 {
        format!("{:?}", d)
    } else {
        format!("{:?}.. ({} words)", &d[..12], d.len())
    }
}

pub fn eq_ints(got: &[i32], want: &[i32], what: &str) -> Result<(), String> {
    if got == want {
        return Ok(());
    }
    let i = got.iter().zip(want).position(|(a, b)| a != b).unwrap_or(got.len().min(want.len()));
    Err(format!(
        "{}: {} vs {} words, first difference at word {}: {:?} vs {:?}",
        what,
        got.len(),
        want.len(),
        i,
        got.get(i),
        want.get(i)
    ))
}

pub struct ParsedDelta {
    pub deleted: Vec<i32>,
    pub updates: Vec<((u16, u16), Vec<i32>)>,
}

/// Reader for the integer wire form of a delta, written from doc/snapshot.md.
pub fn parse_delta_ints(ints: &[i32], table: &SizeTable) -> Result<ParsedDelta, String> {
    ensure!(ints.len() >= 3, "delta has {} words, header needs 3", ints.len());
    let (nd, nu) = (ints[0], ints[1]);
    ensure!(nd >= 0 && nu >= 0, "negative counts in delta header: {} {}", nd, nu);
    ensure!(ints[2] == 0, "_zero field of the delta header is {}", ints[2]);
    let mut pos = 3usize;
    ensure!(pos + nd as usize <= ints.len(), "removed keys run past the end");
    let deleted = ints[pos..pos + nd as usize].to_vec();
    pos += nd as usize;
    let mut updates = Vec::new();
    for i in 0..nu {
        ensure!(pos + 2 <= ints.len(), "item delta #{} header runs past the end", i);
        let (t, id) = (ints[pos], ints[pos + 1]);
        pos += 2;
        ensure!((0..=0xffff).contains(&t) && (0..=0xffff).contains(&id), "item delta #{}: type {} id {} out of range", i, t, id);
        let size = match table.get(&(t as u16)) {
            Some(&s) => s as usize,
            None => {
                ensure!(pos < ints.len(), "item delta #{} size runs past the end", i);
                let s = ints[pos];
                pos += 1;
                ensure!(s >= 0, "item delta #{} ({},{}): negative size {}", i, t, id, s);
                s as usize
            }
        };
        ensure!(pos + size <= ints.len(), "item delta #{} ({},{}) of size {} runs past the end (position {} of {})", i, t, id, size, pos, ints.len());
        updates.push(((t as u16, id as u16), ints[pos..pos + size].to_vec()));
        pos += size;
    }
    ensure_eq!(pos, ints.len(), "delta wire form has words left after {} item deltas", nu);
    Ok(ParsedDelta { deleted, updates })
}

/// What doc/snapshot.md and the property demand of a delta from `a` to `b`.
pub fn check_parsed_delta(p: &ParsedDelta, a: &RawModel, b: &RawModel) -> Result<(), String> {
    let want_deleted: BTreeSet<i32> = a.keys().filter(|k| !b.contains_key(k)).map(|&(t, i)| ukey(t, i)).collect();
    let got_deleted: BTreeSet<i32> = p.deleted.iter().copied().collect();
    ensure_eq!(got_deleted.len(), p.deleted.len(), "removed keys listed more than once");
    if got_deleted != want_deleted {
        let extra: Vec<_> = got_deleted.difference(&want_deleted).map(|&k| split_key(k)).take(4).collect();
        let missing: Vec<_> = want_deleted.difference(&got_deleted).map(|&k| split_key(k)).take(4).collect();
        return Err(format!(
            "removed keys are not exactly keys(A) \\ keys(B): wrongly listed {:?}, not listed {:?}",
            extra, missing
        ));
    }
    let mut seen = BTreeSet::new();
    for (k, diff) in &p.updates {
        ensure!(seen.insert(*k), "item delta for {:?} written twice", k);
        let Some(to) = b.get(k) else {
            return Err(format!("item delta for {:?} which is not in B", k));
        };
        let want: Vec<i32> = match a.get(k) {
            Some(from) => {
                ensure_eq!(from.len(), to.len(), "generator: sizes of {:?} differ", k);
                to.iter().zip(from).map(|(t, f)| t.wrapping_sub(*f)).collect()
            }
            None => to.clone(),
        };
        if *diff != want {
            return Err(format!(
                "item delta for {:?} is {} but B - A (wrapping; raw data if new) is {} [A: {} B: {}]",
                k,
                clip(diff),
                clip(&want),
                a.get(k).map(|d| clip(d)).unwrap_or_else(|| "absent".into()),
                clip(to)
            ));
        }
    }
    for (k, to) in b {
        if a.get(k) != Some(to) {
            ensure!(seen.contains(k), "added/changed item {:?} has no item delta", k);
        }
    }
    Ok(())
}

// ---------------------------------------------------------------------------
// Scratch buffers (per thread; contents never read beyond what the callee reports as written)

const SCRATCH_INTS: usize = 3 + MAX_ITEMS + 3 * MAX_ITEMS + MAX_INTS + 64;

thread_local! {
    static INTS: RefCell<Vec<i32>> = RefCell::new(Vec::new());
    static BYTES: RefCell<Vec<u8>> = RefCell::new(Vec::new());
}

pub fn with_ints<R>(f: impl FnOnce(&mut [i32]) -> R) -> R {
    let mut v = INTS.with(|c| std::mem::take(&mut *c.borrow_mut()));
    if v.len() < SCRATCH_INTS {
        v.resize(SCRATCH_INTS, 0);
    }
    let r = f(&mut v);
    INTS.with(|c| *c.borrow_mut() = v);
    r
}

pub fn with_bytes<R>(f: impl FnOnce(&mut Vec<u8>) -> R) -> R {
    let mut v = BYTES.with(|c| std::mem::take(&mut *c.borrow_mut()));
    v.clear();
    v.reserve(SCRATCH_INTS * 5);
    let r = f(&mut v);
    BYTES.with(|c| *c.borrow_mut() = v);
    r
}

pub fn decode_bytes_to_ints(bytes: &[u8]) -> Result<Vec<i32>, String> {
    let mut u = Unpacker::new(bytes);
    let mut w = Warnings::new();
    let mut out = Vec::new();
    while !u.is_empty() {
        burn();
        out.push(u.read_int(&mut w).map_err(|_| "byte wire form ends inside an integer".to_string())?);
    }
    ensure!(w.is_empty(), "byte wire form contains non-canonical integers: {:?}", w.0);
    Ok(out)
}

// ---------------------------------------------------------------------------
// One interface over RawSnap and Snap

pub trait SnapLike: Default + Clone {
    fn apply_delta(&mut self, w: &mut Warnings, from: &Self, d: &Delta) -> Result<(), snap::Error>;
    fn create_delta(d: &mut Delta, from: &Self, to: &Self);
    fn to_ints(&self) -> Result<Vec<i32>, String>;
    fn to_bytes(&self) -> Result<Vec<u8>, String>;
    fn checksum(&self) -> i32;
}

impl SnapLike for RawSnap {
    fn apply_delta(&mut self, w: &mut Warnings, from: &Self, d: &Delta) -> Result<(), snap::Error> {
        self.read_with_delta(w, from, d)
    }
    fn create_delta(d: &mut Delta, from: &Self, to: &Self) {
        d.create_raw(from, to)
    }
    fn to_ints(&self) -> Result<Vec<i32>, String> {
        let mut buf = Vec::new();
        with_ints(|out| self.write_to_ints(&mut buf, out).map(|s| s.to_vec()))
            .map_err(|_| format!("write_to_ints reported a capacity error on a {}-word buffer", SCRATCH_INTS))
    }
    fn to_bytes(&self) -> Result<Vec<u8>, String> {
        let mut buf = Vec::new();
        with_bytes(|out| with_packer(&mut *out, |p| self.write(&mut buf, p).map(|s| s.to_vec())))
            .map_err(|_| "write reported a capacity error on an ample buffer".to_string())
    }
    fn checksum(&self) -> i32 {
        self.crc()
    }
}

impl SnapLike for Snap {
    fn apply_delta(&mut self, w: &mut Warnings, from: &Self, d: &Delta) -> Result<(), snap::Error> {
        self.read_with_delta(w, from, d)
    }
    fn create_delta(d: &mut Delta, from: &Self, to: &Self) {
        d.create(from, to)
    }
    fn to_ints(&self) -> Result<Vec<i32>, String> {
        let mut buf = Vec::new();
        with_ints(|out| self.write_to_ints(&mut buf, out).map(|s| s.to_vec()))
            .map_err(|_| format!("write_to_ints reported a capacity error on a {}-word buffer", SCRATCH_INTS))
    }
    fn to_bytes(&self) -> Result<Vec<u8>, String> {
        let mut buf = Vec::new();
        with_bytes(|out| with_packer(&mut *out, |p| self.write(&mut buf, p).map(|s| s.to_vec())))
            .map_err(|_| "write reported a capacity error on an ample buffer".to_string())
    }
    fn checksum(&self) -> i32 {
        self.crc()
    }
}

pub fn delta_to_ints(d: &Delta, table: &SizeTable) -> Result<Vec<i32>, String> {
    with_ints(|out| d.write_to_ints(|t| table.get(&t).copied(), out).map(|s| s.to_vec()))
        .map_err(|_| format!("Delta::write_to_ints reported a capacity error on a {}-word buffer", SCRATCH_INTS))
}

pub fn delta_to_bytes(d: &Delta, table: &SizeTable) -> Result<Vec<u8>, String> {
    with_bytes(|out| with_packer(&mut *out, |p| d.write(|t| table.get(&t).copied(), p).map(|s| s.to_vec())))
        .map_err(|_| "Delta::write reported a capacity error on an ample buffer".to_string())
}

/// The snapshot's integer wire form parsed by the doc reader.
pub fn raw_view<S: SnapLike>(s: &S) -> Result<RawModel, String> {
    to_raw_model(parse_snap_ints(&s.to_ints()?)?)
}

// ---------------------------------------------------------------------------
// Reference implementation (bundled DDNet C++). Its `dbg_assert` shim aborts the process, so every
// call below stays inside the domain stated in DESIGN.md: type <= 0x7fff, accepted item sets only,
// static sizes only for types < 64 and never 0, output bounded by 16384 words, hash buckets <= 64.

const REF_STATIC_TYPES: u16 = 64;

thread_local! {
    static REF_TABLE: RefCell<[u32; REF_STATIC_TYPES as usize]> = RefCell::new([0; REF_STATIC_TYPES as usize]);
    static REF_DELTA_NONE: RefCell<Option<refsnap::Delta>> = RefCell::new(None);
    static REF_BUILDERS: RefCell<Vec<refsnap::RawBuilder>> = RefCell::new(Vec::new());
}

fn ref_size_none(_: u16) -> Option<u32> {
    None
}

fn ref_size_tls(t: u16) -> Option<u32> {
    if t >= REF_STATIC_TYPES {
        return None;
    }
    REF_TABLE.with(|c| match c.borrow()[t as usize] {
        0 => None,
        s => Some(s),
    })
}

/// The part of `table` the reference can represent.
pub fn ref_reduced_table(table: &SizeTable) -> SizeTable {
    table
        .iter()
        .filter(|(&t, &s)| t < REF_STATIC_TYPES && s >= 1 && s <= 0x7fff / 4)
        .map(|(&t, &s)| (t, s))
        .collect()
}

pub fn ref_domain(m: &RawModel) -> bool {
    m.keys().all(|&(t, _)| t <= 0x7fff)
}

fn ref_bucket(key: i32) -> usize {
    let mut h: u32 = 5381;
    for shift in 0..4 {
        h = (h << 5).wrapping_add(h).wrapping_add(((key >> (shift * 8)) & 0xff) as u32);
    }
    (h % 256) as usize
}

fn ref_buckets_ok(m: &RawModel) -> bool {
    let mut n = [0u16; 256];
    for &(t, i) in m.keys() {
        let b = ref_bucket(ukey(t, i));
        n[b] += 1;
        if n[b] > 64 {
            return false;
        }
    }
    true
}

fn ref_build(m: &RawModel) -> refsnap::RawSnap {
    let mut b = REF_BUILDERS.with(|p| p.borrow_mut().pop()).unwrap_or_else(refsnap::RawBuilder::new);
    for (&(t, id), d) in m {
        let _ = b.add_item(t, id, d);
    }
    b.finish()
}

fn ref_release(s: refsnap::RawSnap) {
    let b = s.recycle();
    REF_BUILDERS.with(|p| {
        let mut p = p.borrow_mut();
        if p.len() < 4 {
            p.push(b);
        }
    });
}

/// Serialization of the item set by the reference builder (items inserted in ascending key order).
pub fn ref_snap_ints(m: &RawModel) -> Result<Vec<i32>, String> {
    debug_assert!(ref_domain(m));
    let mut s = ref_build(m);
    let r = with_ints(|out| s.write_to_ints(&mut Vec::new(), out).map(|x| x.to_vec()));
    ref_release(s);
    r.map_err(|_| "reference builder failed to serialize an item set within the limits".to_string())
}

/// The reference's delta for (a, b); None if the pair is outside what the C++ can do safely.
pub fn ref_delta_ints(a: &RawModel, b: &RawModel, reduced: &SizeTable) -> Option<Vec<i32>> {
    if !ref_domain(a) || !ref_domain(b) || !ref_buckets_ok(a) || !ref_buckets_ok(b) {
        return None;
    }
    if 3 + a.len() + 3 * b.len() + model_words(b) > MAX_INTS {
        return None;
    }
    let ra = ref_build(a);
    let rb = ref_build(b);
    let r = with_ints(|out| {
        if reduced.is_empty() {
            let mut d = REF_DELTA_NONE.with(|c| c.borrow_mut().take()).unwrap_or_else(refsnap::Delta::new);
            let r = d.create_raw_and_write_to_ints(&ra, &rb, ref_size_none, out).map(|x| x.to_vec());
            REF_DELTA_NONE.with(|c| *c.borrow_mut() = Some(d));
            r
        } else {
            REF_TABLE.with(|c| {
                let mut c = c.borrow_mut();
                *c = [0; REF_STATIC_TYPES as usize];
                for (&t, &s) in reduced {
                    c[t as usize] = s;
                }
            });
            let mut d = refsnap::Delta::new();
            d.create_raw_and_write_to_ints(&ra, &rb, ref_size_tls, out).map(|x| x.to_vec())
        }
    });
    ref_release(ra);
    ref_release(rb);
    r.ok()
}

// ---------------------------------------------------------------------------
// Core check for one pair

#[derive(Default, Debug, Clone)]
pub struct PairStats {
    pub added: usize,
    pub removed: usize,
    pub changed: usize,
    pub untouched: usize,
    pub wrapping: bool,
    pub high_types: bool,
    pub explicit_sizes: bool,
    pub preagreed_sizes: bool,
    pub ref_snap: bool,
    pub ref_delta: bool,
    pub ref_delta_empty: bool,
    pub ref_delta_warned: bool,
    pub b_ints: usize,
    pub b_items: usize,
}

pub fn pair_stats(a: &RawModel, b: &RawModel, table: &SizeTable) -> PairStats {
    let mut s = PairStats::default();
    for (k, to) in b {
        match a.get(k) {
            None => s.added += 1,
            Some(from) if from == to => s.untouched += 1,
            Some(from) => {
                s.changed += 1;
                if to.iter().zip(from).any(|(t, f)| t.checked_sub(*f).is_none()) {
                    s.wrapping = true;
                }
            }
        }
    }
    s.removed = a.keys().filter(|k| !b.contains_key(k)).count();
    for &(t, _) in a.keys().chain(b.keys()) {
        if t >= 0x8000 {
            s.high_types = true;
        }
        if table.contains_key(&t) {
            s.preagreed_sizes = true;
        } else {
            s.explicit_sizes = true;
        }
    }
    s.b_items = b.len();
    s.b_ints = 2 + 2 * b.len() + model_words(b);
    s
}

/// Compare the outcome of applying a delta with the target.
fn same_as_target<S: SnapLike>(
    out: &S,
    target: &S,
    target_model: &RawModel,
    verify: &dyn Fn(&S, bool, &str) -> Result<(), String>,
    what: &str,
) -> Result<(), String> {
    let got = raw_view(out).map_err(|e| format!("{}: result does not serialize: {}", what, e))?;
    if let Some(d) = first_diff(&got, target_model) {
        return Err(format!("{}: result differs from B: {}", what, d));
    }
    ensure_eq!(out.checksum(), target.checksum(), "{}: crc of the result vs crc of B", what);
    verify(out, true, what)
}

/// `verify(snapshot, is_b, what)` checks a snapshot against the A (false) or B (true) model through
/// the flavour's public lookup API. `tables[0]` is the case's size table; every table in `tables`
/// is used for the wire forms. `ref_table` selects the table (reduced to what the reference can
/// express) for the differential part, None switches it off.
pub fn check_delta_pair<S: SnapLike>(
    a: &S,
    b: &S,
    am: &RawModel,
    bm: &RawModel,
    tables: &[&SizeTable],
    verify: &dyn Fn(&S, bool, &str) -> Result<(), String>,
    ref_table: Option<usize>,
) -> Result<PairStats, String> {
    let mut stats = pair_stats(am, bm, tables[0]);
    // the inputs themselves
    let a_ints = a.to_ints()?;
    let b_ints = b.to_ints()?;
    for (ints, m, s, name) in [(&a_ints, am, a, "A"), (&b_ints, bm, b, "B")] {
        let got = to_raw_model(parse_snap_ints(ints)?).map_err(|e| format!("{}: {}", name, e))?;
        if let Some(d) = first_diff(&got, m) {
            return Err(format!("built snapshot {} differs from its items: {}", name, d));
        }
        ensure_eq!(s.checksum(), model_crc(m), "crc of built snapshot {} vs wrapping sum of its data words", name);
    }
    verify(a, false, "built A")?;
    verify(b, true, "built B")?;

    // (1) direct application, into a snapshot object that already holds something else
    let mut delta = Delta::new();
    S::create_delta(&mut delta, a, b);
    {
        let mut out = a.clone();
        let mut w = Warnings::new();
        let r = out.apply_delta(&mut w, a, &delta);
        ensure!(r.is_ok(), "read_with_delta(A, create(A, B)) failed: {:?}", r);
        ensure!(w.is_empty(), "read_with_delta(A, create(A, B)) warned {:?}", w.0);
        same_as_target(&out, b, bm, verify, "direct application")?;
        let mut out2 = S::default();
        let r = out2.apply_delta(&mut w, a, &delta);
        ensure!(r.is_ok() && w.is_empty(), "read_with_delta into an empty snapshot: {:?} {:?}", r, w.0);
        same_as_target(&out2, b, bm, verify, "direct application into an empty snapshot")?;
    }

    // (2) wire forms
    let mut rd = Delta::new();
    for (ti, table) in tables.iter().enumerate() {
        let ints = delta_to_ints(&delta, table)?;
        let parsed = parse_delta_ints(&ints, table).map_err(|e| format!("delta wire form (table #{}): {}", ti, e))?;
        check_parsed_delta(&parsed, am, bm).map_err(|e| format!("delta wire form (table #{}): {}", ti, e))?;
        let bytes = delta_to_bytes(&delta, table)?;
        eq_ints(&decode_bytes_to_ints(&bytes)?, &ints, "byte wire form of the delta, decoded, vs its integer wire form")?;
        for form in 0..2 {
            let mut w = Warnings::new();
            let r = if form == 0 {
                rd.read_from_ints(&mut w, |t| table.get(&t).copied(), &mut IntUnpacker::new(&ints))
            } else {
                rd.read(&mut w, |t| table.get(&t).copied(), &mut Unpacker::new(&bytes))
            };
            let name = if form == 0 { "integer wire form" } else { "byte wire form" };
            ensure!(r.is_ok(), "reading the delta back from its {} (table #{}) failed: {:?}", name, ti, r);
            ensure!(w.is_empty(), "reading the delta back from its {} warned {:?}", name, w.0);
            let mut out = b.clone();
            let r = out.apply_delta(&mut w, a, &rd);
            ensure!(r.is_ok(), "applying the delta read from its {} failed: {:?}", name, r);
            ensure!(w.is_empty(), "applying the delta read from its {} warned {:?}", name, w.0);
            same_as_target(&out, b, bm, verify, name)?;
        }
    }

    // (3) create(A, A) applied to A is A
    {
        let mut d = Delta::new();
        S::create_delta(&mut d, a, a);
        let ints = delta_to_ints(&d, tables[0])?;
        let parsed = parse_delta_ints(&ints, tables[0]).map_err(|e| format!("create(A, A): {}", e))?;
        ensure!(parsed.deleted.is_empty(), "create(A, A) removes {:?}", parsed.deleted);
        check_parsed_delta(&parsed, am, am).map_err(|e| format!("create(A, A): {}", e))?;
        let mut out = b.clone();
        let mut w = Warnings::new();
        let r = out.apply_delta(&mut w, a, &d);
        ensure!(r.is_ok() && w.is_empty(), "applying create(A, A): {:?} {:?}", r, w.0);
        let got = raw_view(&out)?;
        if let Some(d) = first_diff(&got, am) {
            return Err(format!("create(A, A) applied to A differs from A: {}", d));
        }
        ensure_eq!(out.checksum(), a.checksum(), "crc after applying create(A, A)");
        verify(&out, false, "create(A, A) applied to A")?;
    }

    // (4) reference
    if let Some(ri) = ref_table {
        if ref_domain(am) && ref_domain(bm) {
            stats.ref_snap = true;
            eq_ints(&a_ints, &ref_snap_ints(am)?, "integer wire form of A vs the reference builder's")?;
            eq_ints(&b_ints, &ref_snap_ints(bm)?, "integer wire form of B vs the reference builder's")?;
            let reduced = ref_reduced_table(tables[ri]);
            if let Some(rints) = ref_delta_ints(am, bm, &reduced) {
                stats.ref_delta = true;
                if rints.is_empty() {
                    stats.ref_delta_empty = true;
                    ensure!(am == bm, "harness: the reference reports 'no change' for differing snapshots");
                } else {
                    let mut w = Warnings::new();
                    let r = rd.read_from_ints(&mut w, |t| reduced.get(&t).copied(), &mut IntUnpacker::new(&rints));
                    ensure!(r.is_ok(), "Delta::read_from_ints refused the reference's delta: {:?} (delta {})", r, clip(&rints));
                    let mut out = a.clone();
                    let r = out.apply_delta(&mut w, a, &rd);
                    ensure!(r.is_ok(), "applying the reference's delta failed: {:?} (delta {})", r, clip(&rints));
                    stats.ref_delta_warned = !w.is_empty();
                    same_as_target(&out, b, bm, verify, "reference delta")?;
                }
            }
        }
    }
    Ok(stats)
}

// ---------------------------------------------------------------------------
// Flavour: raw snapshots (any 16-bit type)

pub fn build_raw(m: &RawModel, order: &[(u16, u16)]) -> Result<RawSnap, String> {
    let mut b = RawBuilder::new();
    let mut n = 0;
    for k in order {
        if let Some(d) = m.get(k) {
            b.add_item(k.0, k.1, d).map_err(|e| {
                format!("RawBuilder::add_item({:?}, {} words) refused with {:?} after {} items within the limits", k, d.len(), e, n)
            })?;
            n += 1;
        }
    }
    ensure_eq!(n, m.len(), "harness: insertion order does not cover the model");
    Ok(b.finish())
}

pub fn verify_raw(s: &RawSnap, m: &RawModel, absent: &[(u16, u16)], what: &str) -> Result<(), String> {
    let it = s.items();
    ensure_eq!(it.len(), m.len(), "{}: RawSnap::items().len()", what);
    let mut got = RawModel::new();
    for i in it {
        burn();
        ensure!(got.insert((i.raw_type_id, i.id), i.data.to_vec()).is_none(), "{}: items() yields ({},{}) twice", what, i.raw_type_id, i.id);
    }
    if let Some(d) = first_diff(&got, m) {
        return Err(format!("{}: items() differs: {}", what, d));
    }
    for (&(t, id), d) in m {
        let g = s.item(t, id);
        if g != Some(&d[..]) {
            return Err(format!("{}: item({}, {}) returned {:?}, expected {}", what, t, id, g.map(clip), clip(d)));
        }
    }
    for &(t, id) in absent {
        if !m.contains_key(&(t, id)) {
            ensure!(s.item(t, id).is_none(), "{}: item({}, {}) found although the key is absent", what, t, id);
        }
    }
    ensure_eq!(s.crc(), model_crc(m), "{}: crc vs wrapping sum of the data words", what);
    Ok(())
}

pub fn check_raw_pair(
    am: &RawModel,
    bm: &RawModel,
    order: &[(u16, u16)],
    tables: &[&SizeTable],
    ref_table: Option<usize>,
) -> Result<PairStats, String> {
    let a = build_raw(am, order)?;
    let b = build_raw(bm, order)?;
    let other_a: Vec<(u16, u16)> = bm.keys().filter(|k| !am.contains_key(k)).copied().collect();
    let other_b: Vec<(u16, u16)> = am.keys().filter(|k| !bm.contains_key(k)).copied().collect();
    let verify = |s: &RawSnap, is_b: bool, what: &str| {
        if is_b {
            verify_raw(s, bm, &other_b, what)
        } else {
            verify_raw(s, am, &other_a, what)
        }
    };
    check_delta_pair(&a, &b, am, bm, tables, &verify, ref_table)
}

// ---------------------------------------------------------------------------
// Exhaustive small universe

pub const UNIVERSE: [(u16, u16); 7] = [(1, 0), (1, 1), (5, 0), (0x3fff, 7), (0x4001, 0), (0x8000, 0), (0xffff, 0xffff)];
const VALS: [i32; 5] = [0, 1, -1, i32::MIN, i32::MAX];

fn pow(b: u64, e: u32) -> u64 {
    (0..e).fold(1, |p, _| p * b)
}

/// Number of states of one key with lengths 0..=max_len: absent in both, only in A, only in B, in both.
fn n_states(max_len: u32) -> u64 {
    1 + (0..=max_len).map(|l| 2 * pow(5, l) + pow(25, l)).sum::<u64>()
}

fn small_words(mut code: u64, len: u32) -> Vec<i32> {
    (0..len)
        .map(|_| {
            let v = VALS[(code % 5) as usize];
            code /= 5;
            v
        })
        .collect()
}

fn decode_state(mut s: u64, max_len: u32) -> (Option<Vec<i32>>, Option<Vec<i32>>) {
    if s == 0 {
        return (None, None);
    }
    s -= 1;
    for l in 0..=max_len {
        let p = pow(5, l);
        if s < p {
            return (Some(small_words(s, l)), None);
        }
        s -= p;
        if s < p {
            return (None, Some(small_words(s, l)));
        }
        s -= p;
        if s < p * p {
            return (Some(small_words(s / p, l)), Some(small_words(s % p, l)));
        }
        s -= p * p;
    }
    unreachable!("state index out of range")
}

/// Largest table for a pair: every type whose items (in A and B) all have one length.
fn max_table(a: &RawModel, b: &RawModel) -> SizeTable {
    let mut lens: BTreeMap<u16, BTreeSet<usize>> = BTreeMap::new();
    for (&(t, _), d) in a.iter().chain(b.iter()) {
        lens.entry(t).or_default().insert(d.len());
    }
    lens.into_iter()
        .filter(|(_, l)| l.len() == 1)
        .map(|(t, l)| (t, *l.iter().next().unwrap() as u32))
        .collect()
}

#[derive(Clone, Copy)]
enum SmallKind {
    One,
    /// unordered pairs of keys, both with lengths 0..=len
    Two { len: u32 },
    /// ordered pairs of keys, lengths 0..=first for one and 0..=second for the other
    TwoMixed { first: u32, second: u32 },
    Three,
}

fn choose(n: usize, k: usize) -> Vec<Vec<usize>> {
    fn rec(start: usize, n: usize, k: usize, cur: &mut Vec<usize>, out: &mut Vec<Vec<usize>>) {
        if cur.len() == k {
            out.push(cur.clone());
            return;
        }
        for i in start..n {
            cur.push(i);
            rec(i + 1, n, k, cur, out);
            cur.pop();
        }
    }
    let mut out = Vec::new();
    rec(0, n, k, &mut Vec::new(), &mut out);
    out
}

fn small_total(kind: SmallKind) -> u64 {
    match kind {
        SmallKind::One => 7 * n_states(3),
        SmallKind::Two { len } => 21 * n_states(len) * n_states(len),
        SmallKind::TwoMixed { first, second } => 42 * n_states(first) * n_states(second),
        SmallKind::Three => 35 * n_states(1) * n_states(1) * n_states(1),
    }
}

fn small_models(kind: SmallKind, idx: u64) -> (RawModel, RawModel) {
    let mut sel: Vec<(usize, u64, u32)> = Vec::new();
    match kind {
        SmallKind::One => {
            let s = n_states(3);
            sel.push(((idx / s) as usize, idx % s, 3));
        }
        SmallKind::Two { len } => {
            let s = n_states(len);
            let pairs = choose(7, 2);
            let p = &pairs[(idx / (s * s)) as usize];
            let r = idx % (s * s);
            sel.push((p[0], r / s, len));
            sel.push((p[1], r % s, len));
        }
        SmallKind::TwoMixed { first: l3, second: l1 } => {
            let (s3, s1) = (n_states(l3), n_states(l1));
            let p = idx / (s3 * s1);
            let r = idx % (s3 * s1);
            let first = (p / 6) as usize;
            let mut second = (p % 6) as usize;
            if second >= first {
                second += 1;
            }
            sel.push((first, r / s1, l3));
            sel.push((second, r % s1, l1));
        }
        SmallKind::Three => {
            let s = n_states(1);
            let triples = choose(7, 3);
            let t = &triples[(idx / (s * s * s)) as usize];
            let r = idx % (s * s * s);
            sel.push((t[0], r / (s * s), 1));
            sel.push((t[1], (r / s) % s, 1));
            sel.push((t[2], r % s, 1));
        }
    }
    let (mut a, mut b) = (RawModel::new(), RawModel::new());
    for (k, s, l) in sel {
        let (da, db) = decode_state(s, l);
        if let Some(d) = da {
            a.insert(UNIVERSE[k], d);
        }
        if let Some(d) = db {
            b.insert(UNIVERSE[k], d);
        }
    }
    (a, b)
}

fn render_model(m: &RawModel) -> Value {
    Value::Array(m.iter().map(|(&(t, i), d)| json!([t, i, d])).collect())
}

fn check_small(kind: SmallKind, idx: u64, with_ref: bool) -> Result<bool, String> {
    let (a, b) = small_models(kind, idx);
    let table = max_table(&a, &b);
    let empty = SizeTable::new();
    // insertion order: descending key, the opposite of the wire order
    let order: Vec<(u16, u16)> = a.keys().chain(b.keys()).copied().collect::<BTreeSet<_>>().into_iter().rev().collect();
    let tables: Vec<&SizeTable> = if table.is_empty() { vec![&empty] } else { vec![&table, &empty] };
    // differential part: the full table when asked for, else the empty table (cached reference object)
    let ref_table = if with_ref { Some(0) } else { Some(tables.len() - 1) };
    check_raw_pair(&a, &b, &order, &tables, ref_table)?;
    Ok(a != b)
}

// ---------------------------------------------------------------------------
// Generators shared with C10

#[derive(Clone, Debug, Hash, Serialize, Deserialize, PartialEq, Eq)]
pub enum DataSpec {
    Words(Vec<i32>),
    /// `len` words: start, start+step, start+2*step, .. (wrapping)
    Ramp { len: u16, start: i32, step: i32 },
}

impl DataSpec {
    pub fn len(&self) -> usize {
        match self {
            DataSpec::Words(w) => w.len(),
            DataSpec::Ramp { len, .. } => *len as usize,
        }
    }
    pub fn expand(&self) -> Vec<i32> {
        match self {
            DataSpec::Words(w) => w.clone(),
            DataSpec::Ramp { len, start, step } => (0..*len as i32).map(|i| start.wrapping_add(step.wrapping_mul(i))).collect(),
        }
    }
    /// The data fitted to `len` words by cutting or by repeating itself (zeros if empty).
    pub fn expand_to(&self, len: usize) -> Vec<i32> {
        let w = self.expand();
        if w.is_empty() {
            return vec![0; len];
        }
        (0..len).map(|i| w[i % w.len()]).collect()
    }
}

pub fn word_strategy() -> BoxedStrategy<i32> {
    prop_oneof![
        5 => proptest::sample::select(vec![0, 1, -1, i32::MIN, i32::MAX]),
        2 => any::<i32>(),
        2 => -100i32..100,
        1 => proptest::sample::select(vec![i32::MIN + 1, i32::MAX - 1, 0x4000_0000, -0x4000_0000, 2, -2]),
    ]
    .boxed()
}

/// kind 0: mostly tiny; 1: tiny (0..=2 words); 2: heavy (hundreds to thousands of words)
pub fn data_strategy(kind: u8) -> BoxedStrategy<DataSpec> {
    let words = |max: usize| proptest::collection::vec(word_strategy(), 0..=max).prop_map(DataSpec::Words);
    let ramp = |lo: u16, hi: u16| {
        (lo..=hi, word_strategy(), word_strategy()).prop_map(|(len, start, step)| DataSpec::Ramp { len, start, step })
    };
    match kind {
        0 => prop_oneof![
            8 => words(4),
            3 => words(24),
            1 => ramp(25, 300),
        ]
        .boxed(),
        1 => words(2).boxed(),
        _ => prop_oneof![
            3 => ramp(100, 3000),
            1 => ramp(3000, 16380),
            1 => words(4),
        ]
        .boxed(),
    }
}

pub fn id_strategy(wide: bool) -> BoxedStrategy<u16> {
    if wide {
        prop_oneof![
            6 => any::<u16>(),
            1 => proptest::sample::select(vec![0u16, 1, 0x7fff, 0x8000, 0xfffe, 0xffff]),
        ]
        .boxed()
    } else {
        prop_oneof![
            5 => 0u16..6,
            2 => 0u16..64,
            2 => proptest::sample::select(vec![0xffffu16, 0xfffe, 0x8000, 0x7fff, 0x100, 0xff]),
            1 => any::<u16>(),
        ]
        .boxed()
    }
}

/// Type selector for the typed flavour: an ordinal 1..0x3fff or one of a pool of UUIDs.
#[derive(Clone, Copy, Debug, Hash, Serialize, Deserialize, PartialEq, Eq, PartialOrd, Ord)]
pub enum TypeSel {
    Ord(u16),
    Uuid(u16),
}

pub fn pool_uuid(i: u16) -> [u8; 16] {
    match i {
        0 => [0; 16],
        1 => [0xff; 16],
        2 => [0x80, 0, 0, 0, 0x80, 0, 0, 0, 0x80, 0, 0, 0, 0x80, 0, 0, 0],
        3 => [0x7f, 0xff, 0xff, 0xff, 0x7f, 0xff, 0xff, 0xff, 0x7f, 0xff, 0xff, 0xff, 0x7f, 0xff, 0xff, 0xff],
        _ => {
            let mut x: u64 = 0x9E37_79B9_7F4A_7C15u64.wrapping_mul(i as u64 + 1);
            let mut r = [0u8; 16];
            for b in r.iter_mut() {
                x ^= x << 13;
                x ^= x >> 7;
                x ^= x << 17;
                *b = (x >> 24) as u8;
            }
            r
        }
    }
}

impl TypeSel {
    pub fn type_id(self) -> TypeId {
        match self {
            TypeSel::Ord(o) => TypeId::Ordinal(o.clamp(1, 0x3fff)),
            TypeSel::Uuid(i) => TypeId::Uuid(Uuid::from_bytes(pool_uuid(i))),
        }
    }
}

pub fn type_sel_strategy(many_uuids: bool) -> BoxedStrategy<TypeSel> {
    let uuid_hi: u8 = if many_uuids { 40 } else { 6 };
    prop_oneof![
        4 => (1u16..24).prop_map(TypeSel::Ord),
        1 => proptest::sample::select(vec![0x3fffu16, 0x3ffe, 0x2000, 63, 64]).prop_map(TypeSel::Ord),
        1 => (1u16..0x4000).prop_map(TypeSel::Ord),
        4 => (0u16..uuid_hi as u16).prop_map(TypeSel::Uuid),
    ]
    .boxed()
}

/// Type selector for programs with hundreds of distinct UUID types (more than the 256 extended type
/// numbers the builder reserves ahead when a snapshot is recycled).
pub fn type_sel_strategy_huge() -> BoxedStrategy<TypeSel> {
    prop_oneof![
        1 => (1u16..24).prop_map(TypeSel::Ord),
        12 => (0u16..420).prop_map(TypeSel::Uuid),
    ]
    .boxed()
}

pub fn is_uuid(t: &TypeId) -> bool {
    matches!(t, TypeId::Uuid(_))
}

/// Checks a `Snap` against the typed model through `items()`, `item()` and `crc()`.
/// `registered` = UUIDs the snapshot has registry items for (they count towards the checksum).
/// `uuid_lookup` = false leaves `item(Uuid, ..)` out (known finding open).
pub fn verify_typed(
    s: &Snap,
    m: &TypedModel,
    registered: &BTreeSet<[u8; 16]>,
    uuid_lookup: bool,
    absent: &[(TypeId, u16)],
    what: &str,
) -> Result<(), String> {
    let mut it = s.items();
    ensure_eq!(it.len(), m.len(), "{}: Snap::items().len() before iterating", what);
    let mut got = TypedModel::new();
    let mut n = 0;
    while let Some(i) = it.next() {
        burn();
        n += 1;
        ensure!(n <= m.len(), "{}: items() yields more than the {} items of the model", what, m.len());
        ensure_eq!(it.len(), m.len() - n, "{}: Snap::items().len() after {} items", what, n);
        ensure!(got.insert((i.type_id, i.id), i.data.to_vec()).is_none(), "{}: items() yields ({:?},{}) twice", what, i.type_id, i.id);
    }
    if let Some(d) = first_diff(&got, m) {
        return Err(format!("{}: items() differs: {}", what, d));
    }
    for (&(t, id), d) in m {
        if is_uuid(&t) && !uuid_lookup {
            continue;
        }
        let g = s.item(t, id);
        if g != Some(&d[..]) {
            return Err(format!("{}: item({:?}, {}) returned {:?}, expected {}", what, t, id, g.map(clip), clip(d)));
        }
    }
    for &(t, id) in absent {
        if m.contains_key(&(t, id)) || (is_uuid(&t) && !uuid_lookup) {
            continue;
        }
        let g = s.item(t, id);
        ensure!(g.is_none(), "{}: item({:?}, {}) returned {:?} although the key is absent", what, t, id, g.map(clip));
    }
    let mut crc = m.values().flatten().fold(0i32, |s, &w| s.wrapping_add(w));
    for u in registered {
        for w in uuid_words(u) {
            crc = crc.wrapping_add(w);
        }
    }
    ensure_eq!(s.crc(), crc, "{}: crc vs wrapping sum of all data words (incl. {} UUID registry items)", what, registered.len());
    Ok(())
}

/// Interprets a parsed integer wire form through its UUID registry and compares it with the typed
/// model. Returns the raw item set and the registry (uuid -> assigned type number).
pub fn raw_view_of_typed(ints: &[i32], m: &TypedModel, what: &str) -> Result<(RawModel, BTreeMap<[u8; 16], u16>), String> {
    let raw = to_raw_model(parse_snap_ints(ints).map_err(|e| format!("{}: {}", what, e))?).map_err(|e| format!("{}: {}", what, e))?;
    let mut reg: BTreeMap<[u8; 16], u16> = BTreeMap::new();
    let mut by_num: BTreeMap<u16, [u8; 16]> = BTreeMap::new();
    for (&(t, id), d) in &raw {
        if t == 0 {
            ensure!(d.len() == 4, "{}: registry item (0,{}) has {} words", what, id, d.len());
            ensure!((0x4000..0x8000).contains(&id), "{}: registry item assigns type number {:#x} outside 0x4000..0x8000", what, id);
            let u = words_uuid(d);
            ensure!(reg.insert(u, id).is_none(), "{}: UUID {} has two type numbers", what, Uuid::from_bytes(u));
            by_num.insert(id, u);
        }
    }
    let mut n = 0;
    for (&(t, id), d) in &raw {
        if t == 0 {
            continue;
        }
        let ty = if t < 0x4000 {
            TypeId::Ordinal(t)
        } else {
            match by_num.get(&t) {
                Some(u) => TypeId::Uuid(Uuid::from_bytes(*u)),
                None => return Err(format!("{}: item ({:#x},{}) has no registry item for its type number", what, t, id)),
            }
        };
        match m.get(&(ty, id)) {
            Some(want) if want == d => {}
            Some(want) => return Err(format!("{}: wire item ({:?},{}) has data {}, expected {}", what, ty, id, clip(d), clip(want))),
            None => return Err(format!("{}: wire form contains ({:?},{}) which was never added", what, ty, id)),
        }
        n += 1;
    }
    ensure_eq!(n, m.len(), "{}: number of non-registry items on the wire vs items added", what);
    for (t, _) in m.keys() {
        if let TypeId::Uuid(u) = t {
            ensure!(reg.contains_key(u.as_bytes()), "{}: UUID {} used but not in the registry", what, u);
        }
    }
    Ok((raw, reg))
}

// ---------------------------------------------------------------------------
// Random pairs

#[derive(Clone, Copy, Debug, Hash, Serialize, Deserialize, PartialEq, Eq)]
pub enum Presence {
    OnlyA,
    OnlyB,
    Same,
    Changed,
}

#[derive(Clone, Debug, Hash, Serialize, Deserialize)]
pub struct PairItem<T> {
    pub ty: T,
    pub id: u16,
    pub presence: Presence,
    /// the first item of a type decides whether the type's size (this item's) is pre-agreed
    pub preagreed: bool,
    /// data in A (and in B when unchanged); its length is the size of the key on both sides
    pub a: DataSpec,
    /// data in B when changed / only in B (fitted to the key's size)
    pub b: DataSpec,
}

#[derive(Clone, Debug, Hash, Serialize, Deserialize)]
pub struct RawPairCase {
    pub items: Vec<PairItem<u16>>,
    /// add one more explicit-size item that fills A / B to exactly 64 KiB
    pub fill_a: bool,
    pub fill_b: bool,
}

#[derive(Clone, Debug, Hash, Serialize, Deserialize)]
pub struct TypedPairCase {
    pub items: Vec<PairItem<TypeSel>>,
    /// B is built by `A.clone().recycle()` (stable UUID type numbers) instead of a fresh builder
    pub recycle: bool,
}

fn presence_strategy(dense: bool) -> BoxedStrategy<Presence> {
    if dense {
        prop_oneof![
            1 => Just(Presence::OnlyA),
            1 => Just(Presence::OnlyB),
            5 => Just(Presence::Same),
            3 => Just(Presence::Changed),
        ]
        .boxed()
    } else {
        prop_oneof![
            2 => Just(Presence::OnlyA),
            2 => Just(Presence::OnlyB),
            2 => Just(Presence::Same),
            3 => Just(Presence::Changed),
        ]
        .boxed()
    }
}

fn raw_type_strategy(high: bool) -> BoxedStrategy<u16> {
    if high {
        prop_oneof![
            3 => 1u16..24,
            1 => 0u16..64,
            2 => proptest::sample::select(vec![0x3fffu16, 0x4000, 0x4001, 0x7ffe, 0x7fff]),
            3 => proptest::sample::select(vec![0x8000u16, 0x8001, 0xc000, 0xfffe, 0xffff]),
            1 => 0x8000u16..=0xffff,
            1 => any::<u16>(),
        ]
        .boxed()
    } else {
        prop_oneof![
            5 => 1u16..24,
            2 => 0u16..64,
            2 => proptest::sample::select(vec![0x3fffu16, 0x4000, 0x4001, 0x7ffe, 0x7fff]),
            1 => 0u16..=0x7fff,
        ]
        .boxed()
    }
}

fn pair_item_strategy<T: std::fmt::Debug + Clone + 'static>(
    ty: BoxedStrategy<T>,
    data_kind: u8,
    wide_ids: bool,
    dense: bool,
) -> BoxedStrategy<PairItem<T>> {
    (
        ty,
        id_strategy(wide_ids),
        presence_strategy(dense),
        proptest::bool::weighted(0.5),
        data_strategy(data_kind),
        data_strategy(if data_kind == 2 { 0 } else { data_kind }),
    )
        .prop_map(|(ty, id, presence, preagreed, a, b)| PairItem { ty, id, presence, preagreed, a, b })
        .boxed()
}

fn pair_items_strategy<T: std::fmt::Debug + Clone + 'static>(ty: BoxedStrategy<T>) -> BoxedStrategy<Vec<PairItem<T>>> {
    prop_oneof![
        6 => proptest::collection::vec(pair_item_strategy(ty.clone(), 0, false, false), 0..14),
        3 => proptest::collection::vec(pair_item_strategy(ty.clone(), 0, false, false), 10..80),
        1 => proptest::collection::vec(pair_item_strategy(ty.clone(), 1, true, true), 1100..1300),
        1 => proptest::collection::vec(pair_item_strategy(ty, 2, false, true), 4..40),
    ]
    .boxed()
}

pub fn raw_pair_strategy() -> impl Strategy<Value = RawPairCase> {
    (
        prop_oneof![
            3 => pair_items_strategy(raw_type_strategy(false)),
            2 => pair_items_strategy(raw_type_strategy(true)),
        ],
        proptest::bool::weighted(0.15),
        proptest::bool::weighted(0.15),
    )
        .prop_map(|(items, fill_a, fill_b)| RawPairCase { items, fill_a, fill_b })
}

pub fn typed_pair_strategy() -> impl Strategy<Value = TypedPairCase> {
    (
        prop_oneof![
            3 => pair_items_strategy(type_sel_strategy(false)),
            1 => pair_items_strategy(type_sel_strategy(true)),
        ],
        any::<bool>(),
    )
        .prop_map(|(items, recycle)| TypedPairCase { items, recycle })
}

pub struct RawPair {
    pub a: RawModel,
    pub b: RawModel,
    pub order: Vec<(u16, u16)>,
    pub table: SizeTable,
    pub filled_a: bool,
    pub filled_b: bool,
}

fn fill_item(m: &mut RawModel, other: &RawModel, table: &SizeTable, order: &mut Vec<(u16, u16)>) -> bool {
    let (n, w) = (m.len(), model_words(m));
    if n >= MAX_ITEMS || 2 + 2 * (n + 1) + w > MAX_INTS {
        return false;
    }
    let len = MAX_INTS - (2 + 2 * (n + 1) + w);
    // an unused key of an explicit-size type below 0x8000
    let mut t = 0x7ffeu16;
    while table.contains_key(&t) || m.contains_key(&(t, 0xfffe)) || other.contains_key(&(t, 0xfffe)) {
        t -= 1;
    }
    let data: Vec<i32> = (0..len as i32).map(|i| i.wrapping_mul(0x0101_0101) ^ 0x5a5a).collect();
    m.insert((t, 0xfffe), data);
    order.push((t, 0xfffe));
    true
}

pub fn normalize_raw(c: &RawPairCase) -> RawPair {
    let mut p = RawPair {
        a: RawModel::new(),
        b: RawModel::new(),
        order: Vec::new(),
        table: SizeTable::new(),
        filled_a: false,
        filled_b: false,
    };
    let mut decided: BTreeMap<u16, Option<u32>> = BTreeMap::new();
    let mut seen: BTreeSet<(u16, u16)> = BTreeSet::new();
    let (mut wa, mut wb) = (0usize, 0usize);
    for it in &c.items {
        let key = (it.ty, it.id);
        if !seen.insert(key) {
            continue;
        }
        let own = it.a.len();
        let len = match *decided.entry(it.ty).or_insert(if it.preagreed { Some(own as u32) } else { None }) {
            Some(s) => s as usize,
            None => own,
        };
        let da = it.a.expand_to(len);
        let db = match it.presence {
            Presence::Same => da.clone(),
            _ => it.b.expand_to(len),
        };
        let mut used = false;
        if it.presence != Presence::OnlyB && fits(p.a.len(), wa, len) {
            wa += len;
            p.a.insert(key, da);
            used = true;
        }
        if it.presence != Presence::OnlyA && fits(p.b.len(), wb, len) {
            wb += len;
            p.b.insert(key, db);
            used = true;
        }
        if used {
            p.order.push(key);
        }
    }
    p.table = decided.into_iter().filter_map(|(t, s)| s.map(|s| (t, s))).collect();
    if c.fill_a {
        let other = p.b.clone();
        p.filled_a = fill_item(&mut p.a, &other, &p.table, &mut p.order);
    }
    if c.fill_b {
        let other = p.a.clone();
        p.filled_b = fill_item(&mut p.b, &other, &p.table, &mut p.order);
    }
    p
}

fn outcome_of(stats: &PairStats, extra: &[(&'static str, bool)]) -> Outcome {
    let mut o = Outcome::nt(stats.added >= 1 && stats.removed >= 1 && stats.changed >= 1 && stats.untouched >= 1)
        .class_if(stats.explicit_sizes, "explicit_sizes")
        .class_if(stats.preagreed_sizes, "preagreed_sizes")
        .class_if(stats.high_types, "types_ge_0x8000")
        .class_if(stats.wrapping, "wrapping_difference")
        .class_if(stats.b_ints >= 1024, "multi_KiB")
        .class_if(stats.b_items == MAX_ITEMS, "B_has_1024_items")
        .class_if(stats.b_ints == MAX_INTS, "B_is_exactly_64KiB")
        .class_if(stats.added > 0, "has_added")
        .class_if(stats.removed > 0, "has_removed")
        .class_if(stats.changed > 0, "has_changed")
        .class_if(stats.untouched > 0, "has_untouched")
        .class_if(stats.added + stats.removed + stats.changed == 0, "A_equals_B")
        .class_if(stats.ref_snap, "ref_snapshot_compared")
        .class_if(stats.ref_delta && !stats.ref_delta_empty, "ref_delta_applied")
        .class_if(stats.ref_delta_empty, "ref_delta_empty")
        .class_if(stats.ref_snap && !stats.ref_delta, "ref_delta_skipped_capacity_or_buckets")
        .class_if(stats.ref_delta_warned, "ref_delta_warned");
    for (c, cond) in extra {
        o = o.class_if(*cond, *c);
    }
    o
}

fn check_raw_case(c: &RawPairCase) -> PResult {
    let p = normalize_raw(c);
    let empty = SizeTable::new();
    let tables: Vec<&SizeTable> = if p.table.is_empty() { vec![&empty] } else { vec![&p.table, &empty] };
    let stats = check_raw_pair(&p.a, &p.b, &p.order, &tables, Some(0))?;
    Ok(outcome_of(&stats, &[("A_filled_to_64KiB", p.filled_a), ("B_filled_to_64KiB", p.filled_b)]))
}

// ---- typed flavour (Builder / Snap with UUID types)

pub struct TypedSide {
    pub model: TypedModel,
    pub order: Vec<(TypeId, u16)>,
    pub registered: BTreeSet<[u8; 16]>,
}

pub struct TypedPair {
    pub a: TypedSide,
    pub b: TypedSide,
    pub table: SizeTable,
}

struct Budget {
    n: usize,
    w: usize,
}

impl Budget {
    /// Reserve room for an item (and its type's registry item if the UUID is new).
    fn take(&mut self, new_uuid: bool, len: usize) -> bool {
        let (mut n, mut w) = (self.n, self.w);
        if new_uuid {
            if !fits(n, w, 4) {
                return false;
            }
            n += 1;
            w += 4;
        }
        if !fits(n, w, len) {
            return false;
        }
        self.n = n + 1;
        self.w = w + len;
        true
    }
}

pub fn normalize_typed(c: &TypedPairCase) -> TypedPair {
    let mut decided: BTreeMap<u16, Option<u32>> = BTreeMap::new();
    let mut seen: BTreeSet<(TypeId, u16)> = BTreeSet::new();
    let mut rows: Vec<((TypeId, u16), Presence, Vec<i32>, Vec<i32>)> = Vec::new();
    for it in &c.items {
        let ty = it.ty.type_id();
        let key = (ty, it.id);
        if !seen.insert(key) {
            continue;
        }
        let own = it.a.len();
        let len = match ty {
            TypeId::Ordinal(o) => match *decided.entry(o).or_insert(if it.preagreed { Some(own as u32) } else { None }) {
                Some(s) => s as usize,
                None => own,
            },
            TypeId::Uuid(_) => own,
        };
        let da = it.a.expand_to(len);
        let db = if it.presence == Presence::Same { da.clone() } else { it.b.expand_to(len) };
        rows.push((key, it.presence, da, db));
    }
    let side = |is_b: bool, start: &BTreeSet<[u8; 16]>| -> TypedSide {
        let mut s = TypedSide { model: TypedModel::new(), order: Vec::new(), registered: start.clone() };
        let mut budget = Budget { n: start.len(), w: 4 * start.len() };
        for (key, presence, da, db) in &rows {
            let present = if is_b { *presence != Presence::OnlyA } else { *presence != Presence::OnlyB };
            if !present {
                continue;
            }
            let d = if is_b { db } else { da };
            let new_uuid = match key.0 {
                TypeId::Uuid(u) => !s.registered.contains(u.as_bytes()),
                _ => false,
            };
            if !budget.take(new_uuid, d.len()) {
                continue;
            }
            if let TypeId::Uuid(u) = key.0 {
                s.registered.insert(*u.as_bytes());
            }
            s.model.insert(*key, d.clone());
            s.order.push(*key);
        }
        s
    };
    let a = side(false, &BTreeSet::new());
    let b = side(true, &if c.recycle { a.registered.clone() } else { BTreeSet::new() });
    TypedPair {
        a,
        b,
        table: decided.into_iter().filter_map(|(t, s)| s.map(|s| (t, s))).collect(),
    }
}

pub fn build_typed(mut b: Builder, side: &TypedSide) -> Result<Snap, String> {
    for (n, k) in side.order.iter().enumerate() {
        let d = &side.model[k];
        b.add_item(k.0, k.1, d).map_err(|e| {
            format!("Builder::add_item({:?}, {}, {} words) refused with {:?} after {} items within the limits", k.0, k.1, d.len(), e, n)
        })?;
    }
    Ok(b.finish())
}

fn check_typed_case(c: &TypedPairCase, uuid_bug_open: bool, excluded: &AtomicU64) -> PResult {
    let p = normalize_typed(c);
    let a = build_typed(Builder::new(), &p.a)?;
    let b = build_typed(if c.recycle { a.clone().recycle() } else { Builder::new() }, &p.b)?;
    let (am, areg) = raw_view_of_typed(&a.to_ints()?, &p.a.model, "built A")?;
    let (bm, breg) = raw_view_of_typed(&b.to_ints()?, &p.b.model, "built B")?;
    let n_uuid_types = breg.len();
    let uuid_items = p.b.model.keys().filter(|k| is_uuid(&k.0)).count();
    if c.recycle {
        for (u, n) in &areg {
            ensure_eq!(breg.get(u), Some(n), "type number of UUID {} after recycle()", Uuid::from_bytes(*u));
        }
    }
    // Sender-side contract: one size per raw key. Fresh builders number UUID types by first use, so
    // different UUIDs can share a number in A and B; such pairs with differing sizes are not
    // something a sender can produce a delta for (`Delta::create` documents that) - skipped.
    let conflict = am.iter().any(|(k, d)| bm.get(k).map(|e| e.len() != d.len()).unwrap_or(false));
    if conflict {
        return Ok(Outcome::trivial().class("skipped_raw_key_size_conflict"));
    }
    let empty = SizeTable::new();
    let tables: Vec<&SizeTable> = if p.table.is_empty() { vec![&empty] } else { vec![&p.table, &empty] };
    let absent_a: Vec<(TypeId, u16)> = p.b.model.keys().filter(|k| !p.a.model.contains_key(k)).copied().collect();
    let absent_b: Vec<(TypeId, u16)> = p.a.model.keys().filter(|k| !p.b.model.contains_key(k)).copied().collect();
    let areg_set: BTreeSet<[u8; 16]> = areg.keys().copied().collect();
    let breg_set: BTreeSet<[u8; 16]> = breg.keys().copied().collect();
    ensure_eq!(areg_set, p.a.registered, "UUIDs in A's registry vs UUIDs used");
    ensure_eq!(breg_set, p.b.registered, "UUIDs in B's registry vs UUIDs used (plus recycled)");
    let verify = |s: &Snap, is_b: bool, what: &str| {
        // snapshots handed in as "built" come from the builder, everything else went through
        // read_with_delta and so through the registry rebuild
        let built = what.starts_with("built");
        let lookup = built || !uuid_bug_open;
        if is_b {
            verify_typed(s, &p.b.model, &breg_set, lookup, &absent_b, what)
        } else {
            verify_typed(s, &p.a.model, &areg_set, lookup, &absent_a, what)
        }
    };
    let stats = check_delta_pair(&a, &b, &am, &bm, &tables, &verify, Some(0))?;
    if uuid_bug_open && uuid_items > 0 {
        excluded.fetch_add(1, Ordering::Relaxed);
    }
    let registry_changed = areg.iter().any(|(u, n)| breg.get(u) != Some(n)) || areg.len() != breg.len();
    Ok(outcome_of(
        &stats,
        &[
            ("recycled_builder", c.recycle),
            ("uuid_types_0", n_uuid_types == 0),
            ("uuid_types_1", n_uuid_types == 1),
            ("uuid_types_2_5", (2..=5).contains(&n_uuid_types)),
            ("uuid_types_gt5", n_uuid_types > 5),
            ("uuid_items_in_B", uuid_items > 0),
            ("registry_differs_A_B", registry_changed),
        ],
    ))
}

// ---------------------------------------------------------------------------

/// Minimal input for the UUID-registry defect as seen through a delta application.
fn probe_uuid_lookup_after_delta() -> Result<(), String> {
    let c = TypedPairCase {
        items: vec![PairItem {
            ty: TypeSel::Uuid(4),
            id: 1,
            presence: Presence::OnlyB,
            preagreed: false,
            a: DataSpec::Words(vec![7]),
            b: DataSpec::Words(vec![7]),
        }],
        recycle: false,
    };
    check_typed_case(&c, false, &AtomicU64::new(0)).map(|_| ())
}

pub fn run(ctx: &Ctx) {
    ctx.set_rule(
        "small_*: every pair (A,B) over 1/2/3 keys of a 7-key universe x absent/only-A/only-B/both x lengths 0..3 (one key), \
         0..2 x 0..1 (two keys; thorough also 0..2 x 0..2 and 0..3 x 0..1), 0..1 (three keys, thorough) x words {0,1,-1,MIN,MAX}, \
         complete enumeration (non-trivial = A != B); random_raw / \
         random_typed: proptest pairs of item sets (RawBuilder with any 16-bit type / Builder with ordinal and UUID types, \
         fresh or recycled), one size per key, a generated subset of types with pre-agreed sizes, up to 1024 items and \
         exactly 64 KiB (non-trivial = at least one added, one removed, one changed and one untouched item; distinct by case hash)",
    );
    ctx.assume("the wire-format oracle is an independent reader written from doc/snapshot.md; byte wire forms are decoded with libtw2_packer::Unpacker (property C08)");
    ctx.assume(
        "reference differential only inside the domain where the C++ does not abort or overflow: types <= 0x7fff, static sizes only \
         for types < 64 and != 0, delta bound <= 16384 words, <= 64 keys per hash bucket; an empty reference delta means 'no change'; \
         warnings while applying a reference delta are not demanded to be absent",
    );
    ctx.assume("snapshot pairs respect the sender-side contract of Delta::create: the same raw key has the same size in A and B");

    let uuid_bug_open = ctx.known_open(KEY_UUID_REGISTRY);
    ctx.probe(KEY_UUID_REGISTRY, probe_uuid_lookup_after_delta);

    let render = |kind: SmallKind| {
        move |i: u64| {
            let (a, b) = small_models(kind, i);
            json!({"A": render_model(&a), "B": render_model(&b)})
        }
    };
    let one = SmallKind::One;
    ctx.exhaustive("small_1key", small_total(one), |i| check_small(one, i, true), render(one));
    let two = SmallKind::TwoMixed { first: 2, second: 1 };
    ctx.exhaustive("small_2keys", small_total(two), |i| check_small(two, i, false), render(two));
    if !ctx.quick() {
        let three = SmallKind::Three;
        ctx.exhaustive("small_3keys", small_total(three), |i| check_small(three, i, false), render(three));
        let two2 = SmallKind::Two { len: 2 };
        ctx.exhaustive("small_2keys_len2", small_total(two2), |i| check_small(two2, i, false), render(two2));
        let long = SmallKind::TwoMixed { first: 3, second: 1 };
        ctx.exhaustive("small_2keys_len3", small_total(long), |i| check_small(long, i, false), render(long));
    }
    ctx.prop("random_raw", ctx.n(6_000, 120_000), raw_pair_strategy, check_raw_case);
    if uuid_bug_open {
        ctx.note(format!(
            "known finding {} open: item(Uuid, ..) lookups on snapshots produced by read_with_delta are left out",
            KEY_UUID_REGISTRY
        ));
    }
    let excluded = AtomicU64::new(0);
    ctx.prop("random_typed", ctx.n(4_000, 80_000), typed_pair_strategy, |c: &TypedPairCase| {
        check_typed_case(c, uuid_bug_open, &excluded)
    });
    ctx.add_excluded_known(excluded.load(Ordering::Relaxed));
}
